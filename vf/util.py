"""Small helpers shared by the property modules."""

import atexit
import itertools
import os
import re
import shutil
import tempfile

_TMP = None
_N = itertools.count()


def tmpdir():
    global _TMP
    if _TMP is None:
        _TMP = tempfile.mkdtemp(prefix="vf-")
        atexit.register(shutil.rmtree, _TMP, ignore_errors=True)
    return _TMP


def tmpfile(stem, ext=""):
    return os.path.join(tmpdir(), f"{stem}-{next(_N)}{ext}")


def rm(*paths):
    for p in paths:
        try:
            os.remove(p)
        except OSError:
            pass


_NONFINITE = re.compile(r"(?<![A-Za-z0-9_.])[-+]?(?:nan|inf|infinity)(?![A-Za-z0-9_.])", re.I)


def write_outcome(mesh, path, debug_path=None, nblocks=None):
    """-> ("success" | exception class name | "Budget", exception or None). Runs the real Mesh.write under a
    logical step budget on Block.copy_grading (termination is decided on steps, never on wall clock)."""
    from classy_blocks.items.block import Block

    from vf import sched
    from vf.core import Budget

    if nblocks is None:
        nblocks = max(1, len(mesh.operations))
    try:
        # the propagation loop reads Block.is_defined once per visited block and calls copy_grading at most once per
        # visit: both are budgeted, so a loop that spins without calling copy_grading is cut as well
        budget = sched.propagation_budget(nblocks)
        with sched.step_budget(Block, "copy_grading", budget), sched.property_budget(Block, "is_defined", 4 * budget + 8 * nblocks):
            if debug_path is None:
                mesh.write(path)
            else:
                mesh.write(path, debug_path)
    except Budget as err:
        return "Budget", err
    except Exception as err:  # noqa: BLE001
        return type(err).__name__, err
    # a file with nan / inf in it is no dictionary blockMesh can read; numeric oracles downstream compare with `<=`
    # and would treat nan as "no difference found", so this is decided here, once, for every check that writes
    try:
        with open(path) as fh:
            m = _NONFINITE.search(fh.read())
    except OSError:
        m = None
    if m:
        return "NonFiniteNumberWritten", ValueError(f"the written file contains {m.group(0).strip()!r}")
    return "success", None


def read_text(path):
    with open(path) as fh:
        return fh.read()
