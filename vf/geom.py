"""Independent geometry used by the oracles (textbook formulae; nothing imported from classy_blocks)."""

import math

import numpy as np


def arr(p):
    return np.array(p, dtype=float)


def unit(v):
    v = arr(v)
    return v / np.linalg.norm(v)


def rotate(p, axis, angle, origin=(0, 0, 0)):
    """Rodrigues' rotation of point(s) p about the line origin + t*axis"""
    k = unit(axis)
    o = arr(origin)
    v = arr(p) - o
    c, s = math.cos(angle), math.sin(angle)
    if v.ndim == 1:
        return o + v * c + np.cross(k, v) * s + k * np.dot(k, v) * (1 - c)
    return o + v * c + np.cross(k, v) * s + np.outer(v @ k, k) * (1 - c)


def rotate_vec(v, axis, angle):
    return rotate(v, axis, angle, (0, 0, 0))


def reflect(p, normal, origin=(0, 0, 0)):
    """Householder reflection through the plane (origin, normal)"""
    n = unit(normal)
    o = arr(origin)
    v = arr(p) - o
    if v.ndim == 1:
        return o + v - 2 * np.dot(v, n) * n
    return o + v - 2 * np.outer(v @ n, n)


def reflect_vec(v, normal):
    return reflect(v, normal, (0, 0, 0))


def scale(p, ratio, origin=(0, 0, 0)):
    o = arr(origin)
    return o + (arr(p) - o) * ratio


def dist(a, b):
    return float(np.linalg.norm(arr(a) - arr(b)))


def polyline_length(points):
    pts = arr(points)
    return float(np.sum(np.linalg.norm(pts[1:] - pts[:-1], axis=1)))


def circumcenter(a, b, c):
    """centre, radius, unit normal of the circle through three points"""
    a, b, c = arr(a), arr(b), arr(c)
    ab, ac = b - a, c - a
    n = np.cross(ab, ac)
    n2 = float(np.dot(n, n))
    if n2 < 1e-300:
        raise ValueError("collinear")
    centre = a + (np.cross(n, ab) * np.dot(ac, ac) + np.cross(ac, n) * np.dot(ab, ab)) / (2 * n2)
    return centre, float(np.linalg.norm(a - centre)), n / math.sqrt(n2)


def arc_through(a, m, b):
    """(centre, radius, axis, angle) of the arc from a to b passing through m; angle in (0, 2pi),
    axis oriented so that rotating a by +angle about it gives b and passes m"""
    centre, r, n = circumcenter(a, m, b)
    a, m, b = arr(a), arr(m), arr(b)

    def ang(p):
        va, vp = a - centre, p - centre
        t = math.atan2(float(np.dot(np.cross(va, vp), n)), float(np.dot(va, vp)))
        return t if t >= 0 else t + 2 * math.pi

    tm, tb = ang(m), ang(b)
    if tm < tb:
        return centre, r, n, tb
    return centre, r, -n, 2 * math.pi - tb


def arc_length_through(a, m, b):
    _, r, _, angle = arc_through(a, m, b)
    return r * angle


def sample_arc(a, m, b, n=33):
    centre, _, axis, angle = arc_through(a, m, b)
    return np.array([rotate(a, axis, angle * t / (n - 1), centre) for t in range(n)])


def resample_polyline(points, n=65):
    """n points equally spaced in arc length along a polyline"""
    pts = arr(points)
    seg = np.linalg.norm(pts[1:] - pts[:-1], axis=1)
    s = np.concatenate(([0], np.cumsum(seg)))
    if s[-1] == 0:
        return np.repeat(pts[:1], n, axis=0)
    t = np.linspace(0, s[-1], n)
    return np.array([np.interp(t, s, pts[:, k]) for k in range(3)]).T


def point_polyline_distance(p, points):
    """distance from p to the polyline through points"""
    pts = arr(points)
    p = arr(p)
    a, b = pts[:-1], pts[1:]
    ab = b - a
    den = np.sum(ab * ab, axis=1)
    den[den == 0] = 1
    t = np.clip(np.sum((p - a) * ab, axis=1) / den, 0, 1)
    proj = a + ab * t[:, None]
    return float(np.min(np.linalg.norm(proj - p, axis=1)))


def directed_curve_distance(pa, pb, n=41):
    """max distance between two polylines sampled at equal arc-length fractions, in the SAME order:
    a curve traversed the other way round (or a different curve between the same ends) scores large."""
    ra, rb = resample_polyline(pa, n), resample_polyline(pb, n)
    return float(np.max(np.linalg.norm(ra - rb, axis=1)))


# ---- blockMesh geometric progression ------------------------------------------------------------
def progression(length, count, total_expansion):
    """cell sizes delta_i = delta_0 r^i, r = E^(1/(n-1)), sum = length (OpenFOAM user guide 4.3.1.3)"""
    n = int(count)
    if n == 1:
        return [float(length)]
    r = float(total_expansion) ** (1.0 / (n - 1))
    if abs(r - 1) < 1e-12:
        return [length / n] * n
    d0 = length * (1 - r) / (1 - r**n)
    return [d0 * r**i for i in range(n)]


def multigrading_sizes(length, spec):
    """spec: list of (length_fraction, count, expansion); blockMesh normalises the fractions"""
    tot = sum(s[0] for s in spec)
    sizes = []
    for frac, cnt, exp in spec:
        sizes += progression(length * frac / tot, cnt, exp)
    return sizes


def orthonormal_frame(rng):
    """random right-handed orthonormal frame (3 rows)"""
    while True:
        a = arr([rng.gauss(0, 1) for _ in range(3)])
        b = arr([rng.gauss(0, 1) for _ in range(3)])
        if np.linalg.norm(a) > 0.1 and np.linalg.norm(np.cross(a, b)) > 0.1:
            break
    e1 = unit(a)
    e3 = unit(np.cross(a, b))
    e2 = np.cross(e3, e1)
    return np.array([e1, e2, e3])


def rand_vec(rng, lo=-1.0, hi=1.0):
    return [rng.uniform(lo, hi) for _ in range(3)]


def rand_unit(rng):
    while True:
        v = arr([rng.gauss(0, 1) for _ in range(3)])
        n = np.linalg.norm(v)
        if n > 0.2:
            return v / n
