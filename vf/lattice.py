"""Random block assemblies on a jittered lattice + the reference "count family" model.

A case is plain JSON:
  {"dims": [nx,ny,nz],
   "blocks": [{"cell": [i,j,k], "perm": rotation id, "pts": 8 points in the block's OWN numbering,
               "nodes": 8 lattice node ids in the same numbering, "chops": [[axis, {chop kwargs}], ...]}, ...]}
The list order is the insertion order.
"""

import numpy as np

from vf import hexconv


def node_id(dims, i, j, k):
    return (k * (dims[1] + 1) + j) * (dims[0] + 1) + i


def make_nodes(rng, dims, jitter, spacing=(1.0, 1.0, 1.0), origin=(0.0, 0.0, 0.0)):
    nodes = {}
    for k in range(dims[2] + 1):
        for j in range(dims[1] + 1):
            for i in range(dims[0] + 1):
                p = [origin[0] + i * spacing[0], origin[1] + j * spacing[1], origin[2] + k * spacing[2]]
                p = [p[a] + rng.uniform(-jitter, jitter) * spacing[a] for a in range(3)]
                nodes[node_id(dims, i, j, k)] = p
    return nodes


def cell_block(dims, nodes, cell, perm_id, mirrored=False):
    i, j, k = cell
    ids = [node_id(dims, i + c[0], j + c[1], k + c[2]) for c in hexconv.CORNER]
    perm = (hexconv.MIRRORED if mirrored else hexconv.ROTATIONS)[perm_id]
    ids = hexconv.renumber(ids, perm)
    return {"cell": list(cell), "perm": perm_id, "nodes": ids, "pts": [list(nodes[n]) for n in ids], "chops": []}


def gen_assembly(rng, max_dims=(3, 3, 2), jitter=0.12, fill=None, max_blocks=18, rotate=True, long_rows=0.0):
    dims = [rng.randint(1, max_dims[a]) for a in range(3)]
    if rng.random() < long_rows:
        # long chains: a count has to travel several hops
        dims = rng.choice([[5, 1, 1], [6, 1, 1], [4, 2, 1], [5, 2, 1], [4, 1, 2]])
        fill = 1.0 if fill is None else fill
    rng.shuffle(dims) if rng.random() < 0.3 else None
    spacing = [rng.uniform(0.6, 2.0) for _ in range(3)]
    origin = [rng.uniform(-3, 3) for _ in range(3)]
    nodes = make_nodes(rng, dims, jitter if rng.random() < 0.8 else 0.0, spacing, origin)
    cells = [(i, j, k) for k in range(dims[2]) for j in range(dims[1]) for i in range(dims[0])]
    if fill is None:
        fill = rng.choice([1.0, 1.0, 0.8, 0.6, 0.45])
    chosen = [c for c in cells if rng.random() < fill]
    if len(chosen) < 2:
        chosen = rng.sample(cells, min(2, len(cells)))
    chosen = chosen[:max_blocks]
    rng.shuffle(chosen)
    blocks = [cell_block(dims, nodes, c, rng.randrange(24) if rotate else 0) for c in chosen]
    return {"dims": dims, "blocks": blocks}


def invert_kwargs(kw):
    """the same physical chop seen from the other end of the edge"""
    out = {}
    for k, v in kw.items():
        if k == "start_size":
            out["end_size"] = v
        elif k == "end_size":
            out["start_size"] = v
        elif k in ("c2c_expansion", "total_expansion"):
            out[k] = 1.0 / v
        elif k == "preserve":
            out[k] = {"start_size": "end_size", "end_size": "start_size"}.get(v, v)
        else:
            out[k] = v
    return out


def local_axis_of(perm, lattice_dir):
    """for a block renumbered by perm: (local axis, +1/-1) that runs along +lattice_dir of the un-renumbered cell"""
    for a in range(3):
        c0, c1 = hexconv.AXIS_EDGES[a][0]
        d = [hexconv.CORNER[perm[c1]][k] - hexconv.CORNER[perm[c0]][k] for k in range(3)]
        if d[lattice_dir] != 0:
            return a, d[lattice_dir]
    raise AssertionError


def realise(base, order=None, perms=None):
    """base: a case whose blocks are all perm 0 (local axis == lattice direction). Returns the same physical
    model with the given insertion order and corner renumberings; chops follow their geometric direction
    (a multi-section chop list on a reversed axis is reversed as well)."""
    nb = len(base["blocks"])
    order = list(range(nb)) if order is None else order
    perms = [0] * nb if perms is None else perms
    blocks = []
    for bi in order:
        src = base["blocks"][bi]
        perm = hexconv.ROTATIONS[perms[bi]]
        blk = {"cell": src["cell"], "perm": perms[bi], "base_index": bi,
               "nodes": hexconv.renumber(src["nodes"], perm), "pts": hexconv.renumber(src["pts"], perm), "chops": []}
        per_axis = {}
        for d, kw in src["chops"]:
            a, sign = local_axis_of(perm, d)
            per_axis.setdefault((a, sign), []).append(kw if sign > 0 else invert_kwargs(kw))
        for (a, sign), kws in sorted(per_axis.items()):
            for kw in (kws if sign > 0 else kws[::-1]):
                blk["chops"].append([a, kw])
        blocks.append(blk)
    return {"dims": base["dims"], "blocks": blocks}


# ------------------------------------------------------------------------------------------------
class UF:
    def __init__(self):
        self.p = {}

    def find(self, x):
        self.p.setdefault(x, x)
        while self.p[x] != x:
            self.p[x] = self.p[self.p[x]]
            x = self.p[x]
        return x

    def union(self, a, b):
        ra, rb = self.find(a), self.find(b)
        if ra != rb:
            self.p[ra] = rb


def block_axis_pairs(block):
    """{axis: [frozenset(node pair) x4]} for a case block, from the hexahedron convention"""
    n = block["nodes"]
    return {a: [frozenset((n[e[0]], n[e[1]])) for e in hexconv.AXIS_EDGES[a]] for a in range(3)}


def families(case, key="nodes"):
    """union-find over (block index, axis) joined through identical unordered node pairs.
    -> (family id per (b, a), members per family id, {node pair: [(b,a,edge k, directed pair)]})"""
    uf = UF()
    by_pair = {}
    for b, blk in enumerate(case["blocks"]):
        n = blk[key]
        for a in range(3):
            uf.find((b, a))
            for k, e in enumerate(hexconv.AXIS_EDGES[a]):
                pr = frozenset((n[e[0]], n[e[1]]))
                if len(pr) == 1:
                    continue  # collapsed edge
                by_pair.setdefault(pr, []).append((b, a, k, (n[e[0]], n[e[1]])))
    for pr, users in by_pair.items():
        for u in users[1:]:
            uf.union((users[0][0], users[0][1]), (u[0], u[1]))
    fam = {}
    for b in range(len(case["blocks"])):
        for a in range(3):
            fam.setdefault(uf.find((b, a)), []).append((b, a))
    fid = {}
    for root, members in fam.items():
        for m in members:
            fid[m] = root
    return fid, fam, by_pair


def contact_summary(case):
    """(n blocks, #face contacts, #edge-only contacts, #vertex-only contacts)"""
    blocks = case["blocks"]
    face = edge = vert = 0
    for x in range(len(blocks)):
        sx = set(blocks[x]["nodes"])
        for y in range(x + 1, len(blocks)):
            c = len(sx & set(blocks[y]["nodes"]))
            if c >= 4:
                face += 1
            elif c >= 2:
                edge += 1
            elif c == 1:
                vert += 1
    return len(blocks), face, edge, vert


# ------------------------------------------------------------------------------------------------
def set_edge(op, c1, c2, data):
    """put edge data on the operation's edge between local corners c1, c2 (direction-independent kinds only)"""
    lo, hi = min(c1, c2), max(c1, c2)
    if hi < 4:
        op.bottom_face.add_edge(3 if (lo, hi) == (0, 3) else lo, data)
    elif lo >= 4:
        op.top_face.add_edge(3 if (lo, hi) == (4, 7) else lo - 4, data)
    else:
        op.add_side_edge(lo, data)


def pair_key(na, nb):
    """'n1-n2' with integer lattice nodes in numeric order (renamed slave copies of a merged pair are strings: last)"""
    return "-".join(str(n) for n in sorted((na, nb), key=lambda n: (1, 0, n) if isinstance(n, str) else (0, n, "")))


def build_ops(case, cb):
    """classy_blocks operations for the case, in insertion order (the real library).
    case["arcs"] (optional): {"n1-n2": third point} circular-arc edges on lattice edges, defined by every block that uses them"""
    ops = []
    arcs = case.get("arcs") or {}
    first_only = case.get("arcs_by") == "first"  # only the block added first defines a shared arc (later ones get it from the mesh)
    defined = set()
    for blk in case["blocks"]:
        pts = np.array(blk["pts"], dtype=float)
        op = cb.Loft(cb.Face(pts[:4]), cb.Face(pts[4:]))
        for e in hexconv.EDGES:
            if not arcs:
                break
            key = pair_key(blk["nodes"][e[0]], blk["nodes"][e[1]])
            if key in arcs and not (first_only and key in defined):
                set_edge(op, e[0], e[1], cb.Arc(list(arcs[key])))
                defined.add(key)
        for axis, kw in blk["chops"]:
            op.chop(axis, **kw)
        for side, name in (blk.get("patches") or {}).items():
            op.set_patch(side, name)
        ops.append(op)
    return ops


def build_mesh(case, cb):
    mesh = cb.Mesh()
    ops = build_ops(case, cb)
    for op in ops:
        mesh.add(op)
    for master, slave in case.get("merges") or []:
        mesh.merge_patches(master, slave)
    return mesh, ops


def add_merged_pair(rng, case):
    """declare one face contact as a face-merged pair (master side / slave side). The slave-side corners get their own
    vertex copies, so for the reference model they are different nodes: the count families are cut there."""
    blocks = case["blocks"]
    contacts = []
    for x in range(len(blocks)):
        for y in range(len(blocks)):
            if x != y:
                common = set(blocks[x]["nodes"]) & set(blocks[y]["nodes"])
                if len(common) == 4:
                    contacts.append((x, y, common))
    if not contacts:
        return False
    x, y, common = rng.choice(contacts)
    sx = [n for n, c in hexconv.SIDES.items() if {blocks[x]["nodes"][k] for k in c} == common][0]
    sy = [n for n, c in hexconv.SIDES.items() if {blocks[y]["nodes"][k] for k in c} == common][0]
    blocks[x].setdefault("patches", {})[sx] = "mM"
    blocks[y].setdefault("patches", {})[sy] = "mS"
    case["merges"] = [["mM", "mS"]]
    # vertex identity on the slave side: (node, slave patches at that corner); only block y carries patch mS
    blocks[y]["nodes"] = [f"{n}|mS" if k in hexconv.SIDES[sy] else n for k, n in enumerate(blocks[y]["nodes"])]
    return True


def file_edge_counts(parsed):
    """from the parsed file only: {frozenset(vertex pair): set of counts}, plus per-block lists"""
    counts = {}
    for bi, blk in enumerate(parsed["blocks"]):
        idx = blk["idx"]
        for a in range(3):
            for e in hexconv.AXIS_EDGES[a]:
                pr = frozenset((idx[e[0]], idx[e[1]]))
                if len(pr) == 2:
                    counts.setdefault(pr, set()).add((blk["counts"][a]))
    return counts
