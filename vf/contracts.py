"""Always-on icontract contracts applied from the harness to the REAL classes (repository untouched).

Named condition functions + explicit error= (a lambda in call form would turn a violation into SyntaxError).
Every condition counts its evaluations in the current Ctx ("contract:<name>"); a run that relies on a contract
and sees zero evaluations is INCONCLUSIVE (REQUIRED counters in the property modules)."""

import math

from vf import core

core.setup_paths()
import icontract  # noqa: E402


class ContractBroken(Exception):
    pass


_CTX = [None]
_INSTALLED = [False]


def _count(name):
    if _CTX[0] is not None:
        _CTX[0].count(f"contract:{name}")


# ---- Chop.calculate --------------------------------------------------------------------------------
def calculate_wellformed(result):
    _count("Chop.calculate")
    n, e = result
    return (
        isinstance(n, (int,)) and not isinstance(n, bool) and n >= 1
        and isinstance(e, (int, float)) and math.isfinite(e) and e > 0
    ) or _np_ok(n, e)


def _np_ok(n, e):
    import numpy as np

    return (
        isinstance(n, (int, np.integer)) and n >= 1 and isinstance(e, (int, float, np.floating, np.integer))
        and bool(np.isfinite(e)) and e > 0
    )


def calculate_error(self, length, result):
    return ContractBroken(f"Chop.calculate({length}) of {self} returned {result!r}: count must be an integer >= 1 and "
                          f"expansion finite and positive")


# ---- Grading invariant -----------------------------------------------------------------------------
def grading_rows_wellformed(self):
    _count("Grading.invariant")
    for row in self.specification:
        lr, cnt, exp = row
        if not (0 < lr <= 1):
            return False
        # blockMesh's second number is a cell fraction: the library stores whole counts, hand-filled rows (as in the
        # repository's own test_output_multi) may hold fractions - both are well-formed as long as they are positive
        if not (isinstance(cnt, (int, float)) or _is_np_number(cnt)) or not cnt > 0:
            return False
        if not (isinstance(exp, (int, float)) or _is_np_number(exp)) or not (math.isfinite(float(exp)) and exp > 0):
            return False
    return True


def _is_np_number(x):
    import numpy as np

    return isinstance(x, (np.integer, np.floating))


def grading_error(self):
    return ContractBroken(f"Grading holds an ill-formed section: {self.specification}")


def install(ctx):
    _CTX[0] = ctx
    if _INSTALLED[0]:
        return
    from classy_blocks.grading.chop import Chop
    from classy_blocks.grading.grading import Grading

    Chop.calculate = icontract.ensure(calculate_wellformed, error=calculate_error)(Chop.calculate)
    icontract.invariant(grading_rows_wellformed, error=grading_error)(Grading)
    _INSTALLED[0] = True


# ---- VertexList.add --------------------------------------------------------------------------------
def vertex_add_post(self, point, result):
    _count("VertexList.add")
    import numpy as np

    if float(np.linalg.norm(np.asarray(result.position) - np.asarray(point.position))) > 1e-7:
        return False
    return all(v.index == i for i, v in enumerate(self.vertices)) and self.vertices[result.index] is result


def vertex_add_error(self, point, result):
    return ContractBroken(
        f"VertexList.add({point.position}) returned vertex {result.index} at {result.position}; "
        f"indexes {[v.index for v in self.vertices][:12]}"
    )


_VL = [False]


def install_vertexlist(ctx):
    _CTX[0] = ctx
    if _VL[0]:
        return
    from classy_blocks.lists.vertex_list import VertexList

    VertexList.add = icontract.ensure(vertex_add_post, error=vertex_add_error)(VertexList.add)
    _VL[0] = True
