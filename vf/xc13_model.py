"""C13 helpers: workload generator (plain JSON cases) and the INDEPENDENT oracles for clamp manifolds / bounds
and link relations. Nothing here imports classy_blocks; geometry comes from vf.geom and textbook formulae.

Case layout
  {"kind": "mesh" | "sketch", "topo": "2x2x1" | "3x3" | "ogrid" ..., "size": typical edge length,
   "points": [[x,y,z] ...], "cells": [[8 idx] | [4 idx] ...],
   "clamps": [{"v": idx, "type": ..., <type specific numbers>} ...],
   "links":  [{"type": "translation"|"rotation"|"symmetry", "leader": idx, "follower": idx, ...} ...],
   "method": "SLSQP"|"L-BFGS-B"|"Nelder-Mead"|"Powell", "iterations": 1..3, "tolerance": float,
   "failpoint": null | {"step": j, "eval": k}}
"""

import math

import numpy as np

from vf import geom, hexconv

METHODS = ["SLSQP", "L-BFGS-B", "Nelder-Mead", "Powell"]
CLAMP_TYPES = ["free", "line", "line-bounds", "curve-line", "curve-circle", "curve-linear", "curve-spline",
               "curve-analytic", "radial", "radial-bounds", "plane", "surface", "surface-bounds"]
LINK_TYPES = ["translation", "rotation", "symmetry"]


def _l(v):
    return [float(x) for x in v]


# ================================================================================================
# independent oracles
# ================================================================================================
def axis_parts(x, origin, normal):
    """(height along the axis, radial vector) of x about the line origin + t*normal"""
    n = geom.unit(normal)
    d = geom.arr(x) - geom.arr(origin)
    h = float(np.dot(d, n))
    return h, d - h * n, n


def signed_angle(rad_from, rad_to, n):
    """right-handed angle about unit n that takes rad_from to rad_to, in (-pi, pi]"""
    return math.atan2(float(np.dot(np.cross(rad_from, rad_to), n)), float(np.dot(rad_from, rad_to)))


def interval_excess(t, lo, hi, period=None):
    """how far t lies outside [lo, hi] (0 when inside); with a period the best representative is taken"""
    if period is None:
        return max(lo - t, t - hi, 0.0)
    best = math.inf
    k0 = math.floor((lo - t) / period)
    for k in (k0 - 1, k0, k0 + 1, k0 + 2):
        best = min(best, max(lo - (t + k * period), (t + k * period) - hi, 0.0))
    return best


def chord_params(pts):
    pts = geom.arr(pts)
    s = np.concatenate(([0.0], np.cumsum(np.linalg.norm(pts[1:] - pts[:-1], axis=1))))
    return s / s[-1]


def analytic_curve(spec, t):
    """twisted cubic in an orthonormal frame: O + t e1 + a t^2 e2 + b t^3 e3"""
    o, fr = geom.arr(spec["origin"]), geom.arr(spec["frame"])
    return o + t * fr[0] + spec["a"] * t * t * fr[1] + spec["b"] * t**3 * fr[2]


def surface_height(spec, u, v):
    c = spec["coef"]
    return c[0] * u * u + c[1] * u * v + c[2] * v * v


def surface_point(spec, u, v):
    o, fr = geom.arr(spec["origin"]), geom.arr(spec["frame"])
    return o + u * fr[0] + v * fr[1] + surface_height(spec, u, v) * fr[2]


_SPLINES = {}


def own_spline(pts):
    """cubic interpolating spline through pts, chord-length parametrised on [0, 1] (independent re-build)"""
    import scipy.interpolate

    key = repr(pts)
    if key not in _SPLINES:
        _SPLINES.clear()
        _SPLINES[key] = scipy.interpolate.make_interp_spline(chord_params(pts), geom.arr(pts))
    return _SPLINES[key]


def spline_distance(pts, x):
    """distance from x to the spline: dense sampling + golden-section refinement; -> (dist, t)"""
    spl = own_spline(pts)
    x = geom.arr(x)
    ts = np.linspace(0.0, 1.0, 2001)
    d = np.linalg.norm(spl(ts) - x, axis=1)
    i = int(np.argmin(d))
    lo, hi = ts[max(i - 1, 0)], ts[min(i + 1, len(ts) - 1)]
    g = (math.sqrt(5) - 1) / 2

    def fn(t):
        return float(np.linalg.norm(spl(t) - x))

    a, b = lo, hi
    c, e = b - g * (b - a), a + g * (b - a)
    fc, fe = fn(c), fn(e)
    for _ in range(80):
        if fc < fe:
            b, e, fe = e, c, fc
            c = b - g * (b - a)
            fc = fn(c)
        else:
            a, c, fc = c, e, fe
            e = a + g * (b - a)
            fe = fn(e)
    t = (a + b) / 2
    return min(fn(t), float(d[i])), t


def manifold_check(spec, x):
    """-> (distance of x from the clamp's manifold, amount by which its parameter(s) leave the bounds,
    bounds-tolerance class). Pure textbook geometry on the numbers of the case."""
    x = geom.arr(x)
    t = spec["type"]
    if t == "free":
        return 0.0, 0.0, "exact"
    if t in ("line", "line-bounds"):
        p1, p2 = geom.arr(spec["p1"]), geom.arr(spec["p2"])
        u = geom.unit(p2 - p1)
        s = float(np.dot(x - p1, u))
        lo, hi = spec["bounds"] if spec.get("bounds") else (0.0, float(np.linalg.norm(p2 - p1)))
        return float(np.linalg.norm(x - (p1 + s * u))), interval_excess(s, lo, hi), "exact"
    if t == "curve-line":
        p1, p2 = geom.arr(spec["p1"]), geom.arr(spec["p2"])
        v = p2 - p1
        s = float(np.dot(x - p1, v) / np.dot(v, v))
        return float(np.linalg.norm(x - (p1 + s * v))), interval_excess(s, *spec["bounds"]), "exact"
    if t == "curve-circle":
        hr, rr, n = axis_parts(spec["rim"], spec["origin"], spec["normal"])
        h, r, _ = axis_parts(x, spec["origin"], spec["normal"])
        dist = math.hypot(h - hr, float(np.linalg.norm(r)) - float(np.linalg.norm(rr)))
        ang = signed_angle(rr, r, n)
        return dist, interval_excess(ang, spec["bounds"][0], spec["bounds"][1], 2 * math.pi), "exact"
    if t == "curve-linear":
        return geom.point_polyline_distance(x, spec["points"]), 0.0, "exact"
    if t == "curve-spline":
        d, _ = spline_distance(spec["points"], x)
        return d, 0.0, "sampled"
    if t == "curve-analytic":
        s = float(np.dot(x - geom.arr(spec["origin"]), geom.arr(spec["frame"])[0]))
        return float(np.linalg.norm(x - analytic_curve(spec, s))), interval_excess(s, *spec["bounds"]), "exact"
    if t in ("radial", "radial-bounds"):
        h0, r0, n = axis_parts(spec["p0"], spec["center"], spec["normal"])
        h, r, _ = axis_parts(x, spec["center"], spec["normal"])
        rad0 = float(np.linalg.norm(r0))
        dist = math.hypot(h - h0, float(np.linalg.norm(r)) - rad0)
        if not spec.get("bounds"):
            return dist, 0.0, "exact"
        arc = signed_angle(r0, r, n) * rad0
        return dist, interval_excess(arc, spec["bounds"][0], spec["bounds"][1], 2 * math.pi * rad0), "exact"
    if t == "plane":
        return abs(float(np.dot(x - geom.arr(spec["point"]), geom.unit(spec["normal"])))), 0.0, "exact"
    if t in ("surface", "surface-bounds"):
        fr = geom.arr(spec["frame"])
        d = x - geom.arr(spec["origin"])
        u, v, w = float(np.dot(d, fr[0])), float(np.dot(d, fr[1])), float(np.dot(d, fr[2]))
        exc = 0.0
        if spec.get("bounds"):
            exc = max(interval_excess(u, *spec["bounds"][0]), interval_excess(v, *spec["bounds"][1]))
        return abs(w - surface_height(spec, u, v)), exc, "exact"
    raise AssertionError(t)


def link_expected(link, leader0, follower0, leader_now):
    """where the follower has to be, given where its leader is now (Rodrigues / Householder / vector sum)"""
    l0, f0, ln = geom.arr(leader0), geom.arr(follower0), geom.arr(leader_now)
    if link["type"] == "translation":
        return ln + (f0 - l0)
    if link["type"] == "symmetry":
        return geom.reflect(ln, link["normal"], link["origin"])
    if link["type"] == "rotation":
        _, r0, n = axis_parts(l0, link["origin"], link["axis"])
        _, r1, _ = axis_parts(ln, link["origin"], link["axis"])
        return geom.rotate(f0, n, signed_angle(r0, r1, n), link["origin"])
    raise AssertionError(link["type"])


# ================================================================================================
# topologies
# ================================================================================================
def _symmetrise(rng, pts, pairs, sp0, fr, o, size, sym):
    """make a random non-empty subset of the candidate pairs exact mirror images about the middle plane of lattice
    direction 0 (only those: a fully symmetric grid puts cell centres exactly opposite each other)"""
    if sym == "zero":
        plane = {"origin": [0.0, 0.0, 0.0], "normal": _l(fr[0] * rng.choice([1.0, -1.0, 2.5, 0.3]))}
    else:
        plane = {"origin": _l(o + sp0 * fr[0] + rng.uniform(-2, 2) * size * fr[1] + rng.uniform(-2, 2) * size * fr[2]),
                 "normal": _l(fr[0] * rng.choice([1.0, -1.0, 2.5, 0.3]))}
    chosen = [pr for pr in pairs if rng.random() < 0.5] or [rng.choice(pairs)]
    for a, b in chosen:
        pts[b] = geom.reflect(pts[a], plane["normal"], plane["origin"])
    return chosen, plane


def hex_lattice(rng, dims, size, jitter, frame, origin, sym=None):
    """nodes of a jittered lattice mapped to general position. sym = "zero" | "general": some node pairs (0,j,k) /
    (2,j,k) are exact mirror images about a plane through the global origin / through a general point"""
    sp = [size * rng.uniform(0.75, 1.35) for _ in range(3)]
    fr, o = geom.arr(frame), geom.arr(origin)
    if sym == "zero":  # the mirror plane (local x = sp[0]) has to contain the global origin
        o = -(sp[0] * fr[0] + rng.uniform(0, 2) * size * fr[1] + rng.uniform(0, 2) * size * fr[2])
    nid = {}
    local = []
    for k in range(dims[2] + 1):
        for j in range(dims[1] + 1):
            for i in range(dims[0] + 1):
                nid[(i, j, k)] = len(local)
                local.append([(i + rng.uniform(-jitter, jitter)) * sp[0], (j + rng.uniform(-jitter, jitter)) * sp[1],
                              (k + rng.uniform(-jitter, jitter)) * sp[2]])
    pts = [o + p[0] * fr[0] + p[1] * fr[1] + p[2] * fr[2] for p in local]
    pairs, plane = [], None
    if sym:
        cand = [(nid[(0, j, k)], nid[(2, j, k)]) for k in range(dims[2] + 1) for j in range(dims[1] + 1)]
        pairs, plane = _symmetrise(rng, pts, cand, sp[0], fr, o, size, sym)
    cells = []
    for k in range(dims[2]):
        for j in range(dims[1]):
            for i in range(dims[0]):
                cells.append([nid[(i + c[0], j + c[1], k + c[2])] for c in hexconv.CORNER])
    return [_l(p) for p in pts], cells, pairs, plane


def quad_lattice(rng, dims, size, jitter, frame, origin, sym=None):
    sp = [size * rng.uniform(0.75, 1.35) for _ in range(2)]
    fr, o = geom.arr(frame), geom.arr(origin)
    if sym == "zero":
        o = -(sp[0] * fr[0] + rng.uniform(0, 2) * size * fr[1])
    nid, local = {}, []
    for j in range(dims[1] + 1):
        for i in range(dims[0] + 1):
            nid[(i, j)] = len(local)
            local.append([(i + rng.uniform(-jitter, jitter)) * sp[0], (j + rng.uniform(-jitter, jitter)) * sp[1], 0.0])
    pts = [o + p[0] * fr[0] + p[1] * fr[1] for p in local]
    pairs, plane = [], None
    if sym:
        cand = [(nid[(0, j)], nid[(2, j)]) for j in range(dims[1] + 1)]
        pairs, plane = _symmetrise(rng, pts, cand, sp[0], fr, o, size, sym)
        if sym == "zero":
            plane["origin"] = [0.0, 0.0, 0.0]
    cells = []
    for j in range(dims[1]):
        for i in range(dims[0]):
            cells.append([nid[(i, j)], nid[(i + 1, j)], nid[(i + 1, j + 1)], nid[(i, j + 1)]])
    return [_l(p) for p in pts], cells, pairs, plane


def quad_boundary(cells):
    """vertices of a quad map that lie on an edge used by exactly one quad (textbook definition of the boundary)"""
    uses = {}
    for c in cells:
        for k in range(4):
            e = frozenset((c[k], c[(k + 1) % 4]))
            uses[e] = uses.get(e, 0) + 1
    out = set()
    for e, n in uses.items():
        if n == 1:
            out.update(e)
    return out


def quad_normal(points, cells):
    c = cells[0]
    p = geom.arr(points)
    return geom.unit(np.cross(p[c[1]] - p[c[0]], p[c[3]] - p[c[0]]))


def quad_ogrid(rng, size, jitter, frame, origin):
    """unstructured: a core quad surrounded by four quads (3-valent nodes on the core)"""
    fr, o = geom.arr(frame), geom.arr(origin)
    local = []
    for r in (0.5, 1.5):
        for c in ((-1, -1), (1, -1), (1, 1), (-1, 1)):
            local.append([size * (r * c[0] + rng.uniform(-jitter, jitter)), size * (r * c[1] + rng.uniform(-jitter, jitter))])
    pts = [o + p[0] * fr[0] + p[1] * fr[1] for p in local]
    cells = [[0, 1, 2, 3], [4, 5, 1, 0], [5, 6, 2, 1], [6, 7, 3, 2], [7, 4, 0, 3]]
    return [_l(p) for p in pts], cells


def quad_lshape(rng, size, jitter, frame, origin):
    """an L: the 4x4 raster without its upper right 2x2 quarter (one re-entrant corner on the boundary)"""
    pts, cells, _, _ = quad_lattice(rng, (4, 4), size, jitter, frame, origin)
    keep = [c for k, c in enumerate(cells) if not (k % 4 >= 2 and k // 4 >= 2)]
    used = sorted({n for c in keep for n in c})
    ren = {n: i for i, n in enumerate(used)}
    return [pts[n] for n in used], [[ren[n] for n in c] for c in keep]


def quad_fan(rng, size, jitter, frame, origin):
    """unstructured: a 5-valent interior node surrounded by five quads"""
    fr, o = geom.arr(frame), geom.arr(origin)
    local = [[rng.uniform(-jitter, jitter) * size, rng.uniform(-jitter, jitter) * size]]
    for k in range(10):
        ang = 2 * math.pi * k / 10 + rng.uniform(-jitter, jitter) * 0.4
        r = size * (1.0 if k % 2 == 0 else 1.35) * (1 + rng.uniform(-jitter, jitter))
        local.append([r * math.cos(ang), r * math.sin(ang)])
    pts = [o + p[0] * fr[0] + p[1] * fr[1] for p in local]
    cells = [[0, 1 + 2 * k, 2 + 2 * k, 1 + (2 * k + 2) % 10] for k in range(5)]
    return [_l(p) for p in pts], cells


# ================================================================================================
# clamps / links through a given vertex position
# ================================================================================================
def rand_dir(rng, inplane):
    """random unit direction; for sketches inside the sketch plane (inplane = (e1, e2))"""
    if inplane is None:
        return geom.rand_unit(rng)
    a = rng.uniform(0, 2 * math.pi)
    return math.cos(a) * geom.arr(inplane[0]) + math.sin(a) * geom.arr(inplane[1])


def frame_with(rng, e1, e3=None):
    """right-handed orthonormal frame whose first row is e1 (and third row e3 when given, e3 _|_ e1)"""
    e1 = geom.unit(e1)
    if e3 is None:
        while True:
            w = geom.rand_unit(rng)
            c = np.cross(e1, w)
            if np.linalg.norm(c) > 0.3:
                break
        e3 = geom.unit(c)
    else:
        e3 = geom.unit(e3)
    e2 = np.cross(e3, e1)
    return np.array([e1, e2, e3])


def make_clamp(rng, ctype, v, p, size, inplane, normal):
    """clamp specification of the given type whose manifold passes through p (strictly inside its bounds,
    except for the documented 'vertex is the first point of the line' use of LineClamp)"""
    p = geom.arr(p)
    spec = {"v": v, "type": ctype}
    if ctype == "free":
        return spec
    if ctype in ("line", "line-bounds"):
        d = rand_dir(rng, inplane)
        a = 0.0 if (ctype == "line" and rng.random() < 0.2) else rng.uniform(0.1, 0.7) * size
        b = rng.uniform(0.15, 0.7) * size
        spec["p1"], spec["p2"] = _l(p - a * d), _l(p + b * d)
        if ctype == "line-bounds":
            spec["bounds"] = [a - rng.uniform(0.05, 0.5) * size, a + rng.uniform(0.05, 0.5) * size]
        return spec
    if ctype == "curve-line":
        d = rand_dir(rng, inplane) * rng.uniform(0.3, 2.5) * size
        tp = rng.uniform(-0.5, 1.5)
        spec["p1"], spec["p2"] = _l(p - tp * d), _l(p + (1 - tp) * d)
        spec["bounds"] = [tp - rng.uniform(0.05, 0.6), tp + rng.uniform(0.05, 0.6)]
        return spec
    if ctype in ("curve-circle", "radial", "radial-bounds"):
        n = geom.unit(normal) if normal is not None else geom.rand_unit(rng)
        r = rng.uniform(0.5, 3.0) * size
        while True:
            w = rand_dir(rng, inplane)
            w = w - np.dot(w, n) * n
            if np.linalg.norm(w) > 0.3:
                break
        foot = p + r * geom.unit(w)  # the point of the axis closest to p
        nn = n * rng.choice([1.0, -1.0, 3.0, 0.25])
        if ctype == "curve-circle":
            tp = rng.uniform(0.3, 2.5)
            origin = foot + rng.uniform(-1, 1) * size * n
            spec["origin"], spec["normal"] = _l(origin), _l(nn)
            spec["rim"] = _l(geom.rotate(p, nn, -tp, origin))
            spec["bounds"] = [tp - rng.uniform(0.05, 0.4) * size / r, tp + rng.uniform(0.05, 0.4) * size / r]
            return spec
        spec["center"], spec["normal"], spec["p0"] = _l(foot + rng.uniform(-1, 1) * size * n), _l(nn), _l(p)
        if ctype == "radial-bounds":
            spec["bounds"] = [-rng.uniform(0.05, 0.4) * size, rng.uniform(0.05, 0.4) * size]
        return spec
    if ctype in ("curve-linear", "curve-spline"):
        d = rand_dir(rng, inplane)
        if inplane is None:
            e = geom.unit(np.cross(d, geom.rand_unit(rng) + 0.01))
        else:
            e = geom.unit(np.cross(geom.arr(normal), d))
        npts = rng.randint(4, 8)
        s = sorted(rng.uniform(-0.7, 0.7) * size for _ in range(npts))
        for i in range(1, npts):  # keep the defining points apart
            if s[i] - s[i - 1] < 0.08 * size:
                s[i] = s[i - 1] + 0.08 * size
        curv = rng.uniform(-0.6, 0.6) / size
        q = [si * d + curv * si * si * e for si in s]
        j = rng.randint(1, npts - 2)
        if ctype == "curve-linear" and rng.random() < 0.7:
            fr_ = rng.uniform(0.15, 0.85)
            anchor = q[j] + fr_ * (q[j + 1] - q[j])  # inside a segment
        else:
            anchor = q[j]  # a defining point: every interpolation passes through it
        spec["points"] = [_l(p + qi - anchor) for qi in q]
        return spec
    if ctype == "curve-analytic":
        d = rand_dir(rng, inplane)
        fr = frame_with(rng, d, None if inplane is None else normal)
        if inplane is not None:
            spec["b"] = 0.0
        else:
            spec["b"] = rng.uniform(-0.4, 0.4) / size**2
        spec["a"] = rng.uniform(-0.6, 0.6) / size
        tp = rng.uniform(-0.6, 0.6) * size
        spec["frame"] = [_l(r) for r in fr]
        spec["origin"] = [0.0, 0.0, 0.0]
        spec["origin"] = _l(p - analytic_curve(spec, tp))
        spec["bounds"] = [tp - rng.uniform(0.05, 0.5) * size, tp + rng.uniform(0.05, 0.5) * size]
        return spec
    if ctype == "plane":
        n = geom.unit(normal) if normal is not None else geom.rand_unit(rng)
        fr = frame_with(rng, n)
        spec["point"] = _l(p + rng.uniform(-2, 2) * size * fr[1] + rng.uniform(-2, 2) * size * fr[2])
        spec["normal"] = _l(n * rng.choice([1.0, -1.0, 4.0, 0.2]))
        return spec
    if ctype in ("surface", "surface-bounds"):
        n = geom.unit(normal) if normal is not None else geom.rand_unit(rng)
        fr3 = frame_with(rng, n)  # rows: n, a, b
        fr = np.array([fr3[1], fr3[2], fr3[0]])
        flat = normal is not None
        spec["coef"] = [0.0, 0.0, 0.0] if flat else [rng.uniform(-0.3, 0.3) / size for _ in range(3)]
        up, vp = rng.uniform(-0.5, 0.5) * size, rng.uniform(-0.5, 0.5) * size
        spec["frame"] = [_l(r) for r in fr]
        spec["origin"] = [0.0, 0.0, 0.0]
        spec["origin"] = _l(p - surface_point(spec, up, vp))
        spec["initial"] = [up + rng.uniform(-0.1, 0.1) * size, vp + rng.uniform(-0.1, 0.1) * size] if rng.random() < 0.6 else None
        if ctype == "surface-bounds":
            spec["bounds"] = [[up - rng.uniform(0.05, 0.5) * size, up + rng.uniform(0.05, 0.5) * size],
                              [vp - rng.uniform(0.05, 0.5) * size, vp + rng.uniform(0.05, 0.5) * size]]
            if spec["initial"] is not None:  # an initial guess has to be feasible
                spec["initial"] = [min(max(spec["initial"][k], spec["bounds"][k][0]), spec["bounds"][k][1]) for k in range(2)]
        return spec
    raise AssertionError(ctype)


def gen(rng, force=None):
    """one random case. force: optional dict {kind, ctypes: [...], ltype, method, failpoint: bool} for the fixed,
    coverage-guaranteeing cases."""
    force = force or {}
    kind = force.get("kind") or rng.choices(["mesh", "sketch"], [0.6, 0.4])[0]
    size = force.get("size") or rng.choice([1.0, 1.0, 1.0, 0.1, 10.0, 1e-4])  # 1e-4: a 0.1 mm model built in metres
    jitter = rng.choice([0.05, 0.12, 0.12, 0.2])
    general = rng.random() < 0.75
    frame = geom.orthonormal_frame(rng) if general else np.eye(3)
    origin = [rng.uniform(-3, 3) * size for _ in range(3)] if general else [0.0, 0.0, 0.0]
    want_sym = force.get("ltype") == "symmetry" or ("ltype" not in force and rng.random() < 0.2)
    sym = (force.get("sym") or rng.choice(["zero", "general"])) if want_sym else None
    pairs, plane = [], None
    if kind == "mesh":
        dims = rng.choice([(2, 2, 1), (2, 2, 1), (2, 2, 2), (2, 1, 1), (2, 1, 2)])
        pts, cells, pairs, plane = hex_lattice(rng, dims, size, jitter, frame, origin, sym)
        topo = "x".join(map(str, dims)) + ("s" + sym[0] if sym else "")
        if rng.random() < 0.5:  # blocks numbered in any of the 24 right-handed ways
            cells = [hexconv.renumber(c, hexconv.ROTATIONS[rng.randrange(24)]) for c in cells]
            topo += "r"
        inplane, normal = None, None
    else:
        shape = rng.choice(["3x3", "2x2", "2x3", "ogrid", "fan", "lshape"]) if not want_sym else rng.choice(["2x2", "2x3"])
        shape = force.get("shape") or shape
        if shape in ("ogrid", "fan", "lshape"):
            pts, cells = {"ogrid": quad_ogrid, "fan": quad_fan, "lshape": quad_lshape}[shape](rng, size, min(jitter, 0.15), frame, origin)
            topo = shape
        else:
            dims = tuple(int(c) for c in shape.split("x"))
            pts, cells, pairs, plane = quad_lattice(rng, dims, size, jitter, frame, origin, sym)
            topo = shape + ("s" + sym[0] if sym else "")
        inplane, normal = (_l(frame[0]), _l(frame[1])), _l(frame[2])
    nv = len(pts)
    # sketches: SketchOptimizer.auto_optimize() clamps every interior point to the sketch plane itself; manual clamps
    # then belong on boundary points only (documented use) and no links are mixed in
    auto = kind == "sketch" and not want_sym and force.get("auto", "ltype" not in force and rng.random() < 0.3)
    allowed = set(range(nv)) if not auto else quad_boundary(cells)
    # ---- links first (they constrain which vertices may carry which clamp) --------------------------------
    ltypes = []
    if "ltype" in force:
        ltypes = [force["ltype"]] if force["ltype"] else []
    elif auto:
        ltypes = []
    elif want_sym:
        ltypes = ["symmetry"] + ([rng.choice(LINK_TYPES)] if rng.random() < 0.3 else [])
    elif rng.random() < 0.45:
        ltypes = [rng.choice(LINK_TYPES[:2]) for _ in range(rng.choice([1, 1, 2]))]
    ctypes_forced = list(force.get("ctypes") or [])
    nclamps = len(ctypes_forced) or rng.choice([1, 2, 2, 3, 3, 4, 5])
    used, clamps, links = set(), [], []
    for lt in ltypes:
        free = [i for i in range(nv) if i not in used]
        if len(free) < 2:
            break
        if lt == "symmetry":
            cand = [(a, b) for a, b in pairs if a not in used and b not in used]
            if not cand:
                continue
            a, b = rng.choice(cand)
            if rng.random() < 0.5:
                a, b = b, a
            ct = ctypes_forced.pop(0) if ctypes_forced else rng.choice(sketch_types(kind))
            clamps.append(make_clamp(rng, ct, a, pts[a], size, inplane, normal))
            links.append({"type": "symmetry", "leader": a, "follower": b, "normal": plane["normal"], "origin": plane["origin"]})
            used.update((a, b))
        elif lt == "translation":
            a, b = rng.sample(free, 2)
            ct = ctypes_forced.pop(0) if ctypes_forced else rng.choice(sketch_types(kind))
            clamps.append(make_clamp(rng, ct, a, pts[a], size, inplane, normal))
            links.append({"type": "translation", "leader": a, "follower": b})
            used.update((a, b))
            if rng.random() < 0.4:  # a second follower of the same leader
                free = [i for i in range(nv) if i not in used]
                if free:
                    c = rng.choice(free)
                    links.append({"type": "translation", "leader": a, "follower": c})
                    used.add(c)
        else:  # rotation: documented for a leader that moves on a circle about the link's axis
            a, b = rng.sample(free, 2)
            ct = rng.choice(["radial", "radial-bounds", "curve-circle"])
            if ctypes_forced and ctypes_forced[0] in ("radial", "radial-bounds", "curve-circle"):
                ct = ctypes_forced.pop(0)
            cl = make_clamp(rng, ct, a, pts[a], size, inplane, normal)
            clamps.append(cl)
            c0 = geom.arr(cl["origin"] if ct == "curve-circle" else cl["center"])
            n = geom.arr(cl["normal"])
            links.append({"type": "rotation", "leader": a, "follower": b,
                          "axis": _l(n * rng.choice([1.0, 1.0, -1.0, 0.5])), "origin": _l(c0 + rng.uniform(-1, 1) * n)})
            used.update((a, b))
            if rng.random() < 0.3:  # a second follower of the same leader
                free = [i for i in range(nv) if i not in used]
                if free:
                    c = rng.choice(free)
                    links.append(dict(links[-1], follower=c))
                    used.add(c)
    # ---- an inert link (leader without a clamp): the follower must not move at all --------------------------
    if not force and not auto and rng.random() < 0.08:
        free = [i for i in range(nv) if i not in used]
        if len(free) >= 2:
            a, b = rng.sample(free, 2)
            links.append({"type": "translation", "leader": a, "follower": b, "inert": True})
            used.update((a, b))
    # ---- remaining clamps -----------------------------------------------------------------------------------
    if auto:
        nclamps = rng.choice([0, 1, 2])
    while len(clamps) < nclamps or ctypes_forced:
        free = [i for i in range(nv) if i not in used and i in allowed]
        if not free:
            break
        v = rng.choice(free)
        ct = ctypes_forced.pop(0) if ctypes_forced else rng.choice(sketch_types(kind))
        clamps.append(make_clamp(rng, ct, v, pts[v], size, inplane, normal))
        used.add(v)
    rng.shuffle(clamps)
    iterations = rng.choice([1, 2, 2, 3])
    if auto:  # cost: every interior point is a clamp step of ~200 quality evaluations
        iterations = 1 if len(set(range(nv)) - quad_boundary(cells)) > 2 else rng.choice([1, 2])
    # a second optimize() call on the already optimised grid: little is left to gain, so nearly every step ends in the
    # rollback branch and any worsening a step leaves behind shows in the sum
    calls = 1 if auto else force.get("calls", rng.choice([1, 1, 2]))
    if calls == 2:
        iterations = min(iterations, 2)
    case = {"kind": kind, "topo": topo, "size": size, "points": pts, "cells": cells, "clamps": clamps, "links": links,
            "method": force.get("method") or rng.choice(METHODS), "iterations": iterations,
            "tolerance": rng.choice([0.1, 1e-3, 1e-6]), "failpoint": None, "auto": bool(auto), "calls": calls,
            "report": rng.random() < 0.3,
            # links built from the live position arrays of the mesh vertices (as the library's own tests do)
            "link_args": force.get("link_args") or rng.choice(["copies", "vertex-arrays"]),
            # between two optimize() calls the mesh is back-ported (re-assembled: new Vertex objects)
            "between_calls": force.get("between_calls") or (rng.choice([None, "mesh.backport"]) if kind == "mesh" and calls == 2 else None)}
    fp = force.get("failpoint")
    if fp or (fp is None and rng.random() < 0.3):
        nsteps = len(clamps) + (len(set(range(nv)) - quad_boundary(cells)) if auto else 0)
        case["failpoint"] = {"step": rng.randrange(max(1, nsteps) * (1 if rng.random() < 0.6 else iterations)),
                             "eval": rng.choice([1, 1, 2, 3, 5, 9, 17, 40])}
    return case


def sketch_types(kind):
    return CLAMP_TYPES
