"""pytest plugin: run the repository's own tests with the harness' contracts switched on (raising).
   cd /repo && PYTHONPATH=/verif /venv/bin/python -m pytest -p vf.pytest_contracts -p no:cacheprovider -q
A contract that fires here is either too strict or a defect the tests do not assert (DESIGN 7.3)."""

import collections

from vf import contracts, core


class _Counter:
    def __init__(self):
        self.counters = collections.Counter()

    def count(self, name, n=1):
        self.counters[name] += n


_CTX = _Counter()


def pytest_configure(config):
    core.setup_paths()
    contracts.install(_CTX)
    contracts.install_vertexlist(_CTX)


def pytest_terminal_summary(terminalreporter):
    terminalreporter.write_line(f"contract evaluations: {dict(_CTX.counters)}")
