"""C16 helpers: reference curves (independent of classy_blocks), workload generators, hexahedron placement.

Nothing from classy_blocks.util is imported here. The reference of a curve is
  * line / circle / analytic : the textbook formula evaluated by this module,
  * linear-interpolated / discrete : the polyline through the defining points (exact segment projection),
  * spline-interpolated : the library's own point function, sampled densely (the property is about the mutual
    consistency of points, lengths and closest parameters of ONE curve; which spline it is, is not stated).
"""

import math

import numpy as np

from vf import geom, hexconv

POINT_KINDS = ("discrete", "linear", "spline")
EXACT_KINDS = ("discrete", "linear", "line")  # length is piecewise linear: judged to 1e-9
N_DENSE = 2001


# ---- analytic function families (explicit coefficients in the case) ---------------------------------
def fn_eval(fn, ts):
    """(N,3) points of the analytic family for parameters ts (vectorised)"""
    t = np.atleast_1d(np.asarray(ts, dtype=float))
    name = fn["name"]
    if name == "helix":
        loc = np.stack([fn["r"] * np.cos(fn["w"] * t), fn["r"] * np.sin(fn["w"] * t), fn["h"] * t], axis=1)
    elif name == "poly":
        loc = np.stack([fn["a"] * t, fn["b"] * t**2, fn["c"] * t**3], axis=1)
    elif name == "sine":
        loc = np.stack([fn["a"] * t, fn["b"] * np.sin(fn["w"] * t), fn["c"] * (1 - np.cos(0.5 * fn["w"] * t))], axis=1)
    else:
        raise KeyError(name)
    return np.asarray(fn["origin"], dtype=float) + loc @ np.asarray(fn["frame"], dtype=float)


def fn_callable(fn):
    """the user function handed to AnalyticCurve: one parameter -> one point"""
    return lambda t: fn_eval(fn, [float(t)])[0]


# ---- polyline utilities -------------------------------------------------------------------------------
def polyline_project(pts, cum, p, lo=None, hi=None):
    """exact projection of p on the polyline (restricted to arc coordinates [lo, hi] when given):
    (arc coordinate, distance)"""
    a, b = pts[:-1], pts[1:]
    ab = b - a
    den = np.sum(ab * ab, axis=1)
    den = np.where(den == 0, 1.0, den)
    u = np.clip(np.sum((p - a) * ab, axis=1) / den, 0.0, 1.0)
    if lo is not None:
        seg = cum[1:] - cum[:-1]
        safe = np.where(seg == 0, 1.0, seg)
        u = np.clip(u, np.clip((lo - cum[:-1]) / safe, 0.0, 1.0), np.clip((hi - cum[:-1]) / safe, 0.0, 1.0))
        # segments entirely outside [lo, hi] collapse onto their end nearest to the range: still a point of the range
    proj = a + ab * u[:, None]
    d = np.linalg.norm(proj - p, axis=1)
    if lo is not None:
        s_all = cum[:-1] + u * (cum[1:] - cum[:-1])
        d = np.where((s_all < lo - 1e-12 * (1 + abs(lo))) | (s_all > hi + 1e-12 * (1 + abs(hi))), np.inf, d)
    k = int(np.argmin(d))
    return float(cum[k] + u[k] * (cum[k + 1] - cum[k])), float(d[k])


def chord_params(pts, equalize):
    """documented parametrisation of the interpolated curves: normalised cumulative chord length, or uniform"""
    n = len(pts)
    if not equalize:
        return np.linspace(0.0, 1.0, n)
    seg = np.linalg.norm(pts[1:] - pts[:-1], axis=1)
    cum = np.concatenate(([0.0], np.cumsum(seg)))
    return cum / cum[-1]


# ---- the reference ------------------------------------------------------------------------------------
class Ref:
    """reference model of one curve spec; `lib` (the real curve) is only used for kind == 'spline'"""

    def __init__(self, spec, lib=None):
        self.spec = spec
        self.kind = kind = spec["kind"]
        self.lib = lib
        if kind in POINT_KINDS:
            self.pts = np.array(spec["points"], dtype=float)
            self.seg = np.linalg.norm(self.pts[1:] - self.pts[:-1], axis=1)
            self.cum = np.concatenate(([0.0], np.cumsum(self.seg)))
        if kind == "discrete":
            self.lo, self.hi = 0, len(self.pts) - 1
        elif kind in ("linear", "spline"):
            self.lo, self.hi = 0.0, 1.0
            self.knots = chord_params(self.pts, spec["equalize"])
        elif kind == "line":
            self.p1, self.p2 = np.array(spec["p1"], dtype=float), np.array(spec["p2"], dtype=float)
            self.lo, self.hi = spec["bounds"] if spec.get("bounds") else (0.0, 1.0)
        elif kind == "circle":
            self.o = np.array(spec["origin"], dtype=float)
            self.rim = np.array(spec["rim"], dtype=float)
            self.n = geom.unit(spec["normal"])
            self.lo, self.hi = spec["bounds"] if spec.get("bounds") else (0.0, 2 * math.pi)
            # the given origin is a point of the axis; the circle's centre is the foot of the rim point on the axis
            d = self.rim - self.o
            self.o = self.o + float(np.dot(d, self.n)) * self.n
            self.radius = float(np.linalg.norm(self.rim - self.o))
            self.e1 = (self.rim - self.o) / self.radius
            self.e2 = np.cross(self.n, self.e1)
        elif kind == "analytic":
            self.lo, self.hi = spec["bounds"]
        else:
            raise KeyError(kind)
        self.ts = np.linspace(self.lo, self.hi, N_DENSE) if kind != "discrete" else np.arange(len(self.pts))
        self.dense = self.P(self.ts)
        ext = self.dense.max(axis=0) - self.dense.min(axis=0)
        self.size = float(np.linalg.norm(ext))
        self.L = self.length(self.lo, self.hi)
        ends = float(np.linalg.norm(self.dense[0] - self.dense[-1]))
        self.closed = ends < 1e-3 * self.size

    # -- points ---------------------------------------------------------------------------------
    def P(self, ts):
        t = np.atleast_1d(np.asarray(ts, dtype=float))
        k = self.kind
        if k == "discrete":
            return self.pts[np.asarray(ts, dtype=int)]
        if k == "linear":
            return np.stack([np.interp(t, self.knots, self.pts[:, c]) for c in range(3)], axis=1)
        if k == "spline":
            return np.asarray(self.lib.function(t), dtype=float)
        if k == "line":
            return self.p1 + np.outer(t, self.p2 - self.p1)
        if k == "circle":
            # Rodrigues about the unit normal through the origin (rim - o is perpendicular to n)
            return self.o + self.radius * (np.outer(np.cos(t), self.e1) + np.outer(np.sin(t), self.e2))
        return fn_eval(self.spec["fn"], t)

    def point(self, t):
        return self.P([t])[0]

    # -- lengths --------------------------------------------------------------------------------
    def length(self, a, b):
        """reference length of the curve between parameters a and b (either order)"""
        k = self.kind
        lo, hi = min(a, b), max(a, b)
        if k == "discrete":
            return float(self.cum[int(hi)] - self.cum[int(lo)])
        if k == "linear":
            inner = [t for t in self.knots if lo < t < hi]
            return geom.polyline_length(self.P([lo, *inner, hi]))
        if k == "line":
            return float(np.linalg.norm(self.p2 - self.p1)) * (hi - lo)
        if k == "circle":
            return self.radius * (hi - lo)
        ts = np.linspace(lo, hi, 4001)
        if k == "spline":  # the knots are included so that the dense chord sum is never shorter than the knot polygon
            ts = np.unique(np.concatenate((ts, [t for t in self.knots if lo < t < hi])))
        return geom.polyline_length(self.P(ts))

    # -- projection of a point on the reference ---------------------------------------------------
    def project(self, p, lo=None, hi=None):
        """-> (monotone coordinate along the curve, distance), optionally restricted to coordinates [lo, hi].
        The coordinate is the arc length for polylines and the parameter otherwise."""
        p = np.asarray(p, dtype=float)
        k = self.kind
        if k in ("discrete", "linear"):
            return polyline_project(self.pts, self.cum, p, lo, hi)
        if lo is None:
            lo, hi = self.lo, self.hi
        lo, hi = max(lo, self.lo), min(hi, self.hi)
        if k == "line":
            v = self.p2 - self.p1
            t = float(np.dot(p - self.p1, v) / np.dot(v, v))
            t = min(max(t, lo), hi)
            return t, float(np.linalg.norm(self.p1 + v * t - p))
        sel = np.nonzero((self.ts >= lo) & (self.ts <= hi))[0]
        fun = lambda t: float(np.linalg.norm(self.point(t) - p))  # noqa: E731
        best_t, best_d = lo, fun(lo)
        dh = fun(hi)
        if dh < best_d:
            best_t, best_d = hi, dh
        brackets = []
        if len(sel):
            d = np.linalg.norm(self.dense[sel] - p, axis=1)
            # every sampled local minimum that could hide the true one (a curve that passes close to itself has several)
            gap = float(np.max(np.linalg.norm(self.dense[1:] - self.dense[:-1], axis=1)))
            for j in np.nonzero(d <= d.min() + 2 * gap)[0]:
                if (j == 0 or d[j - 1] >= d[j]) and (j == len(d) - 1 or d[j + 1] >= d[j]):
                    i = int(sel[j])
                    brackets.append((max(self.ts[max(i - 1, 0)], lo), min(self.ts[min(i + 1, len(self.ts) - 1)], hi), float(self.ts[i]), float(d[j])))
        else:
            brackets.append((lo, hi, lo, best_d))
        for a, b, tc, dc in brackets[:6]:
            if dc < best_d:
                best_t, best_d = tc, dc
            if b > a:
                t, dist = _golden(fun, a, b)
                if dist < best_d:
                    best_t, best_d = t, dist
        return float(best_t), float(best_d)

    def coord(self, t, p=None):
        """the monotone coordinate used by project() of the curve point with parameter t. For the linear-interpolated
        curve this is the arc coordinate of the point p (the REAL curve's point for t) on the polyline, looked for
        near the documented position so that the two ends of a closed loop are told apart."""
        if self.kind == "discrete":
            return float(self.cum[int(t)])
        if self.kind == "linear":
            doc = float(np.interp(t, self.knots, self.cum))
            if p is None:
                return doc
            p = np.asarray(p, dtype=float)
            s, d = polyline_project(self.pts, self.cum, p, max(0.0, doc - 0.02 * self.L), min(self.L, doc + 0.02 * self.L))
            if d <= 1e-9 * (self.size + float(np.abs(self.pts).max())):
                return s
            return polyline_project(self.pts, self.cum, p)[0]
        return float(t)

    # -- the distance profile of a query --------------------------------------------------------
    def profile(self, q):
        """distance profile of a query: (d*, resolvable width, parameter of the dense arg-min).
        d* is the smallest distance of the N_DENSE samples. m is the value of the second-best local minimum of the
        distance along the curve: found on the samples for smooth curves (walk from the arg-min while the distance
        keeps growing: everything beyond belongs to other basins), enumerated exactly for polylines (one foot of a
        perpendicular per segment, convex vertices: a polyline seen from its concave side has two minima next to
        each vertex that no sampling resolves). The width is the fraction of the parameter range covered by the
        run of samples around the arg-min that are closer than m. A coarse search with a finer parameter spacing
        than the width followed by a descent that never accepts a worse point must end at the global minimum."""
        q = np.asarray(q, dtype=float)
        d = np.linalg.norm(self.dense - q, axis=1)
        n = len(d)
        i = int(np.argmin(d))
        if self.kind == "linear":
            vals = sorted(self._polyline_minima(q))
            m = vals[1] if len(vals) > 1 else math.inf
        else:
            il = i
            while il > 0 and d[il - 1] >= d[il]:
                il -= 1
            ir = i
            while ir < n - 1 and d[ir + 1] >= d[ir]:
                ir += 1
            outside = np.concatenate((d[:il], d[ir + 1:]))
            m = float(outside.min()) if len(outside) else math.inf
        if not d[i] < m:
            return float(d[i]), 0.0, float(self.ts[i])
        lo = i
        while lo > 0 and d[lo - 1] < m:
            lo -= 1
        hi = i
        while hi < n - 1 and d[hi + 1] < m:
            hi += 1
        return float(d[i]), float(hi - lo + 1) / n, float(self.ts[i])

    def _polyline_minima(self, q):
        """values of all local minima of the distance from q along the polyline (exact)"""
        a, b = self.pts[:-1], self.pts[1:]
        ab = b - a
        den = np.sum(ab * ab, axis=1)
        den = np.where(den == 0, 1.0, den)
        raw = np.sum((q - a) * ab, axis=1) / den
        u = np.clip(raw, 0.0, 1.0)
        dist = np.linalg.norm(a + ab * u[:, None] - q, axis=1)
        nseg = len(a)
        vals = [float(dist[k]) for k in range(nseg) if 0.0 < raw[k] < 1.0]
        for v in range(nseg + 1):  # vertices: a minimum when the distance grows along both adjacent segments
            left_ok = v == 0 or raw[v - 1] >= 1.0
            right_ok = v == nseg or raw[v] <= 0.0
            if left_ok and right_ok:
                vals.append(float(np.linalg.norm(self.pts[v] - q)))
        return vals


def _golden(fun, a, b, iters=70):
    """golden-section minimisation of a unimodal function on [a, b]"""
    g = (math.sqrt(5) - 1) / 2
    c, d = b - g * (b - a), a + g * (b - a)
    fc, fd = fun(c), fun(d)
    for _ in range(iters):
        if fc < fd:
            b, d, fd = d, c, fc
            c = b - g * (b - a)
            fc = fun(c)
        else:
            a, c, fc = c, d, fd
            d = a + g * (b - a)
            fd = fun(d)
    return (c, fc) if fc < fd else (d, fd)


# ---- workload: curve specs ----------------------------------------------------------------------------
def _placement(rng):
    scale = 10 ** rng.uniform(-1.0, 1.3)
    origin = [rng.uniform(-3, 3) * scale for _ in range(3)]
    frame = geom.orthonormal_frame(rng)
    return scale, origin, frame


def _uneven_params(rng, n):
    """n increasing values in [0,1] with a chosen max/min gap ratio"""
    cls = rng.choice(["even", "uneven", "very-uneven"])
    ratio = {"even": 1.0, "uneven": rng.uniform(2.0, 4.0), "very-uneven": rng.uniform(5.0, 10.0)}[cls]
    gaps = [math.exp(rng.uniform(0, math.log(ratio))) if ratio > 1 else 1.0 for _ in range(n - 1)]
    if ratio > 1 and n > 2:
        i, j = rng.sample(range(n - 1), 2)
        gaps[i], gaps[j] = 1.0, ratio
    cum = np.concatenate(([0.0], np.cumsum(gaps)))
    return [float(x) for x in cum / cum[-1]]


def gen_points(rng):
    """4..12 unevenly spaced points on a smooth space curve"""
    n = rng.randint(4, 12)
    s = np.array(_uneven_params(rng, n))
    family = rng.choice(["helix", "helix", "sine", "cubic", "loop"])
    if family == "helix":
        turns = rng.uniform(0.1, 1.4)
        h = rng.uniform(0.0, 2.5) if turns < 0.85 else rng.uniform(1.0, 3.0)
        ang = 2 * math.pi * turns * s
        loc = np.stack([np.cos(ang), np.sin(ang), h * s], axis=1)
    elif family == "sine":
        per = rng.uniform(0.3, 1.5)
        amp, amp2 = rng.uniform(0.2, 0.8), rng.uniform(0.0, 0.5)
        loc = np.stack([2.5 * s, amp * np.sin(2 * math.pi * per * s), amp2 * np.cos(math.pi * per * s)], axis=1)
    elif family == "cubic":
        a, b = rng.uniform(-1.5, 1.5), rng.uniform(-1.5, 1.5)
        loc = np.stack([2 * s, a * s**2, b * s**3], axis=1)
    else:  # closed loop (first point == last point): the seam is at the ends of the parameter range
        n = max(n, 7)
        s = np.array(_uneven_params(rng, n))
        ang = 2 * math.pi * s
        e = rng.uniform(0.6, 1.0)
        loc = np.stack([np.cos(ang), e * np.sin(ang), rng.uniform(0, 0.4) * np.sin(2 * ang)], axis=1)
        loc[-1] = loc[0]
    scale, origin, frame = _placement(rng)
    pts = np.asarray(origin) + scale * (loc @ frame)
    return [[float(x) for x in p] for p in pts], family


def gen_curve(rng, kind=None):
    if kind is None:
        kind = rng.choices(["discrete", "linear", "spline", "analytic", "line", "circle"], [0.16, 0.24, 0.28, 0.12, 0.08, 0.12])[0]
    if kind in POINT_KINDS:
        pts, family = gen_points(rng)
        spec = {"kind": kind, "points": pts, "family": family}
        if kind != "discrete":
            spec["equalize"] = rng.random() < 0.65
        return spec
    scale, origin, frame = _placement(rng)
    if kind == "line":
        p2 = [o + scale * rng.uniform(-2, 2) for o in origin]
        bounds = None if rng.random() < 0.5 else sorted([rng.uniform(-1.0, 0.4), rng.uniform(0.6, 2.5)])
        return {"kind": "line", "p1": origin, "p2": p2, "bounds": bounds}
    if kind == "circle":
        r = scale * rng.uniform(0.5, 2.0)
        normal = frame[2] * rng.choice([1.0, 1.0, 0.3, 7.0])  # not necessarily a unit vector
        phi = rng.uniform(0, 2 * math.pi)
        rim = np.asarray(origin) + r * (math.cos(phi) * frame[0] + math.sin(phi) * frame[1])
        if rng.random() < 0.3:
            # "lifted": the origin is another point of the axis, not the foot of the rim point
            origin = [float(x) for x in np.asarray(origin) + scale * rng.uniform(-1.5, 1.5) * frame[2]]
        u = rng.random()
        if u < 0.45:
            bounds = None  # the full (closed) circle
        else:
            lo = rng.uniform(-math.pi, math.pi)
            bounds = [lo, lo + rng.uniform(0.3, 1.9 * math.pi)]
        return {"kind": "circle", "origin": origin, "rim": [float(x) for x in rim], "normal": [float(x) for x in normal],
                "bounds": bounds}
    name = rng.choice(["helix", "poly", "sine"])
    fn = {"name": name, "origin": origin, "frame": [[float(x) for x in row] for row in frame]}
    lo = rng.uniform(-1.0, 0.5)
    hi = lo + rng.uniform(0.8, 3.0)
    if name == "helix":
        turns = rng.uniform(0.15, 1.3)
        fn.update(r=scale * rng.uniform(0.5, 1.5), w=2 * math.pi * turns / (hi - lo),
                  h=scale * (rng.uniform(0.0, 1.0) if turns < 0.85 else rng.uniform(0.6, 1.5)))
    elif name == "poly":
        fn.update(a=scale * rng.uniform(0.8, 1.5), b=scale * rng.uniform(-0.6, 0.6), c=scale * rng.uniform(-0.2, 0.2))
    else:
        fn.update(a=scale * rng.uniform(0.8, 1.5), b=scale * rng.uniform(0.2, 0.8), c=scale * rng.uniform(0.0, 0.6),
                  w=2 * math.pi * rng.uniform(0.3, 1.4) / (hi - lo))
    return {"kind": "analytic", "fn": fn, "bounds": [lo, hi]}


def build_curve(spec, cb):
    """the REAL curve object for a spec"""
    k = spec["kind"]
    if k == "discrete":
        return cb.DiscreteCurve(spec["points"])
    if k == "linear":
        return cb.LinearInterpolatedCurve(spec["points"], equalize=spec["equalize"])
    if k == "spline":
        return cb.SplineInterpolatedCurve(spec["points"], equalize=spec["equalize"])
    if k == "line":
        if spec.get("bounds"):
            return cb.LineCurve(spec["p1"], spec["p2"], tuple(spec["bounds"]))
        return cb.LineCurve(spec["p1"], spec["p2"])
    if k == "circle":
        if spec.get("bounds"):
            return cb.CircleCurve(spec["origin"], spec["rim"], spec["normal"], tuple(spec["bounds"]))
        return cb.CircleCurve(spec["origin"], spec["rim"], spec["normal"])
    return cb.AnalyticCurve(fn_callable(spec["fn"]), tuple(spec["bounds"]))


# ---- workload: a hexahedron with one prescribed edge ----------------------------------------------------
def place_hex(k, swap, pa, pb, seed_vec, w, h):
    """8 corner points (blockMesh numbering, right-handed) of a block whose edge hexconv.EDGES[k] runs from pa to pb
    (from pb to pa when swap)"""
    i, j = hexconv.EDGES[k]
    if swap:
        first, second = pb, pa
    else:
        first, second = pa, pb
    v = np.asarray(second, dtype=float) - np.asarray(first, dtype=float)  # pos[j] - pos[i], the +axis direction
    length = float(np.linalg.norm(v))
    vh = v / length
    s = np.asarray(seed_vec, dtype=float)
    e2 = s - np.dot(s, vh) * vh
    if np.linalg.norm(e2) < 1e-3:
        e2 = np.cross(vh, [1.0, 0.0, 0.0]) if abs(vh[0]) < 0.9 else np.cross(vh, [0.0, 1.0, 0.0])
    e2 = e2 / np.linalg.norm(e2)
    e3 = np.cross(vh, e2)
    axis = k // 4
    vecs = [None, None, None]
    vecs[axis] = v
    vecs[(axis + 1) % 3] = e2 * (w * length)
    vecs[(axis + 2) % 3] = e3 * (h * length)
    ci = hexconv.CORNER[i]
    origin = np.asarray(first, dtype=float) - sum(ci[a] * vecs[a] for a in range(3))
    return [origin + sum(hexconv.CORNER[c][a] * vecs[a] for a in range(3)) for c in range(8)]
