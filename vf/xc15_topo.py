"""C15 helpers: quad-map topologies (pure Python, nothing imported from classy_blocks) and the
independent topology oracle (boundary / neighbour sets from the cells alone).

A 2-D map is (uv, quads): uv = list of [u, v]; quads = list of 4 node ids, counter-clockwise.
"""

import math

import numpy as np

from vf import hexconv


# ------------------------------------------------------------------------------------------------
# oracle: boundary and neighbour sets from the cells alone
QUAD_EDGES = [(0, 1), (1, 2), (2, 3), (3, 0)]  # a quadrilateral's sides are its four edges
HEX_SIDES = [sorted(hexconv.SIDES[name]) for name in hexconv.SIDE_NAMES]  # corner sets from the OpenFOAM figure


def analyse(cells):
    """cells: lists of 4 (quad, cyclic order) or 8 (hex, blockMesh order) node ids.
    -> (nodes sorted, neighbours {node: sorted list}, boundary set)
    neighbours: the other end points of every cell edge at the node; boundary: every node of a side
    (quad: edge, hex: face) that belongs to exactly one cell."""
    nbrs, sides = {}, {}
    for cell in cells:
        if len(cell) == 4:
            edges = QUAD_EDGES
            csides = [(cell[a], cell[b]) for a, b in QUAD_EDGES]
        else:
            edges = hexconv.EDGES
            csides = [tuple(cell[c] for c in s) for s in HEX_SIDES]
        for a, b in edges:
            nbrs.setdefault(cell[a], set()).add(cell[b])
            nbrs.setdefault(cell[b], set()).add(cell[a])
        for s in csides:
            sides[frozenset(s)] = sides.get(frozenset(s), 0) + 1
    boundary = set()
    for s, n in sides.items():
        if n == 1:
            boundary |= set(s)
    nodes = sorted(nbrs)
    return nodes, {k: sorted(v) for k, v in nbrs.items()}, boundary


def harmonic(P0, nbrs, free):
    """exact fixed point of 'every free node = mean of its neighbours' with all other nodes held at P0,
    and the spectral radius of the Jacobi iteration matrix D^-1 A restricted to the free nodes."""
    free = sorted(free)
    n = len(free)
    if n == 0:
        return {}, 0.0
    pos = {k: i for i, k in enumerate(free)}
    A = np.zeros((n, n))
    rhs = np.zeros((n, 3))
    deg = np.zeros(n)
    for k in free:
        i = pos[k]
        deg[i] = len(nbrs[k])
        for j in nbrs[k]:
            if j in pos:
                A[i, pos[j]] += 1.0
            else:
                rhs[i] += P0[j]
    L = np.diag(deg) - A
    X = np.linalg.solve(L, rhs)
    S = A / np.sqrt(np.outer(deg, deg))
    rho = float(np.max(np.abs(np.linalg.eigvalsh(S)))) if n > 1 else 0.0
    return {k: X[pos[k]] for k in free}, rho


def iterations_needed(rho, n_free, dmax, dmin, err0_rel, target=1e-12):
    """smallest N with sqrt(n*dmax/dmin) * rho^N * err0_rel <= target (Jacobi bound in the D-weighted norm)"""
    if n_free == 0 or err0_rel <= 0:
        return 1
    c = math.sqrt(n_free * dmax / dmin) * err0_rel
    if c <= target:
        return 1
    if rho <= 0:
        return 1
    if rho >= 1:
        return 10**9
    return max(1, int(math.ceil(math.log(target / c) / math.log(rho))))


# ------------------------------------------------------------------------------------------------
# topologies
def structured(n, m):
    def nid(i, j):
        return j * (n + 1) + i

    uv = [[float(i), float(j)] for j in range(m + 1) for i in range(n + 1)]
    quads = [[nid(i, j), nid(i + 1, j), nid(i + 1, j + 1), nid(i, j + 1)] for j in range(m) for i in range(n)]
    return uv, quads


def annulus(nt, nr, r0=1.0, dr=0.6):
    """a closed ring of nt x nr quads (periodic in the first index): two boundary loops, 4-valent interior"""
    def nid(i, j):
        return j * nt + (i % nt)

    uv = []
    for j in range(nr + 1):
        for i in range(nt):
            a = 2 * math.pi * i / nt
            uv.append([(r0 + dr * j) * math.cos(a), (r0 + dr * j) * math.sin(a)])
    quads = [[nid(i, j), nid(i + 1, j), nid(i + 1, j + 1), nid(i, j + 1)] for j in range(nr) for i in range(nt)]
    return uv, quads


def compact(uv, quads):
    used = sorted({k for q in quads for k in q})
    new = {k: i for i, k in enumerate(used)}
    return [list(uv[k]) for k in used], [[new[k] for k in q] for q in quads]


def with_holes(rng, n, m):
    uv, quads = structured(n, m)
    k = rng.randint(1, max(1, (n * m) // 5))
    drop = set(rng.sample(range(len(quads)), k))
    keep = [q for i, q in enumerate(quads) if i not in drop]
    return compact(uv, keep)


def _merge(points, quads_pts, digits=9):
    ids, uv, quads = {}, [], []
    for qp in quads_pts:
        q = []
        for p in qp:
            key = (round(p[0], digits), round(p[1], digits))
            if key not in ids:
                ids[key] = len(uv)
                uv.append([float(p[0]), float(p[1])])
            q.append(ids[key])
        quads.append(q)
    return uv, quads


def star(k, s):
    """a k-gon split into k sectors around a k-valent centre node, each sector an s x s patch"""
    corners = [np.array([math.cos(2 * math.pi * i / k), math.sin(2 * math.pi * i / k)]) for i in range(k)]
    mids = [(corners[i - 1] + corners[i]) / 2 for i in range(k)]  # mids[i] lies before corner i
    centre = np.zeros(2)
    quads_pts = []
    for i in range(k):
        p0, p1, p2, p3 = centre, mids[i], corners[i], mids[(i + 1) % k]

        def bil(a, b, p0=p0, p1=p1, p2=p2, p3=p3):
            return (1 - a) * (1 - b) * p0 + a * (1 - b) * p1 + a * b * p2 + (1 - a) * b * p3

        for ia in range(s):
            for ib in range(s):
                quads_pts.append([bil(ia / s, ib / s), bil((ia + 1) / s, ib / s), bil((ia + 1) / s, (ib + 1) / s),
                                  bil(ia / s, (ib + 1) / s)])
    return _merge(None, quads_pts)


def boundary_loops(quads):
    """ordered boundary loops (consistently oriented quads): lists of node ids"""
    count = {}
    for q in quads:
        for a, b in QUAD_EDGES:
            count[frozenset((q[a], q[b]))] = count.get(frozenset((q[a], q[b])), 0) + 1
    nxt = {}
    for q in quads:
        for a, b in QUAD_EDGES:
            if count[frozenset((q[a], q[b]))] == 1:
                if q[a] in nxt:
                    return None  # pinched boundary: no simple loop
                nxt[q[a]] = q[b]
    loops, seen = [], set()
    for start in sorted(nxt):
        if start in seen:
            continue
        loop, k = [], start
        while k not in seen:
            seen.add(k)
            loop.append(k)
            if k not in nxt:
                return None
            k = nxt[k]
        if k != start:
            return None
        loops.append(loop)
    return loops


def add_ring(uv, quads, factor=1.5):
    """surround a single-loop patch with one ring of quads (every old boundary node becomes interior)"""
    loops = boundary_loops(quads)
    if not loops or len(loops) != 1:
        return None
    loop = loops[0]
    c = np.mean([uv[k] for k in loop], axis=0)
    uv = [list(p) for p in uv]
    quads = [list(q) for q in quads]
    outer = {}
    for k in loop:
        outer[k] = len(uv)
        p = c + (np.array(uv[k]) - c) * factor
        uv.append([float(p[0]), float(p[1])])
    for i, a in enumerate(loop):
        b = loop[(i + 1) % len(loop)]
        quads.append([b, a, outer[a], outer[b]])
    return uv, quads


def disk(n, rings):
    """an n x n core with `rings` rings of shell quads: the four core corners are 3-valent"""
    uv, quads = structured(n, n)
    uv = [[(p[0] - n / 2) / n, (p[1] - n / 2) / n] for p in uv]
    # the ring nodes of a square core are pushed onto circles (disk-like)
    for r in range(rings):
        first_new = len(uv)
        res = add_ring(uv, quads, 1.6)
        uv, quads = res
        rad = 0.9 * (1.6 ** (r + 1)) * 0.5
        for k in range(first_new, len(uv)):
            v = np.array(uv[k])
            nv = float(np.linalg.norm(v))
            if nv > 0:
                w = 0.7
                p = v * (1 - w) + v / nv * rad * w
                uv[k] = [float(p[0]), float(p[1])]
    return uv, quads


def refine(uv, quads):
    """split every quad into four (edge mid-points + cell centre)"""
    uv = [list(p) for p in uv]
    mid = {}

    def emid(a, b):
        key = frozenset((a, b))
        if key not in mid:
            mid[key] = len(uv)
            uv.append([(uv[a][0] + uv[b][0]) / 2, (uv[a][1] + uv[b][1]) / 2])
        return mid[key]

    out = []
    for q in quads:
        c = len(uv)
        uv.append([sum(uv[k][0] for k in q) / 4, sum(uv[k][1] for k in q) / 4])
        e = [emid(q[i], q[(i + 1) % 4]) for i in range(4)]
        out += [[q[0], e[0], c, e[3]], [e[0], q[1], e[1], c], [c, e[1], q[2], e[2]], [e[3], c, e[2], q[3]]]
    return uv, out


def relabel(rng, uv, quads, reverse=False):
    """random node numbering, random quad order, random start corner; optionally all quads clockwise"""
    n = len(uv)
    perm = list(range(n))
    rng.shuffle(perm)  # old -> new
    new_uv = [None] * n
    for old, new in enumerate(perm):
        new_uv[new] = list(uv[old])
    out = []
    for q in quads:
        q = [perm[k] for k in q]
        s = rng.randrange(4)
        q = q[s:] + q[:s]
        if reverse:
            q = [q[0], q[3], q[2], q[1]]
        out.append(q)
    rng.shuffle(out)
    return new_uv, out, perm


def min_edge_at(uv, nbrs):
    """shortest incident edge per node (2-D or 3-D coordinates)"""
    P = np.asarray(uv, dtype=float)
    return {k: min(float(np.linalg.norm(P[k] - P[j])) for j in ns) for k, ns in nbrs.items()}


def independent_set(rng, candidates, nbrs, max_size=None):
    """random maximal independent subset of `candidates` (no two joined by an edge)"""
    cand = list(candidates)
    rng.shuffle(cand)
    chosen, blocked = [], set()
    for k in cand:
        if k in blocked:
            continue
        chosen.append(k)
        blocked.add(k)
        blocked.update(nbrs[k])
        if max_size is not None and len(chosen) >= max_size:
            break
    return sorted(chosen)
