"""One shard of one check:  python -m vf.worker C07 quick <seed> <shard> <nshards> <outfile> <deadline_s>"""

import faulthandler
import importlib
import json
import sys
import time
import warnings

from vf import core


def main():
    pid, tier, seed, shard, nshards, out, soft = sys.argv[1:8]
    core.setup_paths()
    warnings.simplefilter("ignore")
    faulthandler.enable()
    mod = importlib.import_module(f"vf.props.{pid.lower()}")
    ctx = core.Ctx(pid, tier, int(seed), int(shard), int(nshards), deadline=time.time() + float(soft))
    t0 = time.time()
    status = "ok"
    try:
        core.run_shard(mod, ctx)
    except core.Budget as err:
        # a step budget that escaped run_case: the module did not turn it into a verdict
        ctx.harness_errors.append({"case": ctx.case, "traceback": f"Budget escaped: {err}"})
        ctx.count("harness_errors")
        status = "budget-escaped"
    res = ctx.result()
    res["status"] = status
    res["wall_s"] = time.time() - t0
    with open(out, "w") as fh:
        json.dump(res, fh, default=str)


if __name__ == "__main__":
    main()
