"""Independent oracles for C17 (clamp manifolds, closest points). Textbook formulae only; nothing imported
from classy_blocks. Every curve / surface family is described by explicit numbers (origin, orthonormal frame,
coefficients) so that a case is self-contained JSON; the same numbers build (a) the plain Python function handed
to the library as the *declaration* of the constraint and (b) the implicit / inverse description used to judge."""

import math

import numpy as np
import scipy.optimize

from vf import geom

arr = geom.arr


# ---- straight segment --------------------------------------------------------------------------------
def seg_closest(q, a, b):
    q, a, b = arr(q), arr(a), arr(b)
    ab = b - a
    den = float(np.dot(ab, ab))
    t = 0.0 if den == 0 else min(1.0, max(0.0, float(np.dot(q - a, ab)) / den))
    return a + t * ab


def seg_dist(q, a, b):
    return geom.dist(q, seg_closest(q, a, b))


# ---- circle / arc about an axis ----------------------------------------------------------------------
class Arc:
    """the circle swept by `ref` rotating about the line (center, axis); optional angular range [a, b] (radians,
    counted from ref, right-handed about axis)"""

    def __init__(self, center, axis, ref, rng=None):
        self.c = arr(center)
        self.k = geom.unit(axis)
        v = arr(ref) - self.c
        self.h0 = float(np.dot(v, self.k))
        self.r0 = v - self.h0 * self.k
        self.R = float(np.linalg.norm(self.r0))
        self.e1 = self.r0 / self.R
        self.e2 = np.cross(self.k, self.e1)
        self.rng = None if rng is None else (float(rng[0]), float(rng[1]))

    def coords(self, q):
        v = arr(q) - self.c
        h = float(np.dot(v, self.k))
        rv = v - h * self.k
        return float(np.linalg.norm(rv)), h, math.atan2(float(np.dot(rv, self.e2)), float(np.dot(rv, self.e1)))

    def point(self, phi):
        return self.c + self.h0 * self.k + self.R * (math.cos(phi) * self.e1 + math.sin(phi) * self.e2)

    def in_range(self, phi, eps=0.0):
        if self.rng is None or self.rng[1] - self.rng[0] >= 2 * math.pi:
            return True
        a, b = self.rng
        m = math.ceil((a - eps - phi) / (2 * math.pi))
        return phi + 2 * math.pi * m <= b + eps

    def closest(self, q):
        rho, _, phi = self.coords(q)
        if rho > 1e-12 * max(1.0, self.R) and self.in_range(phi):
            return self.point(phi)
        if self.rng is None:
            return self.point(0.0)
        pa, pb = self.point(self.rng[0]), self.point(self.rng[1])
        return pa if geom.dist(q, pa) <= geom.dist(q, pb) else pb

    def dist(self, q):
        return geom.dist(q, self.closest(q))


# ---- parametric curves -------------------------------------------------------------------------------
def curve_function(spec):
    """spec -> f(t) accepting a float or a 1-d array of parameters (returns (3,) or (n,3))"""
    fam = spec["family"]
    O = arr(spec["origin"])
    if fam == "line":
        p1, p2 = arr(spec["p1"]), arr(spec["p2"])

        def fun(t):
            t = np.asarray(t, dtype=float)
            return p1 + np.multiply.outer(t, p2 - p1)

        return fun
    if fam == "circle":
        arc = Arc(spec["origin"], spec["normal"], spec["rim"])

        def fun(t):
            t = np.asarray(t, dtype=float)
            return (arc.c + arc.h0 * arc.k + arc.R * (np.multiply.outer(np.cos(t), arc.e1)
                                                      + np.multiply.outer(np.sin(t), arc.e2)))

        return fun
    e1, e2, e3 = (arr(r) for r in spec["frame"])
    s = float(spec["s"])
    a, b = float(spec["a"]), float(spec["b"])
    if fam == "helix":
        def fun(t):
            t = np.asarray(t, dtype=float)
            return (O + s * (np.multiply.outer(np.cos(t), e1) + np.multiply.outer(np.sin(t), e2))
                    + s * a * np.multiply.outer(t, e3))
    elif fam == "parabola":
        def fun(t):
            t = np.asarray(t, dtype=float)
            return O + s * (np.multiply.outer(t, e1) + a * np.multiply.outer(t * t, e2) + b * np.multiply.outer(t, e3))
    elif fam == "cubic":
        def fun(t):
            t = np.asarray(t, dtype=float)
            return O + s * (np.multiply.outer(t, e1) + a * np.multiply.outer(t * t, e2)
                            + b * np.multiply.outer(t**3, e3))
    else:
        raise KeyError(fam)
    return fun


class SampledCurve:
    """closest-point oracle for a parametric curve given as a black-box point function on [lo, hi]:
    dense samples, then repeated 10-fold refinement of the bracket around the best sample (no assumption of
    smoothness at the minimum: the distance to a point ON the curve is V-shaped there)"""

    def __init__(self, fun, lo, hi, n=1201, samples=None, vectorised=True):
        self.fun, self.lo, self.hi, self.vec = fun, float(lo), float(hi), vectorised
        self.ts = np.linspace(self.lo, self.hi, n)
        self.pts = self._eval(self.ts) if samples is None else arr(samples)

    def _eval(self, ts):
        if self.vec:
            return arr(self.fun(ts))
        return np.array([arr(self.fun(float(t))) for t in ts])

    def closest(self, q):
        q = arr(q)
        ts, pts = self.ts, self.pts
        best_t, best_d = None, math.inf
        for _ in range(16):
            d = np.linalg.norm(pts - q, axis=1)
            i = int(np.argmin(d))
            if d[i] < best_d:
                best_t, best_d = float(ts[i]), float(d[i])
            ta, tb = float(ts[max(i - 1, 0)]), float(ts[min(i + 1, len(ts) - 1)])
            if tb - ta <= 4e-16 * max(1.0, abs(ta), abs(tb)):
                break
            ts = np.linspace(ta, tb, 21)
            pts = self._eval(ts)
        return best_d, best_t

    def dist(self, q):
        return self.closest(q)[0]

    def ambiguous(self, q, factor=1.5):
        """True when the distance from q has a second local minimum (over the dense samples) that is less than
        `factor` times the global one: 'the closest point' is then ill-conditioned and a local optimiser may
        legitimately end in either basin"""
        d = np.linalg.norm(self.pts - arr(q), axis=1)
        i0 = int(np.argmin(d))
        left = np.concatenate(([np.inf], d[:-1]))
        right = np.concatenate((d[1:], [np.inf]))
        for j in np.nonzero((d <= left) & (d <= right))[0]:
            if abs(int(j) - i0) > 2 and d[j] < factor * d[i0] + 1e-12:
                return True
        return False


# ---- parametric surfaces -----------------------------------------------------------------------------
class Surface:
    """families (local right-handed orthonormal frame e1,e2,e3 at origin O, size s):
    paraboloid  P = O + s (u e1 + v e2 + (a u^2 + b v^2 + c u v) e3)
    cylinder    P = O + s (cos u e1 + sin u e2) + s a v e3
    sphere      P = O + s (cos v cos u e1 + cos v sin u e2 + sin v e3)
    wavy        P = O + s (u e1 + v e2 + a sin(b u) e3)   (many local distance minima: needs initial_params)
    sheared     P = O + u A + v B   (A, B arbitrary independent vectors)"""

    def __init__(self, spec):
        self.spec = spec
        self.fam = spec["family"]
        self.O = arr(spec["origin"])
        if self.fam == "sheared":
            self.A, self.B = arr(spec["A"]), arr(spec["B"])
            self.n = geom.unit(np.cross(self.A, self.B))
        else:
            self.e = np.array([arr(r) for r in spec["frame"]])
            self.s = float(spec["s"])
            self.a, self.b, self.c = float(spec.get("a", 0)), float(spec.get("b", 0)), float(spec.get("c", 0))

    def point(self, params):
        u, v = float(params[0]), float(params[1])
        if self.fam == "sheared":
            return self.O + u * self.A + v * self.B
        e1, e2, e3 = self.e
        s = self.s
        if self.fam == "paraboloid":
            return self.O + s * (u * e1 + v * e2 + (self.a * u * u + self.b * v * v + self.c * u * v) * e3)
        if self.fam == "wavy":
            return self.O + s * (u * e1 + v * e2 + self.a * math.sin(self.b * u) * e3)
        if self.fam == "cylinder":
            return self.O + s * (math.cos(u) * e1 + math.sin(u) * e2) + s * self.a * v * e3
        if self.fam == "sphere":
            return self.O + s * (math.cos(v) * math.cos(u) * e1 + math.cos(v) * math.sin(u) * e2 + math.sin(v) * e3)
        raise KeyError(self.fam)

    def inverse(self, q):
        """-> (u, v, residual): parameters of the surface point associated with q and an upper bound of the
        distance from q to the surface (0 iff q is on it)"""
        w = arr(q) - self.O
        if self.fam == "sheared":
            M = np.array([self.A, self.B]).T
            uv = np.linalg.lstsq(M, w, rcond=None)[0]
            return float(uv[0]), float(uv[1]), abs(float(np.dot(w, self.n)))
        x, y, z = (self.e @ w) / self.s
        if self.fam == "paraboloid":
            return float(x), float(y), self.s * abs(float(z - (self.a * x * x + self.b * y * y + self.c * x * y)))
        if self.fam == "wavy":
            return float(x), float(y), self.s * abs(float(z - self.a * math.sin(self.b * x)))
        if self.fam == "cylinder":
            return math.atan2(y, x), float(z / self.a), self.s * abs(math.hypot(x, y) - 1.0)
        if self.fam == "sphere":
            return math.atan2(y, x), math.atan2(z, math.hypot(x, y)), self.s * abs(math.sqrt(x * x + y * y + z * z) - 1)
        raise KeyError(self.fam)

    def normal(self, params):
        h = 1e-6
        u, v = params
        du = self.point((u + h, v)) - self.point((u - h, v))
        dv = self.point((u, v + h)) - self.point((u, v - h))
        return geom.unit(np.cross(du, dv))

    def min_distance(self, q, start, box=None):
        """minimum distance from q to the (box-bounded) surface; closed forms where they exist and the unconstrained
        foot point is inside the box, otherwise an independent minimisation of the squared distance started at the
        generator's foot point (the value returned is always attained by some admissible surface point, so it can
        only over-estimate the true minimum, which makes the judge more lenient, never stricter)"""
        q = arr(q)
        u0, v0, _ = self.inverse(q)
        inside = box is None or (box[0][0] <= u0 <= box[0][1] and box[1][0] <= v0 <= box[1][1])
        if inside and self.fam not in ("paraboloid", "wavy"):
            if self.fam == "sheared":
                return abs(float(np.dot(q - self.O, self.n)))
            w = self.e @ (q - self.O)
            if self.fam == "sphere":
                return abs(float(np.linalg.norm(w)) - self.s)
            return abs(math.hypot(w[0], w[1]) - self.s)

        def d2(p):
            r = self.point(p) - q
            return float(np.dot(r, r)) / (self.s * self.s if self.fam != "sheared" else 1.0)

        unit = self.s if self.fam != "sheared" else 1.0
        best = math.inf
        for st in (tuple(start), (u0, v0)):
            if box is not None:
                st = (min(max(st[0], box[0][0]), box[0][1]), min(max(st[1], box[1][0]), box[1][1]))
            res = scipy.optimize.minimize(d2, st, method="L-BFGS-B", bounds=box,
                                          options={"ftol": 1e-17, "gtol": 1e-13, "maxiter": 200})
            best = min(best, float(res.fun), d2(st))
        return math.sqrt(max(best, 0.0)) * unit
