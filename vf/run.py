"""Driver:  python -m vf.run C07 quick|thorough   |   python -m vf.run C07 --replay <file>

exit 0  held on everything explored (KNOWN-FINDING lines do not change this)
exit 1  VIOLATION property=<id> replay=<path>   (a violation whose mechanism is not an open known finding)
exit 3  INCONCLUSIVE property=<id> reason=...   (a deciding monitor never ran, a worker died / timed out)
"""

import importlib
import json
import os
import shutil
import subprocess
import sys
import time

from vf import core, deps

PY = "/venv/bin/python"
SOFT = {"quick": 40.0, "thorough": 900.0}


def classify(pid, violations, mech_counts):
    known = [k for k in core.load_known() if k["property"] == pid and k["status"] == "open"]
    known_mechs = {k["mechanism"]: k for k in known}
    new, listed = [], {}
    for v in violations:
        if v["mechanism"] in known_mechs:
            listed.setdefault(v["mechanism"], v)
        else:
            new.append(v)
    return new, listed, known_mechs


# evidence/ and replays/ describe runs against /repo itself; a run pointed at a scratch copy (VERIF_REPO=<mutant tree>, the
# seeding audits) writes its files under .work/other-tree/ instead, so that it can never overwrite them
OUT_ROOT = core.ROOT if os.path.realpath(core.REPO) == os.path.realpath("/repo") else os.path.join(core.ROOT, ".work", "other-tree")


def write_replays(pid, new):
    paths = []
    rdir = os.path.join(OUT_ROOT, "replays", pid)
    os.makedirs(rdir, exist_ok=True)
    seen = {}
    for v in new:
        name = v["mechanism"].split("/", 1)[1]
        name = "".join(c if c.isalnum() or c in "-_." else "_" for c in name)[:80]
        n = seen.get(name, 0)
        if n >= 2:
            continue  # two witnesses per mechanism are enough
        seen[name] = n + 1
        path = os.path.join(rdir, f"{name}.{n}.json")
        with open(path, "w") as fh:
            json.dump({"property": pid, "mechanism": v["mechanism"], "message": v["message"], "case": v["case"],
                       "detail": v.get("detail")}, fh, indent=1, default=str)
        paths.append((v, path))
    return paths


def replay(pid, path):
    core.setup_paths()
    import warnings

    warnings.simplefilter("ignore")
    mod = importlib.import_module(f"vf.props.{pid.lower()}")
    with open(path) as fh:
        rec = json.load(fh)
    ctx = core.Ctx(pid, "quick", 0)
    ctx.MAX_CASES_PER_MECH = 100
    ctx.run(mod, rec["case"])
    new, listed, _ = classify(pid, ctx.violations, ctx.mech_counts)
    for m in listed:
        print(f"KNOWN-FINDING: property={pid} {m}")
    for v in new:
        print(f"VIOLATION property={pid} replay={path}")
        print("  " + v["mechanism"] + ": " + v["message"].replace("\n", "\n  "))
    for h in ctx.harness_errors:
        print("HARNESS ERROR\n" + h["traceback"])
    if ctx.harness_errors:
        return 3
    if not ctx.violations:
        print(f"replay: no violation observed (property={pid})")
    return 1 if new else 0


def main():
    pid = sys.argv[1].upper()
    if sys.argv[2] == "--replay":
        deps.ensure()
        sys.exit(replay(pid, sys.argv[3]))
    tier = sys.argv[2]
    assert tier in ("quick", "thorough")
    seed = int(os.environ.get("VERIF_SEED", "0"))
    nshards = int(os.environ.get("VERIF_SHARDS", "16"))
    t0 = time.time()
    ok, why = deps.ensure()
    core.setup_paths()
    mod = importlib.import_module(f"vf.props.{pid.lower()}")
    soft = float(os.environ.get("VERIF_SOFT_S", getattr(mod, "SOFT", SOFT)[tier]))
    hard = soft * 2 + 120

    work = os.path.join(core.ROOT, ".work", f"{pid}-{tier}-{os.getpid()}")
    os.makedirs(work, exist_ok=True)
    env = dict(os.environ, PYTHONHASHSEED="0", PYTHONPATH=core.ROOT, OMP_NUM_THREADS="1",
               OPENBLAS_NUM_THREADS="1", MKL_NUM_THREADS="1", PYTHONDONTWRITEBYTECODE="1")
    procs = []
    for s in range(nshards):
        out = os.path.join(work, f"shard{s}.json")
        log = open(os.path.join(work, f"shard{s}.log"), "w")
        p = subprocess.Popen([PY, "-m", "vf.worker", pid, tier, str(seed), str(s), str(nshards), out, str(soft)],
                             cwd=core.ROOT, env=env, stdout=log, stderr=subprocess.STDOUT)
        procs.append((s, p, out, log))
    reasons = []
    if not ok:
        reasons.append(f"deps:{why}")
    results = []
    for s, p, out, log in procs:
        try:
            p.wait(timeout=max(1.0, hard - (time.time() - t0)))
        except subprocess.TimeoutExpired:
            p.kill()
            p.wait()
            reasons.append(f"shard{s}:watchdog")
        log.close()
        if os.path.exists(out):
            with open(out) as fh:
                results.append(json.load(fh))
        else:
            tail = open(os.path.join(work, f"shard{s}.log")).read()[-1500:]
            reasons.append(f"shard{s}:died rc={p.returncode}")
            sys.stderr.write(f"--- shard {s} died ---\n{tail}\n")

    # aggregate
    import collections

    counters = collections.Counter()
    mech_counts = collections.Counter()
    keys, violations, samples, herr = set(), [], [], []
    evaluations = trivial = 0
    truncated = 0
    for r in results:
        counters.update(r["counters"])
        mech_counts.update(r["mech_counts"])
        keys.update(r["keys"])
        trivial += r["trivial_keys"]
        violations += r["violations"]
        evaluations += r["evaluations"]
        herr += r["harness_errors"]
        truncated += 1 if r["truncated"] else 0
        if r.get("status") != "ok":
            reasons.append(f"shard{r['shard']}:{r.get('status')}")
    for r in results:  # samples: spread over shards
        for smp in r["samples"][:1]:
            if len(samples) < 4:
                samples.append(smp)
    if herr:
        reasons.append(f"harness_errors={counters['harness_errors']}")
        sys.stderr.write("--- harness error ---\n" + herr[0]["traceback"] + "\n")
    for c in getattr(mod, "REQUIRED", []):
        if counters.get(c, 0) == 0:
            reasons.append(f"monitor-never-reached:{c}")
    min_keys = getattr(mod, "MIN_KEYS", 2)
    if len(keys) < min_keys:
        reasons.append(f"distinct_nontrivial={len(keys)}<{min_keys}")
    if evaluations == 0:
        reasons.append("no-evaluations")

    new, listed, known_mechs = classify(pid, violations, mech_counts)
    replays = write_replays(pid, new)
    wall = time.time() - t0

    evidence = {
        "property_id": pid,
        "tier": tier,
        "seed": seed,
        "level": "exploration",
        "coverage": {
            "evaluations": evaluations,
            "distinct_nontrivial": len(keys),
            "rule": mod.RULE,
            "samples": samples,
            "trivial_cases_distinct": trivial,
            "monitor_counters": dict(sorted(counters.items())),
            "shards": nshards,
            "shards_truncated_by_soft_deadline": truncated,
            "exhaustive": False,
            "violation_mechanisms_observed": dict(mech_counts),
            "known_findings_matched": sorted(listed),
            "inconclusive_reasons": reasons,
        },
        "assumptions": getattr(mod, "ASSUMPTIONS", []),
        "wall_s": round(wall, 2),
        "violations": sum(mech_counts[v] for v in {v["mechanism"] for v in new}),
    }
    if hasattr(mod, "evidence_extra"):
        evidence["coverage"].update(mod.evidence_extra(counters, keys))
    os.makedirs(os.path.join(OUT_ROOT, "evidence"), exist_ok=True)
    with open(os.path.join(OUT_ROOT, "evidence", f"{pid}.json"), "w") as fh:
        json.dump(evidence, fh, indent=1, default=str)
    shutil.rmtree(work, ignore_errors=True)

    print(f"{pid} {tier} seed={seed}: evaluations={evaluations} distinct_nontrivial={len(keys)} "
          f"wall={wall:.1f}s truncated_shards={truncated}")
    for m in sorted(listed):
        print(f"KNOWN-FINDING: property={pid} {m} (x{mech_counts[m]}) {known_mechs[m]['what_fails']}")
    for v, path in replays:
        print(f"VIOLATION property={pid} replay={path}")
        print(f"  {v['mechanism']} (x{mech_counts[v['mechanism']]}): " + v["message"][:600].replace("\n", "\n  "))
    if new:
        sys.exit(1)
    if reasons:
        print(f"INCONCLUSIVE property={pid} reason={';'.join(reasons)}")
        sys.exit(3)
    sys.exit(0)


if __name__ == "__main__":
    main()
