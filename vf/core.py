"""Framework core: three-valued verdicts, counters, evidence, sharding, known findings.

A property module (vf/props/cNN.py) provides

    ID            "C07"
    RULE          text for evidence.coverage.rule
    BUDGET        {"quick": n_random_cases, "thorough": n_random_cases}
    REQUIRED      counters that must be > 0 or the run is INCONCLUSIVE
    MIN_KEYS      minimum distinct non-trivial keys (default 2)
    fixed_cases(tier) -> list of JSON cases (enumerated sub-spaces; may be empty)
    gen_case(ctx) -> JSON case (random part; uses ctx.rng only)
    run_case(ctx, case) -> None   (runs the REAL code, observes, calls ctx.violation / ctx.key / ctx.count)

Cases are self-contained JSON (explicit numbers), so a violation's case file replays without the rng.
"""

import collections
import hashlib
import json
import os
import random
import sys
import time
import traceback

ROOT = os.path.dirname(os.path.dirname(os.path.abspath(__file__)))
REPO = os.environ.get("VERIF_REPO", "/repo")
REPO_SRC = os.path.join(REPO, "src")
DEPS = os.path.join(ROOT, ".deps")


def setup_paths():
    """The checked code is always the current working tree of REPO (pure Python: nothing to build)."""
    if REPO_SRC in sys.path:
        sys.path.remove(REPO_SRC)
    sys.path.insert(0, REPO_SRC)
    if os.path.isdir(DEPS) and DEPS not in sys.path:
        sys.path.append(DEPS)  # appended: the repository's own packages win


def jhash(obj) -> str:
    return hashlib.sha1(json.dumps(obj, sort_keys=True, default=str).encode()).hexdigest()[:12]


class Budget(BaseException):
    """Logical step budget exceeded (BaseException: no library `except Exception` can swallow it)."""


class Ctx:
    MAX_CASES_PER_MECH = 3

    def __init__(self, pid, tier, seed, shard=0, nshards=1, deadline=None):
        self.pid, self.tier, self.seed, self.shard, self.nshards = pid, tier, seed, shard, nshards
        self.rng = random.Random(f"{seed}/{pid}/{tier}/{shard}")
        self.counters = collections.Counter()
        self.keys = set()
        self.trivial_keys = set()
        self.violations = []  # dicts: mechanism, message, case
        self.mech_counts = collections.Counter()
        self.samples = []
        self.evaluations = 0
        self.harness_errors = []
        self.deadline = deadline
        self.truncated = False
        self.case = None

    # -- observations -------------------------------------------------------------------------
    def count(self, name, n=1):
        self.counters[name] += n

    def key(self, key, nontrivial=True):
        """Register the structural key of the case just judged (distinct_nontrivial counts these)."""
        k = key if isinstance(key, str) else json.dumps(key, sort_keys=True, default=str)
        (self.keys if nontrivial else self.trivial_keys).add(k)

    def evaluated(self, n=1):
        self.evaluations += n

    def violation(self, mechanism, message, case=None, **detail):
        mech = f"{self.pid}/{mechanism}"
        self.mech_counts[mech] += 1
        if self.mech_counts[mech] <= self.MAX_CASES_PER_MECH:
            self.violations.append(
                {"mechanism": mech, "message": str(message)[:2000], "case": case if case is not None else self.case,
                 "detail": detail}
            )

    def sample(self, case, every=1):
        if len(self.samples) < 4:
            self.samples.append(case)

    def expired(self):
        if self.deadline is not None and time.time() > self.deadline:
            self.truncated = True
            return True
        return False

    # -- running one case ---------------------------------------------------------------------
    def run(self, mod, case):
        import numpy as np

        self.case = case
        np.random.seed(int(jhash(case), 16) % (2**32))
        try:
            mod.run_case(self, case)
        except Budget:
            raise
        except Exception as err:  # noqa: BLE001
            if type(err).__name__ == "ContractBroken":
                # an always-on contract (vf.contracts) fired inside library code the module did not wrap itself
                self.violation("contract-broken:" + str(err).split("(")[0].split(" ")[0][:40], str(err)[:1500])
                self.case = None
                return
            tb = traceback.extract_tb(err.__traceback__)
            inner = tb[-1]
            in_repo = REPO_SRC in os.path.abspath(inner.filename)
            # numpy / scipy frames: look for the innermost frame that is ours or the repo's
            if not in_repo:
                for fr in reversed(tb):
                    fn = os.path.abspath(fr.filename)
                    if REPO_SRC in fn:
                        in_repo, inner = True, fr
                        break
                    if fn.startswith(ROOT):
                        inner = fr
                        break
            text = "".join(traceback.format_exception(type(err), err, err.__traceback__))[-3000:]
            if in_repo:
                self.violation(
                    f"unexpected-exception:{type(err).__name__}@{os.path.basename(inner.filename)}:{inner.name}",
                    text,
                )
            else:
                if len(self.harness_errors) < 5:
                    self.harness_errors.append({"case": case, "traceback": text})
                self.count("harness_errors")
        finally:
            self.case = None

    def result(self):
        return {
            "shard": self.shard,
            "evaluations": self.evaluations,
            "counters": dict(self.counters),
            "keys": sorted(self.keys),
            "trivial_keys": len(self.trivial_keys),
            "violations": self.violations,
            "mech_counts": dict(self.mech_counts),
            "samples": self.samples,
            "harness_errors": self.harness_errors,
            "truncated": self.truncated,
        }


def share(n, shard, nshards):
    """Number of the n random cases that belong to this shard."""
    return n // nshards + (1 if shard < n % nshards else 0)


def run_shard(mod, ctx):
    fixed = mod.fixed_cases(ctx.tier) if hasattr(mod, "fixed_cases") else []
    for i, case in enumerate(fixed):
        if i % ctx.nshards != ctx.shard:
            continue
        if ctx.expired():
            ctx.count("fixed_cases_skipped_by_deadline")
            continue
        ctx.run(mod, case)
    ctx.count("fixed_cases_total", len(fixed) if ctx.shard == 0 else 0)
    n = share(int(mod.BUDGET[ctx.tier] * float(os.environ.get("VERIF_SCALE", "1"))), ctx.shard, ctx.nshards)
    for _ in range(n):
        if ctx.expired():
            break
        case = mod.gen_case(ctx)
        if case is None:
            continue
        ctx.run(mod, case)
    if hasattr(mod, "finish"):
        mod.finish(ctx)


# ------------------------------------------------------------------------------------------------
def load_known():
    path = os.path.join(ROOT, "known_findings.json")
    if not os.path.exists(path):
        return []
    with open(path) as fh:
        return json.load(fh)["findings"]
