"""C19 helpers: explicit-number transforms, builders for round sketches / round shapes and the INDEPENDENT
description of their outer curve / outer surface (textbook circle, stadium, rounded rectangle, sphere, surface of
revolution). Nothing from classy_blocks.util is used; the library is only *called* to build the entity under test."""

import math

import numpy as np

from vf import geom

TOUCH_TOL = 1e-6  # relative to the outer radius; inner points of every sketch sit at <= 0.8 of it


# ---- transforms as explicit numbers ---------------------------------------------------------------
def tf_points(points, tfs):
    p = geom.arr(points)
    for t in tfs:
        if t["t"] == "translate":
            p = p + geom.arr(t["v"])
        elif t["t"] == "rotate":
            p = geom.rotate(p, t["axis"], t["angle"], t["origin"])
        elif t["t"] == "scale":
            p = geom.scale(p, t["ratio"], t["origin"])
        elif t["t"] == "mirror":
            p = geom.reflect(p, t["normal"], t["origin"])
        else:
            raise ValueError(t["t"])
    return p


def tf_vec(v, tfs):
    """direction vectors: rotated only"""
    v = geom.arr(v)
    for t in tfs:
        if t["t"] == "rotate":
            v = geom.rotate_vec(v, t["axis"], t["angle"])
        elif t["t"] == "mirror":
            v = geom.reflect_vec(v, t["normal"])
    return v


def tf_ratio(tfs):
    r = 1.0
    for t in tfs:
        if t["t"] == "scale":
            r *= t["ratio"]
    return r


def lib_place(entity, tfs):
    """the library's own transform methods, applied to the entity under test"""
    for t in tfs:
        if t["t"] == "translate":
            entity.translate(t["v"])
        elif t["t"] == "rotate":
            entity.rotate(t["angle"], t["axis"], t["origin"])
        elif t["t"] == "scale":
            entity.scale(t["ratio"], t["origin"])
        elif t["t"] == "mirror":
            entity.mirror(t["normal"], t["origin"])
    return entity


def lib_tfs(cb, tfs):
    out = []
    for t in tfs:
        if t["t"] == "translate":
            out.append(cb.Translation(t["v"]))
        elif t["t"] == "rotate":
            out.append(cb.Rotation(t["axis"], t["angle"], t["origin"]))
        elif t["t"] == "scale":
            out.append(cb.Scaling(t["ratio"], t["origin"]))
        elif t["t"] == "mirror":
            out.append(cb.Mirror(t["normal"], t["origin"]))
    return out


def gen_frame(rng, spread=4.0):
    f = geom.orthonormal_frame(rng)
    return {"c": geom.rand_vec(rng, -spread, spread), "e1": f[0].tolist(), "e2": f[1].tolist(), "e3": f[2].tolist()}


def gen_placement(rng, allow_scale=True):
    """rigid (and sometimes uniformly scaled) placement with explicit origins"""
    u = rng.random()
    if u < 0.3:
        return []
    tfs = []
    if rng.random() < 0.8:
        tfs.append({"t": "rotate", "axis": geom.rand_unit(rng).tolist(), "angle": rng.uniform(-math.pi, math.pi),
                    "origin": geom.rand_vec(rng, -3, 3)})
    if rng.random() < 0.8:
        tfs.append({"t": "translate", "v": geom.rand_vec(rng, -5, 5)})
    if allow_scale and rng.random() < 0.25:
        tfs.append({"t": "scale", "ratio": rng.uniform(0.5, 2.0), "origin": geom.rand_vec(rng, -3, 3)})
    rng.shuffle(tfs)
    return tfs


# ---- outer curves / surfaces ----------------------------------------------------------------------
class Circle:
    """circle of radius R about c in the plane with normal n (3-D points are tested for lying ON it)"""

    def __init__(self, c, n, R):
        self.c, self.n, self.R = geom.arr(c), geom.unit(n), float(R)

    def placed(self, tfs):
        return Circle(tf_points(self.c, tfs), tf_vec(self.n, tfs), self.R * tf_ratio(tfs))

    def on(self, pts):
        d = geom.arr(pts) - self.c
        off = np.abs(d @ self.n) / self.R
        rad = np.linalg.norm(d, axis=1) / self.R
        return (off <= 10 * TOUCH_TOL) & (np.abs(rad - 1) <= TOUCH_TOL)

    def describe(self):
        return f"circle(c={self.c.round(6).tolist()}, R={self.R:.6g})"


class Sphere:
    def __init__(self, c, R):
        self.c, self.R = geom.arr(c), float(R)

    def placed(self, tfs):
        return Sphere(tf_points(self.c, tfs), self.R * tf_ratio(tfs))

    def on(self, pts):
        return np.abs(np.linalg.norm(geom.arr(pts) - self.c, axis=1) / self.R - 1) <= TOUCH_TOL

    def describe(self):
        return f"sphere(c={self.c.round(6).tolist()}, R={self.R:.6g})"


class RevolvedEdge:
    """surface of revolution of the straight outer edge of a cross-section: the block vertices on it are the
    revolved end points of that edge, i.e. points with the (axial, radial) coordinates of one of `ends`"""

    def __init__(self, c, axis, ends):
        self.c, self.axis, self.ends = geom.arr(c), geom.unit(axis), [tuple(map(float, e)) for e in ends]

    def placed(self, tfs):
        s = tf_ratio(tfs)
        return RevolvedEdge(tf_points(self.c, tfs), tf_vec(self.axis, tfs), [(z * s, r * s) for z, r in self.ends])

    def on(self, pts):
        d = geom.arr(pts) - self.c
        z = d @ self.axis
        r = np.linalg.norm(d - np.outer(z, self.axis), axis=1)
        out = np.zeros(len(d), dtype=bool)
        for ze, re in self.ends:
            out |= (np.abs(z - ze) <= TOUCH_TOL * re) & (np.abs(r - re) <= TOUCH_TOL * re)
        return out

    def describe(self):
        return f"revolved-edge(c={self.c.round(6).tolist()}, ends={self.ends})"


def op_points(op):
    return np.concatenate((np.asarray(op.bottom_face.point_array, dtype=float),
                           np.asarray(op.top_face.point_array, dtype=float)))


def touches(points, surfaces):
    hit = np.zeros(len(points), dtype=bool)
    for s in surfaces:
        hit |= s.on(points)
    return bool(hit.any())


# ---- round sketches -------------------------------------------------------------------------------
DISKS = ["OneCoreDisk", "FourCoreDisk", "HalfDisk", "QuarterDisk"]
SPLINE_DISKS = ["QuarterSplineDisk", "HalfSplineDisk", "SplineDisk"]
SPLINE_RINGS = ["QuarterSplineRing", "HalfSplineRing", "SplineRing"]
SKETCHES = DISKS + ["WrappedDisk", "Oval", "Annulus"] + SPLINE_DISKS + SPLINE_RINGS


def gen_sketch_spec(rng, cls=None):
    cls = cls or rng.choice(SKETCHES)
    spec = {"cls": cls, **gen_frame(rng)}
    if cls in DISKS:
        spec["R"] = rng.uniform(0.3, 3.0)
    elif cls == "WrappedDisk":
        spec["L"] = rng.uniform(1.0, 4.0)
        spec["r"] = spec["L"] / math.sqrt(2) * rng.uniform(0.3, 0.9)
    elif cls == "Oval":
        spec["R"] = rng.uniform(0.3, 2.0)
        spec["d"] = rng.uniform(0.3, 3.0)
    elif cls == "Annulus":
        spec["R"] = rng.uniform(0.5, 3.0)
        spec["r"] = spec["R"] * rng.uniform(0.2, 0.9)
        spec["nseg"] = rng.choice([3, 4, 5, 6, 8, 8, 12])
    else:
        a1, a2 = rng.uniform(0.5, 3.0), rng.uniform(0.5, 3.0)
        kind = rng.choice(["circular", "elliptic", "oval", "oval-1", "oval-2"])
        if kind == "circular":
            a2 = a1
        spec["a1"], spec["a2"] = a1, a2
        spec["s1"] = a1 * rng.uniform(0.1, 0.6) if kind in ("oval", "oval-1") else 0.0
        spec["s2"] = a2 * rng.uniform(0.1, 0.6) if kind in ("oval", "oval-2") else 0.0
        spec["variant"] = kind
        if cls in SPLINE_RINGS:
            spec["w1"] = rng.uniform(0.1, 1.0)
            spec["w2"] = spec["w1"] if kind == "circular" else rng.uniform(0.1, 1.0)
    return spec


def _fr(spec):
    return geom.arr(spec["c"]), geom.arr(spec["e1"]), geom.arr(spec["e2"]), geom.arr(spec["e3"])


def build_sketch(cb, spec):
    from classy_blocks.construct.flat.sketches.annulus import Annulus
    from classy_blocks.construct.flat.sketches.disk import QuarterDisk

    c, e1, e2, e3 = _fr(spec)
    cls = spec["cls"]
    if cls in DISKS:
        k = QuarterDisk if cls == "QuarterDisk" else getattr(cb, cls)
        return k(c, c + spec["R"] * e1, e3)
    if cls == "WrappedDisk":
        return cb.WrappedDisk(c, c + spec["L"] * e1, spec["r"], e3)
    if cls == "Oval":
        return cb.Oval(c - spec["d"] * e1, c + spec["d"] * e1, e3, spec["R"])
    if cls == "Annulus":
        return Annulus(c, c + spec["R"] * e1, e3, spec["r"], spec["nseg"])
    args = [c, c + spec["a1"] * e1, c + spec["a2"] * e2, spec["s1"], spec["s2"]]
    if cls in SPLINE_RINGS:
        args += [spec["w1"], spec["w2"]]
    return getattr(cb, cls)(*args)


class SketchOracle:
    """expected radial level of a face, from the analytic outer curve of the sketch (in world coordinates)"""

    def __init__(self, spec, tfs=()):
        c, e1, e2, _ = _fr(spec)
        tfs = list(tfs)
        self.cls = spec["cls"]
        self.s = tf_ratio(tfs)
        self.c = tf_points(c, tfs)
        self.e1 = geom.unit(tf_points(c + e1, tfs) - self.c)
        self.e2 = geom.unit(tf_points(c + e2, tfs) - self.c)
        self.spec = spec
        self.nlevels = 3 if self.cls == "WrappedDisk" else (1 if self.cls in SPLINE_RINGS + ["Annulus"] else 2)

    def radial(self, pts, which="outer"):
        """normalised radial coordinate: 1 on the outer curve"""
        sp, s = self.spec, self.s
        d = geom.arr(pts) - self.c
        if self.cls in DISKS or self.cls == "Annulus":
            return np.linalg.norm(d, axis=1) / (sp["R"] * s)
        if self.cls == "Oval":
            x = np.clip(d @ self.e1, -sp["d"] * s, sp["d"] * s)  # nearest point of the centre segment
            return np.linalg.norm(d - np.outer(x, self.e1), axis=1) / (sp["R"] * s)
        if self.cls == "WrappedDisk":
            return np.linalg.norm(d, axis=1) / ((sp["L"] if which == "outer" else sp["r"]) * s)
        # rounded rectangle / ellipse: straight parts s1, s2 and radii r1, r2 (rings: outer radii r + w)
        s1, s2 = sp["s1"] * s, sp["s2"] * s
        r1, r2 = (sp["a1"] - sp["s1"]) * s, (sp["a2"] - sp["s2"]) * s
        if self.cls in SPLINE_RINGS:
            r1, r2 = r1 + sp["w1"] * s, r2 + sp["w2"] * s
        x = np.maximum(np.abs(d @ self.e1) - s1, 0) / r1
        y = np.maximum(np.abs(d @ self.e2) - s2, 0) / r2
        return np.sqrt(x * x + y * y)

    def level(self, pts):
        on_outer = bool(np.any(np.abs(self.radial(pts) - 1) <= TOUCH_TOL))
        if self.nlevels == 3:
            if on_outer:
                return 2
            return 1 if np.any(np.abs(self.radial(pts, "ring") - 1) <= TOUCH_TOL) else 0
        if self.nlevels == 2:
            return 1 if on_outer else 0
        return 0 if on_outer else -1

    def touches(self, pts):
        return bool(np.any(np.abs(self.radial(pts) - 1) <= TOUCH_TOL))


# ---- round shapes ---------------------------------------------------------------------------------
SHAPES = ["Cylinder", "SemiCylinder", "Frustum", "Elbow", "ExtrudedRing", "RevolvedRing", "Hemisphere",
          "Cylinder.chain", "Cylinder.fill", "Frustum.chain", "Elbow.chain", "ExtrudedRing.chain",
          "ExtrudedRing.expand", "ExtrudedRing.contract", "Hemisphere.chain"]
SOLID_SOURCES = ["Cylinder", "Frustum", "Elbow"]


def gen_shape_spec(rng, kind=None):
    kind = kind or rng.choice(SHAPES)
    spec = {"shape": kind, **gen_frame(rng)}
    R = rng.uniform(0.3, 2.5)
    h = rng.uniform(0.3, 4.0)
    spec.update({"R": R, "h": h})
    base = kind.split(".")[0]
    if "." in kind:
        op = kind.split(".")[1]
        if kind == "Cylinder.fill":
            src = "ExtrudedRing"
        elif base == "ExtrudedRing" and op in ("chain", "contract"):
            src = "ExtrudedRing"
        elif kind == "ExtrudedRing.expand":
            src = rng.choice(["Cylinder", "ExtrudedRing"])
        elif kind == "Elbow.chain":
            src = rng.choice(["Cylinder", "Frustum", "Elbow"])
        else:
            src = rng.choice(SOLID_SOURCES)
        spec["src"] = gen_shape_spec(rng, src)
        for k in ("c", "e1", "e2", "e3"):
            spec["src"][k] = spec[k]
        if kind == "Cylinder.fill":
            spec["src"]["nseg"] = 8
        spec["start_face"] = rng.random() < 0.4 if op == "chain" else False
        spec["length"] = rng.uniform(0.3, 3.0)
        spec["thickness"] = rng.uniform(0.1, 1.5)
        spec["inner_factor"] = rng.uniform(0.2, 0.9)
    if base == "Frustum":
        spec["R2"] = R * rng.uniform(0.3, 1.8)
        spec["Rmid"] = None if rng.random() < 0.5 else R * rng.uniform(0.5, 1.5)
    if base == "Elbow":
        spec["R2"] = R * rng.uniform(0.5, 1.6)
        spec["sweep"] = rng.uniform(0.3, 2.4)
        spec["phi"] = rng.uniform(0, 2 * math.pi)
        spec["Dfac"] = rng.uniform(1.5, 4.0)
    if base == "ExtrudedRing":
        spec["r"] = R * rng.uniform(0.2, 0.9)
        spec["nseg"] = rng.choice([3, 4, 5, 6, 8, 8, 12])
    if base == "RevolvedRing":
        z0, z1 = sorted([rng.uniform(-1, 0.5), rng.uniform(0.6, 2.5)])
        r0, r1 = rng.uniform(0.3, 1.5), rng.uniform(0.3, 1.5)
        spec["section"] = [[z0, r0], [z1, r1], [z1 + rng.uniform(-0.2, 0.2), r1 + rng.uniform(0.3, 1.5)],
                           [z0 + rng.uniform(-0.2, 0.2), r0 + rng.uniform(0.3, 1.5)]]
        spec["nseg"] = rng.choice([3, 4, 5, 6, 8, 12])
    return spec


def _elbow_geometry(spec, c, n, in_plane_1, in_plane_2, R):
    """arc centre in the start plane, axis chosen so that a positive sweep leaves along +n"""
    u = math.cos(spec["phi"]) * in_plane_1 + math.sin(spec["phi"]) * in_plane_2
    D = spec["Dfac"] * max(R, spec["R2"])
    return c + D * u, np.cross(n, u)


def build_shape(cb, spec):
    """-> (shape built by the REAL library, [outer-surface descriptions computed from the case's own numbers],
    name for mechanism keys). End description (c, n, e1, R) of the solid is returned for chaining."""
    shape, surfaces, _ = _build(cb, spec)
    name = spec["shape"] + (f"({spec['src']['shape']})" if "src" in spec else "")
    return shape, surfaces, name


def _build(cb, spec):
    c, e1, e2, e3 = _fr(spec)
    kind, R, h = spec["shape"], spec["R"], spec["h"]
    if kind in ("Cylinder", "SemiCylinder"):
        shp = getattr(cb, kind)(c, c + h * e3, c + R * e1)
        ends = [(c, e3, e1, R), (c + h * e3, e3, e1, R)]
        return shp, [Circle(c, e3, R), Circle(c + h * e3, e3, R)], ends
    if kind == "Frustum":
        shp = cb.Frustum(c, c + h * e3, c + R * e1, spec["R2"], spec["Rmid"])
        ends = [(c, e3, e1, R), (c + h * e3, e3, e1, spec["R2"])]
        return shp, [Circle(c, e3, R), Circle(c + h * e3, e3, spec["R2"])], ends
    if kind == "Elbow":
        centre, axis = _elbow_geometry(spec, c, e3, e1, e2, R)
        shp = cb.Elbow(c, c + R * e1, e3, spec["sweep"], centre, axis, spec["R2"])
        c2 = geom.rotate(c, axis, spec["sweep"], centre)
        n2, f2 = geom.rotate_vec(e3, axis, spec["sweep"]), geom.rotate_vec(e1, axis, spec["sweep"])
        ends = [(c, e3, e1, R), (c2, n2, f2, spec["R2"])]
        return shp, [Circle(c, e3, R), Circle(c2, n2, spec["R2"])], ends
    if kind == "ExtrudedRing":
        shp = cb.ExtrudedRing(c, c + h * e3, c + R * e1, spec["r"], spec["nseg"])
        ends = [(c, e3, e1, R), (c + h * e3, e3, e1, R)]
        return shp, [Circle(c, e3, R), Circle(c + h * e3, e3, R)], ends
    if kind == "RevolvedRing":
        sec = spec["section"]
        face = cb.Face([c + z * e3 + r * e1 for z, r in sec])
        shp = cb.RevolvedRing(c, c + h * e3, face, spec["nseg"])
        return shp, [RevolvedEdge(c, e3, [sec[2], sec[3]])], None
    if kind == "Hemisphere":
        return cb.Hemisphere(c, c + R * e1, e3), [Sphere(c, R)], None
    # ---- derived shapes: the source is built first, its end circles are known from its own numbers
    src, _, ends = _build(cb, spec["src"])
    (cb_, nb, fb, Rb), (ct, nt, ft, Rt) = ends
    start = spec["start_face"]
    c0, n0, f0, R0 = (cb_, nb, fb, Rb) if start else (ct, nt, ft, Rt)
    L = spec["length"]
    sgn = -1.0 if start else 1.0
    if kind == "Cylinder.chain":
        shp = cb.Cylinder.chain(src, L, start_face=start)
        return shp, [Circle(c0, n0, R0), Circle(c0 + sgn * L * n0, n0, R0)], None
    if kind == "Frustum.chain":
        shp = cb.Frustum.chain(src, L, spec["R2"], start_face=start, radius_mid=spec["Rmid"])
        return shp, [Circle(c0, n0, R0), Circle(c0 + sgn * L * n0, n0, spec["R2"])], None
    if kind == "Elbow.chain":
        g2 = np.cross(n0, f0)
        centre, axis = _elbow_geometry(spec, c0, n0, f0, g2, R0)
        shp = cb.Elbow.chain(src, spec["sweep"], centre, axis, spec["R2"], start_face=start)
        c2 = geom.rotate(c0, axis, spec["sweep"], centre)
        return shp, [Circle(c0, n0, R0), Circle(c2, geom.rotate_vec(n0, axis, spec["sweep"]), spec["R2"])], None
    if kind == "Hemisphere.chain":
        return cb.Hemisphere.chain(src, start_face=start), [Sphere(c0, R0)], None
    if kind == "ExtrudedRing.chain":
        shp = cb.ExtrudedRing.chain(src, L, start_face=start)
        return shp, [Circle(c0, n0, R0), Circle(c0 + sgn * L * n0, n0, R0)], None
    if kind == "ExtrudedRing.expand":
        shp = cb.ExtrudedRing.expand(src, spec["thickness"])
        Rn = Rb + spec["thickness"]
        return shp, [Circle(cb_, nb, Rn), Circle(ct, nt, Rn)], None
    if kind == "ExtrudedRing.contract":
        r_src = spec["src"]["r"]
        shp = cb.ExtrudedRing.contract(src, r_src * spec["inner_factor"])
        return shp, [Circle(cb_, nb, r_src), Circle(ct, nt, r_src)], None
    if kind == "Cylinder.fill":
        r_src = spec["src"]["r"]
        return cb.Cylinder.fill(src), [Circle(cb_, nb, r_src), Circle(ct, nt, r_src)], None
    raise ValueError(kind)


HOLLOW = ("ExtrudedRing", "RevolvedRing")


def shape_levels(kind):
    return 1 if kind.split("(")[0].split(".")[0] in HOLLOW else 2
