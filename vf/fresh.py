"""Run one lattice case in a fresh interpreter (other heap addresses): python -m vf.fresh case.json <pad>
Prints one JSON line {outcome, sha}."""

import hashlib
import json
import sys
import warnings

from vf import core

core.setup_paths()
warnings.simplefilter("ignore")


def main():
    with open(sys.argv[1]) as fh:
        case = json.load(fh)
    pad = int(sys.argv[2])
    junk = [object() for _ in range(pad)]  # shifts the addresses (= hashes) of everything allocated later
    junk2 = [[i] for i in range(pad % 101)]
    import classy_blocks as cb

    from vf import lattice, util

    mesh, _ = lattice.build_mesh(case, cb)
    path = util.tmpfile("fresh")
    got, _ = util.write_outcome(mesh, path, nblocks=len(case["blocks"]))
    sha = None
    if got == "success":
        sha = hashlib.sha1(util.read_text(path).encode()).hexdigest()
    util.rm(path)
    del junk, junk2
    print(json.dumps({"outcome": got, "sha": sha}))


if __name__ == "__main__":
    main()
