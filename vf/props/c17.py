"""C17 — clamps stay on their manifold, links keep their relation (DESIGN 3/C17).

Monitor: the REAL clamp / link classes are constructed and driven through their public surface
(constructor, update_params, `link.leader = ...; link.update()` exactly as GridBase.update does) and every
observable position is judged by an independent description of the declared constraint (vf.xc17_geo, vf.geom):
segment / arc / plane / implicit surface membership, closest point by closed form or an independent dense search,
Rodrigues rotation, Householder reflection, snapshot + bit comparison of the leader around update()."""

import math

import numpy as np

from vf import geom
from vf import xc17_geo as xg

ID = "C17"
BUDGET = {"quick": 16000, "thorough": 600000}
MIN_KEYS = 60

CLAMP_KINDS = ["line", "radial", "plane", "curve", "surface", "free"]
LINK_KINDS = ["translation", "rotation", "symmetry"]
CURVE_FAMS = ["line", "circle", "arc", "helix", "parabola", "cubic", "linear", "spline"]
SURF_FAMS = ["paraboloid", "cylinder", "sphere", "sheared", "wavy"]
REPRS = ["array", "list", "intlist"]

REQUIRED = (
    [f"judged:fresh-on:{k}" for k in CLAMP_KINDS]
    + [f"judged:fresh-off:{k}" for k in ("line", "radial", "plane", "curve", "surface")]
    + [f"judged:sweep:{k}" for k in CLAMP_KINDS]
    + [f"judged:curve-family:{f}" for f in CURVE_FAMS]
    + [f"judged:surface-family:{f}" for f in SURF_FAMS]
    + [f"judged:follower:{k}" for k in LINK_KINDS]
    + [f"judged:leader-unchanged:{k}" for k in LINK_KINDS]
    + ["branch:line-beyond-end", "branch:line-explicit-bounds", "branch:radial-bounds-exclude-0",
       "branch:radial-bounded-arc", "branch:rotation-angle<0", "branch:rotation-angle>0",
       "branch:rotation-multi-turn", "branch:link-zero-move", "branch:link-several-moves",
       "branch:curve-initial-param", "branch:surface-initial-params", "branch:surface-bounds",
       "branch:large-move"]
)
RULE = (
    "one clamp or one link per case, every quantity in general position: size 10^U(-1,1.5), origins / centres "
    "U(-3,3)^3*size, directions / normals / axes random with norm U(0.3,3) (never unit, never axis-aligned). Clamps: "
    "Line (default / explicit bounds; created on, off, beyond the end), Radial (no bounds / bounds straddling 0 / "
    "excluding 0 on either side), Plane, Curve (LineCurve, CircleCurve full and arc, AnalyticCurve helix / parabola / "
    "cubic, Linear- and Spline-interpolated; with and without initial_param), ParametricSurface (paraboloid / saddle, "
    "cylinder, sphere, sheared plane, and a wavy sheet entered only with initial_params; with / without bounds and "
    "initial_params), Free; created on and off the "
    "constraint, then 4 in-bounds parameter vectors (bounds ends included) through update_params. Links: Translation "
    "/ Rotation / Symmetry built from arrays, float lists or int lists, 0..3 successive leader moves of size "
    "10^U(-3,1.5)*size (rotation: pure rotations about the axis by cumulative angles in (-10,10), wrapped angle kept "
    "0.05 away from +-pi), leader assigned and update() called as GridBase.update does. Every structural class is "
    "also enumerated twice as fixed cases. non-trivial: origin / centre farther than 0.1*size from 0 and direction "
    "neither unit (|n|-1 > 0.05) nor within 5 deg of a coordinate axis; distinct by (kind, family, bounds class, "
    "creation class, initial-parameter use, representation, number of moves, angle sign)"
)
ASSUMPTIONS = [
    "the declared constraint is the geometry plus the bounds in the documented units: LineClamp t = distance from "
    "point_1 (default bounds = the segment point_1..point_2), RadialClamp t = arc length from the creation position, "
    "CurveClamp = the curve between its own bounds, ParametricSurfaceClamp = the image of the bounds box",
    "fresh clamp created on the constraint: |position - creation point| <= 100*TOL*max(1,size) (TOL = 1e-7 is the "
    "tolerance the library hands to scipy.optimize.minimize; measured worst case 1e-7*size)",
    "fresh clamp created off the constraint: position on the constraint and |position - creation point| <= "
    "(independently computed minimum distance) + 100*TOL*max(1,size) - the distance, not the foot point, is what the "
    "optimiser's ftol=TOL controls (foot-point error ~ sqrt(2*d*excess)); measured worst excess 3*TOL; creation offsets "
    "<= 0.1..0.3 of the local radius of curvature so that the closest point is unique; closed curves are not entered "
    "within 0.6 rad of the seam; a surface with many local distance minima (wavy) only with initial_params",
    "positions for explicit parameters: distance to the declared constraint <= 1e-9*max(1,size) (1e-8 for "
    "analytic and spline curves, judged against a refined dense sampling of the declaring function / curve object)",
    "links: follower within 1e-9*scale of leader+v0 / Householder mirror, 5e-7*scale of the Rodrigues rotation (arccos "
    "of a dot product of unit vectors resolves angles to ~1.5e-8); leader compared bit for bit around update(); a "
    "zero-size move is update() without re-assigning the leader",
    "PlaneClamp draws its in-plane basis from the global numpy RNG (seeded per case by the framework)",
]


# =====================================================================================================
# generation
# =====================================================================================================
def _vec(rng, size, lo=-3.0, hi=3.0):
    return [rng.uniform(lo, hi) * size for _ in range(3)]


def _dir(rng, lo=0.3, hi=3.0):
    """non-unit, not axis-aligned direction"""
    while True:
        u = geom.rand_unit(rng)
        if max(abs(u)) < math.cos(math.radians(8)):
            n = rng.uniform(lo, hi)
            if abs(n - 1) < 0.08:
                n += 0.2
            return [float(x) * n for x in u]


def _perp(rng, d):
    d = geom.unit(d)
    while True:
        w = np.cross(d, geom.rand_unit(rng))
        n = np.linalg.norm(w)
        if n > 0.3:
            return w / n


def _frame(rng):
    return [[float(x) for x in row] for row in geom.orthonormal_frame(rng)]


def _fl(v):
    return [float(x) for x in v]


def _size(rng):
    return 10 ** rng.uniform(-1, 1.5)


def _sweep(rng, lo, hi, n=4):
    out = [lo, hi] if rng.random() < 0.5 else []
    while len(out) < n:
        out.append(rng.uniform(lo, hi))
    rng.shuffle(out)
    return [float(t) for t in out]


def gen_line(rng, bcls, ccls):
    size = _size(rng)
    p1 = arr(_vec(rng, size))
    d = arr(_dir(rng)) * size
    L = float(np.linalg.norm(d))
    u = d / L
    if bcls == "default":
        bounds, lo, hi = None, 0.0, L
    else:
        w = rng.uniform(0.3, 2.0) * L
        mode = rng.random()
        if mode < 0.6:
            lo = -rng.uniform(0.0, 1.0) * w  # 0 inside the bounds
        elif mode < 0.8:
            lo = rng.uniform(0.1, 0.5) * L  # the optimiser's start value 0 is below the bounds
        else:
            lo = -w - rng.uniform(0.1, 0.5) * L  # ... above the bounds
        hi = lo + w
        bounds = [float(lo), float(hi)]
    w = hi - lo
    if ccls == "beyond":
        t0 = hi + rng.uniform(0.05, 1.0) * L if rng.random() < 0.5 else lo - rng.uniform(0.05, 1.0) * L
        off = rng.choice([0.0, rng.uniform(0.01, 1.0) * size])
    else:
        t0 = lo + rng.uniform(0.05, 0.95) * w
        off = 0.0 if ccls == "on" else rng.uniform(0.01, 1.0) * size
    point = p1 + t0 * u + (off * _perp(rng, u) if off else 0.0)
    return {"kind": "line", "size": size, "p1": _fl(p1), "p2": _fl(p1 + d), "bounds": bounds, "bcls": bcls,
            "create": {"cls": ccls, "point": _fl(point)}, "params": _sweep(rng, lo, hi)}


def gen_radial(rng, bcls):
    size = _size(rng)
    center = arr(_vec(rng, size))
    normal = arr(_dir(rng))
    k = geom.unit(normal)
    r = rng.uniform(0.2, 3.0) * size
    h = rng.uniform(-2.0, 2.0) * size  # centre is NOT the foot of the position on the axis
    pos = center + h * k + r * _perp(rng, k)
    if bcls == "none":
        bounds = None
        params = [float(rng.uniform(-4 * math.pi, 4 * math.pi) * r) for _ in range(4)]
        if rng.random() < 0.3:
            params[0] = 2 * math.pi * r
    else:
        if bcls == "straddle":
            a, b = -rng.uniform(0.05, 0.9) * math.pi, rng.uniform(0.05, 0.9) * math.pi
        elif bcls == "exclude+":
            a = rng.uniform(0.05, 0.5) * math.pi
            b = a + rng.uniform(0.05, 0.4) * math.pi
        else:
            b = -rng.uniform(0.05, 0.5) * math.pi
            a = b - rng.uniform(0.05, 0.4) * math.pi
        bounds = [float(a * r), float(b * r)]
        params = _sweep(rng, bounds[0], bounds[1])
    return {"kind": "radial", "size": size, "center": _fl(center), "normal": _fl(normal), "position": _fl(pos),
            "bounds": bounds, "bcls": bcls, "params": params}


def gen_plane(rng, ccls):
    size = _size(rng)
    point = arr(_vec(rng, size))
    normal = arr(_dir(rng))
    k = geom.unit(normal)
    on = point + _perp(rng, k) * rng.uniform(0.1, 3.0) * size
    if ccls == "off":
        on = on + k * rng.choice([-1, 1]) * rng.uniform(0.01, 1.0) * size
    params = [[rng.uniform(-3, 3) * size, rng.uniform(-3, 3) * size] for _ in range(4)]
    return {"kind": "plane", "size": size, "point": _fl(point), "normal": _fl(normal),
            "create": {"cls": ccls, "point": _fl(on)}, "params": params}


def _analytic_spec(rng, fam, size):
    spec = {"family": fam, "origin": _vec(rng, size), "frame": _frame(rng), "s": size * rng.uniform(0.5, 2.0)}
    if fam == "helix":
        spec["a"] = rng.choice([-1, 1]) * rng.uniform(0.15, 0.6)  # pitch per radian / radius
        spec["b"] = 0.0
        lo = rng.uniform(-2.0, 1.0)
        spec["bounds"] = [lo, lo + rng.uniform(1.5, 1.6 * math.pi)]
    elif fam == "parabola":
        spec["a"] = rng.choice([-1, 1]) * rng.uniform(0.1, 0.6)
        spec["b"] = rng.uniform(-0.5, 0.5)
        spec["bounds"] = [rng.uniform(-1.5, -0.3), rng.uniform(0.5, 2.0)]
    else:  # cubic
        spec["a"] = rng.uniform(-0.5, 0.5)
        spec["b"] = rng.choice([-1, 1]) * rng.uniform(0.05, 0.3)
        spec["bounds"] = [rng.uniform(-1.0, -0.3), rng.uniform(0.5, 1.5)]
    return spec


def gen_curve(rng, fam, ccls, init):
    size = _size(rng)
    create = {"cls": ccls}
    if fam == "line":
        p1 = arr(_vec(rng, size))
        d = arr(_dir(rng)) * size
        lo = rng.choice([0.0, rng.uniform(-1.0, 0.2)])
        hi = rng.choice([1.0, lo + rng.uniform(0.5, 2.5)])
        spec = {"family": "line", "origin": [0, 0, 0], "p1": _fl(p1), "p2": _fl(p1 + d), "bounds": [lo, hi]}
        margin, rcurv = 0.05 * (hi - lo), 10 * size
    elif fam in ("circle", "arc"):
        origin = arr(_vec(rng, size))
        normal = arr(_dir(rng))
        k = geom.unit(normal)
        R = rng.uniform(0.3, 3.0) * size
        rim = origin + R * _perp(rng, k)
        if fam == "circle":
            bounds, margin = [0.0, 2 * math.pi], 0.6
        else:
            lo = rng.uniform(0.0, 3.0)
            bounds = [lo, lo + rng.uniform(0.8, 3.0)]
            margin = 0.05 * (bounds[1] - bounds[0])
        spec = {"family": "circle", "origin": _fl(origin), "rim": _fl(rim), "normal": _fl(normal), "bounds": bounds,
                "full": fam == "circle"}
        rcurv = R
    elif fam in ("helix", "parabola", "cubic"):
        spec = _analytic_spec(rng, fam, size)
        margin = 0.05 * (spec["bounds"][1] - spec["bounds"][0])
        rcurv = spec["s"] * (1.0 if fam == "helix" else 0.25)
    else:  # interpolated: points on a smooth base curve at unevenly spaced parameters
        base = _analytic_spec(rng, rng.choice(["helix", "parabola", "cubic"]), size)
        fun = xg.curve_function(base)
        lo, hi = base["bounds"]
        n = rng.randint(5, 9)
        cuts = sorted(rng.uniform(0, 1) for _ in range(n - 2))
        ts = [lo] + [lo + c * (hi - lo) for c in cuts] + [hi]
        # keep neighbouring points apart
        ts = [ts[0]] + [t for i, t in enumerate(ts[1:-1], 1) if t - ts[i - 1] > 0.04 * (hi - lo)] + [ts[-1]]
        ts = sorted(set(ts))
        if len(ts) >= 3 and ts[-1] - ts[-2] < 0.04 * (hi - lo):
            ts.pop(-2)
        while len(ts) < 4:
            ts = [lo + i * (hi - lo) / 4 for i in range(5)]
        pts = [_fl(fun(t)) for t in ts]
        spec = {"family": fam, "points": pts, "bounds": [0.0, 1.0]}
        margin, rcurv = 0.06, base["s"] * 0.25
    lo, hi = spec["bounds"]
    t0 = rng.uniform(lo + margin, hi - margin)
    offset = [0.0, 0.0, 0.0]
    if ccls == "off":
        offset = _fl(geom.rand_unit(rng) * rng.uniform(0.01, 0.3) * rcurv)
    if fam == "linear":
        # a point on the polyline, chosen independently of the library's parameterisation
        pts = arr(spec["points"])
        i = rng.randrange(len(pts) - 1)
        fr = rng.uniform(0.15, 0.85)
        base_pt = pts[i] + fr * (pts[i + 1] - pts[i])
        if ccls == "off":
            seg = float(np.linalg.norm(pts[i + 1] - pts[i]))
            off = _perp(rng, pts[i + 1] - pts[i]) * rng.uniform(0.01, 0.1) * seg
            others = [xg.seg_dist(base_pt + off, pts[j], pts[j + 1]) for j in range(len(pts) - 1) if j != i]
            while others and min(others) < 2.0 * float(np.linalg.norm(off)):  # keep the closest point unique
                off = off * 0.5
                others = [xg.seg_dist(base_pt + off, pts[j], pts[j + 1]) for j in range(len(pts) - 1) if j != i]
            offset = _fl(off)
        create["point"] = _fl(base_pt + arr(offset))
        create["segment"] = i
    elif fam == "spline":
        create["t0"], create["offset"] = float(t0), offset  # the curve's own point is taken at run time
    else:
        create["point"] = _fl(xg.curve_function(spec)(t0) + arr(offset))
        create["t0"] = float(t0)
    initial = None
    if init:
        initial = float(min(hi, max(lo, t0 + rng.uniform(-0.05, 0.05) * (hi - lo)))) if fam != "linear" else None
    return {"kind": "curve", "fam": fam, "size": size, "curve": spec, "create": create, "initial_param": initial,
            "params": _sweep(rng, lo, hi)}


def gen_surface(rng, fam, ccls, init, bounded):
    size = _size(rng)
    spec = {"family": fam, "origin": _vec(rng, size)}
    if fam == "sheared":
        A = arr(_dir(rng)) * size
        while True:
            B = arr(_dir(rng)) * size
            if np.linalg.norm(np.cross(geom.unit(A), geom.unit(B))) > 0.4:
                break
        spec["A"], spec["B"] = _fl(A), _fl(B)
        urange = vrange = (-1.5, 1.5)
        rcurv = 3 * size
    else:
        spec["frame"] = _frame(rng)
        spec["s"] = size * rng.uniform(0.5, 2.0)
        if fam == "paraboloid":
            spec["a"], spec["b"], spec["c"] = rng.uniform(-0.4, 0.4), rng.uniform(-0.4, 0.4), rng.uniform(-0.3, 0.3)
            urange = vrange = (-1.0, 1.0)
            rcurv = spec["s"] / 1.4
        elif fam == "cylinder":
            spec["a"] = rng.uniform(0.5, 2.0)
            urange, vrange = (-1.2, 1.2), (-1.0, 1.0)
            rcurv = spec["s"]
        elif fam == "wavy":
            # amplitude a, wave number b: the distance from a point has one local minimum per wave, so this family
            # is only entered with initial_params (as the class documents for such surfaces)
            spec["a"], spec["b"] = rng.uniform(0.3, 0.6), rng.uniform(2.5, 4.0)
            urange, vrange = (-3.3, 3.3), (-1.0, 1.0)
            rcurv = spec["s"] / (spec["a"] * spec["b"] ** 2)
        else:
            urange, vrange = (-1.2, 1.2), (-0.9, 0.9)
            rcurv = spec["s"]
    surf = xg.Surface(spec)
    foot = [rng.uniform(*urange) * 0.9, rng.uniform(*vrange) * 0.9]
    if fam == "wavy" and abs(foot[0]) < 1.5:
        foot[0] = math.copysign(rng.uniform(1.5, 3.0), foot[0] or 1.0)  # at least ~a wave length from the default start
    point = surf.point(foot)
    if ccls == "off":
        point = point + surf.normal(foot) * rng.choice([-1, 1]) * rng.uniform(0.01, 0.25) * rcurv
    bounds = None
    wide = bounded and fam == "cylinder" and ccls == "on" and not init and rng.random() < 0.4
    if wide:
        # almost the whole wall of the cylinder as parameter box: the distance to a point is not convex over it (but falls
        # monotonically from the default start (0, 0) towards the point)
        foot = [rng.uniform(-2.6, 2.6), rng.uniform(-0.9, 0.9)]
        point = surf.point(foot)
    if bounded:
        bounds = [[min(foot[0], 0.0) - rng.uniform(0.1, 0.4), max(foot[0], 0.0) + rng.uniform(0.1, 0.4)],
                  [min(foot[1], 0.0) - rng.uniform(0.1, 0.4), max(foot[1], 0.0) + rng.uniform(0.1, 0.4)]]
        if wide:
            bounds = [[-3.0, 3.0], [-1.0, 1.0]]
        if rng.random() < 0.3 and not wide:  # box that does not contain the default start value (0, 0)
            bounds = [[foot[0] - rng.uniform(0.1, 0.3), foot[0] + rng.uniform(0.1, 0.3)],
                      [foot[1] - rng.uniform(0.1, 0.3), foot[1] + rng.uniform(0.1, 0.3)]]
        params = [[rng.uniform(*bounds[0]), rng.uniform(*bounds[1])] for _ in range(3)]
        params.append([rng.choice(bounds[0]), rng.choice(bounds[1])])
    else:
        params = [[rng.uniform(*urange), rng.uniform(*vrange)] for _ in range(4)]
    initial = [foot[0] + rng.uniform(-0.1, 0.1), foot[1] + rng.uniform(-0.1, 0.1)] if init else None
    if fam == "wavy":
        initial = [foot[0] + rng.uniform(-0.1, 0.1) / spec["b"], foot[1] + rng.uniform(-0.1, 0.1)]
    if initial is not None and bounds is not None:
        initial = [min(max(initial[0], bounds[0][0]), bounds[0][1]), min(max(initial[1], bounds[1][0]), bounds[1][1])]
    return {"kind": "surface", "fam": fam, "size": size, "surface": spec, "bounds": bounds,
            "create": {"cls": ccls, "point": _fl(point), "foot": foot}, "initial_params": initial, "params": params}


def gen_free(rng):
    size = _size(rng)
    return {"kind": "free", "size": size, "position": _vec(rng, size), "params": [_vec(rng, size) for _ in range(4)]}


def _pt(rng, size, rep):
    if rep == "intlist":
        while True:
            p = [rng.randint(-9, 9) for _ in range(3)]
            if any(p):
                return p
    return _vec(rng, size)


def _move(rng, size):
    return 10 ** rng.uniform(-3, 1.5) * size


def gen_link(rng, kind, rep, nmoves):
    size = _size(rng) if rep != "intlist" else 3.0
    case = {"kind": kind, "size": size, "repr": rep, "leader": _pt(rng, size, rep), "follower": _pt(rng, size, rep)}
    if kind == "translation":
        cur = arr(case["leader"])
        moves = []
        for _ in range(nmoves):
            cur = cur + geom.rand_unit(rng) * _move(rng, size)
            moves.append(_fl(cur))
        case["moves"] = moves
    elif kind == "rotation":
        case["axis"] = _dir(rng)
        case["origin"] = _vec(rng, size)
        k = geom.unit(case["axis"])
        while True:  # leader well away from the axis (on the axis the library documents a ValueError)
            v = arr(case["leader"]) - arr(case["origin"])
            if np.linalg.norm(v - np.dot(v, k) * k) > 0.2 * size:
                break
            case["leader"] = _pt(rng, size, rep)
        angles, total, drift = [], 0.0, []
        for _ in range(nmoves):
            while True:
                step = rng.choice([-1, 1]) * 10 ** rng.uniform(-3, 1) if rng.random() < 0.7 else rng.uniform(-10, 10)
                if rng.random() < 0.3:
                    step = 0.0 if rng.random() < 0.7 else -total  # a move without turning / back to the start angle
                cand = total + step
                wrapped = math.remainder(cand, 2 * math.pi)
                if abs(cand) < 10 and abs(abs(wrapped) - math.pi) > 0.05:
                    break
            total = cand
            angles.append(float(total))
            # the leader may also slide along the axis or change its radius: neither turns it
            u = rng.random()
            drift.append([rng.uniform(-1, 1) * size, 1.0] if u < 0.2 else [0.0, rng.uniform(0.5, 2.0)] if u < 0.4 else [0.0, 1.0])
        case["angles"] = angles
        case["drift"] = drift
    else:
        case["normal"] = _dir(rng)
        case["origin"] = _vec(rng, size)
        if rep != "intlist" and rng.random() < 0.5:  # the usual situation: follower is the mirror image already
            case["follower"] = _fl(geom.reflect(case["leader"], case["normal"], case["origin"]))
        cur = arr(case["leader"])
        moves = []
        for _ in range(nmoves):
            cur = cur + geom.rand_unit(rng) * _move(rng, size)
            moves.append(_fl(cur))
        case["moves"] = moves
    return case


arr = geom.arr


def classes():
    """the structural class table: (builder name, args)"""
    out = []
    for b in ("default", "explicit"):
        for c in ("on", "off", "beyond"):
            out.append(("line", (b, c)))
    for b in ("none", "straddle", "exclude+", "exclude-"):
        out.append(("radial", (b,)))
    for c in ("on", "off"):
        out.append(("plane", (c,)))
    for fam in CURVE_FAMS:
        for c in ("on", "off"):
            for init in (False, True):
                out.append(("curve", (fam, c, init)))
    for fam in SURF_FAMS:
        for c in ("on", "off"):
            for init in ((True,) if fam == "wavy" else (False, True)):
                for bounded in (False, True):
                    out.append(("surface", (fam, c, init, bounded)))
    out.append(("free", ()))
    for kind in LINK_KINDS:
        for rep in REPRS:
            for n in (0, 1, 2, 3):
                out.append(("link", (kind, rep, n)))
    return out


BUILDERS = {"line": gen_line, "radial": gen_radial, "plane": gen_plane, "curve": gen_curve, "surface": gen_surface,
            "free": gen_free, "link": gen_link}
_WEIGHTS = {"line": 3, "radial": 3, "plane": 2, "curve": 1, "surface": 0.5, "free": 2, "link": 1}


def fixed_cases(tier):
    import random

    rng = random.Random("C17/fixed")
    return [BUILDERS[name](rng, *args) for name, args in classes() for _ in range(2)]


_CLASSES = classes()
_CW = [_WEIGHTS[name] for name, _ in _CLASSES]


def gen_case(ctx):
    name, args = ctx.rng.choices(_CLASSES, _CW)[0]
    return BUILDERS[name](ctx.rng, *args)


# =====================================================================================================
# judging
# =====================================================================================================
TOL = 1e-7  # the library's TOL (util.constants), which it passes to scipy.optimize.minimize


def _tols(size):
    s = max(1.0, size)
    return {"on": 100 * TOL * s, "excess": 100 * TOL * s, "manifold": 1e-9 * s, "sampled": 1e-8 * s}


def _nontrivial(origin, direction, size):
    if origin is not None and np.linalg.norm(arr(origin)) <= 0.1 * size:
        return False
    if direction is not None:
        d = arr(direction)
        n = np.linalg.norm(d)
        if abs(n - 1) <= 0.05 or max(abs(d / n)) >= math.cos(math.radians(5)):
            return False
    return True


def _rep(values, rep):
    if rep == "array":
        return np.array(values, dtype=float)
    if rep == "list":
        return [float(v) for v in values]
    return [int(v) for v in values]


def _call(ctx, tag, fn):
    """run library code; an exception for an in-domain input is a violation of the clause being exercised"""
    try:
        return True, fn()
    except Exception as err:  # noqa: BLE001
        import traceback

        tb = traceback.extract_tb(err.__traceback__)
        where = next((f"{fr.filename.rsplit('/', 1)[-1]}:{fr.name}" for fr in reversed(tb)
                      if "/classy_blocks/" in fr.filename), "?")
        ctx.violation(f"{tag}:raises:{type(err).__name__}@{where}",
                      f"{tag}: {type(err).__name__}: {err} for case {_brief(ctx.case)}")
        return False, None


def _brief(case):
    import json

    return json.dumps(case)[:900]


class _Clamp:
    """what the judge needs to know about one declared constraint"""

    def __init__(self, label, dist, min_dist, tol_member, ambiguous=None):
        self.label = label  # mechanism prefix
        self.dist = dist  # q -> distance from q to the declared (bounded) constraint
        self.min_dist = min_dist  # creation point -> minimum distance to the declared constraint
        self.tol_member = tol_member
        self.ambiguous = ambiguous  # creation point -> True if 'the closest point' is ill-conditioned there


def _judge_clamp(ctx, case, clamp, oracle, create_point, ccls, kind, sweep, caller_arrays=None):
    t = _tols(case["size"])
    pos = arr(clamp.position)
    cp = arr(create_point)
    label = oracle.label
    mk = f"{kind}/{case['fam']}" if "fam" in case else kind  # name under which the worst error / tolerance is kept
    ctx.evaluated()
    # -- fresh clamp --------------------------------------------------------------------------------
    if pos.shape != (3,) or not np.all(np.isfinite(pos)):
        ctx.violation(f"{label}:fresh-position-malformed", f"position {pos!r} for {_brief(case)}")
        return False
    if ccls == "on":
        ctx.count(f"judged:fresh-on:{kind}")
        err = geom.dist(pos, cp)
        _margin(f"{mk}:fresh-on", err / t["on"])
        if not (err <= t["on"]):
            ctx.violation(f"{label}:fresh-position-differs-from-creation-point",
                          f"created ON the constraint at {cp.tolist()} but reports {pos.tolist()} (|diff|={err:.3e} > "
                          f"{t['on']:.1e}); case {_brief(case)}")
            return False
    else:
        ctx.count(f"judged:fresh-off:{kind}")
        dm = oracle.dist(pos)
        _margin(f"{mk}:fresh-off-member", dm / oracle.tol_member)
        if not (dm <= oracle.tol_member):
            ctx.violation(f"{label}:fresh-position-off-constraint",
                          f"created at {cp.tolist()} (off the constraint); reported position {pos.tolist()} is {dm:.3e} "
                          f"away from the declared constraint; case {_brief(case)}")
            return False
        if oracle.ambiguous is not None and oracle.ambiguous(cp):
            ctx.count("skipped:closest-point-not-unique")
            dmin = geom.dist(pos, cp)
        else:
            dmin = oracle.min_dist(cp)
        exc = geom.dist(pos, cp) - dmin
        _margin(f"{mk}:fresh-off-excess", exc / t["excess"])
        if not (exc <= t["excess"]):
            ctx.violation(f"{label}:fresh-position-not-closest-point",
                          f"created at {cp.tolist()}: reported position {pos.tolist()} is {geom.dist(pos, cp):.9g} from "
                          f"it but the constraint comes as close as {dmin:.9g} (excess {exc:.3e} > {t['excess']:.1e}); "
                          f"case {_brief(case)}")
            return False
    # -- explicit parameters ------------------------------------------------------------------------
    for p in sweep:
        ok, _ = _call(ctx, f"{label}:update_params", lambda p=p: clamp.update_params(list(p) if isinstance(p, list) else [p]))
        if not ok:
            return False
        q = arr(clamp.position)
        ctx.evaluated()
        ctx.count(f"judged:sweep:{kind}")
        if q.shape != (3,) or not np.all(np.isfinite(q)):
            ctx.violation(f"{label}:position-malformed", f"params {p} -> position {q!r}; case {_brief(case)}")
            return False
        dm = oracle.dist(q)
        _margin(f"{mk}:sweep", dm / oracle.tol_member)
        if not (dm <= oracle.tol_member):
            ctx.violation(f"{label}:position-off-constraint",
                          f"params {p} (inside the bounds) -> position {q.tolist()}, {dm:.3e} away from the declared "
                          f"constraint (tolerance {oracle.tol_member:.1e}); case {_brief(case)}")
            return False
    # -- history: the caller goes on using the arrays it created the clamp from (a loop that shifts its end points, rows of a
    # vertex array that is edited later); the long-lived clamp keeps the constraint it was declared with
    if caller_arrays and sweep:
        for a in caller_arrays:
            if isinstance(a, np.ndarray) and a.dtype.kind == "f":
                a += 3.7 * case["size"]
        for p in list(sweep)[-2:]:
            ok, _ = _call(ctx, f"{label}:update_params", lambda p=p: clamp.update_params(list(p) if isinstance(p, list) else [p]))
            if not ok:
                return False
            q = arr(clamp.position)
            ctx.count(f"judged:after-caller-reused-its-arrays:{kind}")
            dm = oracle.dist(q) if q.shape == (3,) and np.all(np.isfinite(q)) else math.inf
            if not (dm <= oracle.tol_member):
                ctx.violation(f"{label}:position-follows-arrays-the-caller-edited-later",
                              f"after the caller shifted the arrays it had passed to the constructor, params {p} -> position "
                              f"{q.tolist()}, {dm:.3e} away from the declared constraint; case {_brief(case)}")
                return False
    return True


MARGINS = {}


def _margin(name, ratio):
    if ratio > MARGINS.get(name, -1.0):
        MARGINS[name] = float(ratio)


# ---- one runner per kind -------------------------------------------------------------------------------
def run_line(ctx, case):
    from classy_blocks.optimize.clamps.curve import LineClamp

    t = _tols(case["size"])
    p1, p2 = arr(case["p1"]), arr(case["p2"])
    L = float(np.linalg.norm(p2 - p1))
    u = (p2 - p1) / L
    lo, hi = (0.0, L) if case["bounds"] is None else case["bounds"]
    a, b = p1 + lo * u, p1 + hi * u
    oracle = _Clamp(f"line[{case['bcls']}]", lambda q: xg.seg_dist(q, a, b), lambda q: xg.seg_dist(q, a, b), t["manifold"])
    cp = case["create"]["point"]
    args = (np.array(cp), np.array(case["p1"]), np.array(case["p2"]))
    if case["bounds"] is not None:
        args += (tuple(case["bounds"]),)
        ctx.count("branch:line-explicit-bounds")
    ok, clamp = _call(ctx, f"{oracle.label}:create", lambda: LineClamp(*args))
    if not ok:
        return
    ccls = case["create"]["cls"]
    if ccls == "beyond":
        ctx.count("branch:line-beyond-end")
    _judge_clamp(ctx, case, clamp, oracle, cp, "on" if ccls == "on" else "off", "line", case["params"], caller_arrays=args)
    ctx.key(["line", case["bcls"], ccls, "start-outside-bounds" if lo > 0 or hi < 0 else ""],
            _nontrivial(case["p1"], p2 - p1, case["size"]))


def run_radial(ctx, case):
    from classy_blocks.optimize.clamps.curve import RadialClamp

    t = _tols(case["size"])
    pos = arr(case["position"])
    probe = xg.Arc(case["center"], case["normal"], pos)
    r = probe.R
    rng_ = None if case["bounds"] is None else (case["bounds"][0] / r, case["bounds"][1] / r)
    arc = xg.Arc(case["center"], case["normal"], pos, rng_)
    oracle = _Clamp(f"radial[{case['bcls']}]", arc.dist, arc.dist, t["manifold"])
    args = (np.array(case["position"]), np.array(case["center"]), np.array(case["normal"]))
    if case["bounds"] is not None:
        args += (list(case["bounds"]),)
        ctx.count("branch:radial-bounded-arc")
    ok, clamp = _call(ctx, f"{oracle.label}:create", lambda: RadialClamp(*args))
    if not ok:
        return
    on = case["bounds"] is None or case["bounds"][0] <= 0 <= case["bounds"][1]
    if not on:
        ctx.count("branch:radial-bounds-exclude-0")
    _judge_clamp(ctx, case, clamp, oracle, pos, "on" if on else "off", "radial", case["params"], caller_arrays=args)
    ctx.key(["radial", case["bcls"]], _nontrivial(case["center"], case["normal"], case["size"]))


def run_plane(ctx, case):
    from classy_blocks.optimize.clamps.surface import PlaneClamp

    t = _tols(case["size"])
    o, k = arr(case["point"]), geom.unit(case["normal"])

    def dist(q):
        return abs(float(np.dot(arr(q) - o, k)))

    oracle = _Clamp("plane", dist, dist, t["manifold"])
    cp = case["create"]["point"]
    args = (np.array(cp, dtype=float), np.array(case["point"], dtype=float), np.array(case["normal"], dtype=float))
    ok, clamp = _call(ctx, "plane:create", lambda: PlaneClamp(*args))
    if not ok:
        return
    _judge_clamp(ctx, case, clamp, oracle, cp, case["create"]["cls"], "plane", case["params"], caller_arrays=args)
    ctx.key(["plane", case["create"]["cls"]], _nontrivial(case["point"], case["normal"], case["size"]))


def _build_curve(case):
    """-> (library curve object, oracle distance function, creation point)"""
    from classy_blocks.construct.curves.analytic import AnalyticCurve, CircleCurve, LineCurve
    from classy_blocks.construct.curves.interpolated import LinearInterpolatedCurve, SplineInterpolatedCurve

    spec = case["curve"]
    fam = spec["family"]
    lo, hi = spec["bounds"]
    t = _tols(case["size"])
    if fam == "line":
        curve = LineCurve(np.array(spec["p1"]), np.array(spec["p2"]), (lo, hi))
        p1, p2 = arr(spec["p1"]), arr(spec["p2"])
        a, b = p1 + lo * (p2 - p1), p1 + hi * (p2 - p1)
        return curve, (lambda q: xg.seg_dist(q, a, b)), arr(case["create"]["point"]), t["manifold"], None
    if fam == "circle":
        curve = CircleCurve(np.array(spec["origin"]), np.array(spec["rim"]), np.array(spec["normal"]), (lo, hi))
        arc = xg.Arc(spec["origin"], spec["normal"], spec["rim"], None if spec["full"] else (lo, hi))
        return curve, arc.dist, arr(case["create"]["point"]), t["manifold"], None
    if fam in ("helix", "parabola", "cubic"):
        fun = xg.curve_function(spec)
        curve = AnalyticCurve(lambda p: fun(float(p)), (lo, hi))
        sc = xg.SampledCurve(fun, lo, hi)
        return curve, sc.dist, arr(case["create"]["point"]), t["sampled"], sc.ambiguous
    pts = np.array(spec["points"], dtype=float)
    if fam == "linear":
        curve = LinearInterpolatedCurve(pts)
        return curve, (lambda q: geom.point_polyline_distance(q, pts)), arr(case["create"]["point"]), t["manifold"], None
    curve = SplineInterpolatedCurve(pts)
    # the declared curve is the curve object itself (its points are C16's subject, not this property's)
    sc = xg.SampledCurve(lambda p: curve.get_point(float(p)), 0.0, 1.0, n=801, samples=curve.discretize(0.0, 1.0, 801),
                         vectorised=False)
    cp = arr(curve.get_point(case["create"]["t0"])) + arr(case["create"]["offset"])
    return curve, sc.dist, cp, t["sampled"], sc.ambiguous


def run_curve(ctx, case):
    from classy_blocks.optimize.clamps.curve import CurveClamp

    fam = case["fam"]
    label = f"curve[{fam}]"
    ok, built = _call(ctx, f"{label}:build-curve", lambda: _build_curve(case))
    if not ok:
        return
    curve, dist, cp, tol_member, ambiguous = built
    oracle = _Clamp(label, dist, dist, tol_member, ambiguous)
    init = case["initial_param"]
    if init is not None:
        ctx.count("branch:curve-initial-param")
    ok, clamp = _call(ctx, f"{label}:create", lambda: CurveClamp(np.array(cp), curve, init))
    if not ok:
        return
    ctx.count(f"judged:curve-family:{fam}")
    _judge_clamp(ctx, case, clamp, oracle, cp, case["create"]["cls"], "curve", case["params"])
    spec = case["curve"]
    nt = _nontrivial(spec.get("origin") if fam not in ("line", "linear", "spline") else
                     (spec.get("p1") or spec["points"][0]), spec.get("normal"), case["size"])
    ctx.key(["curve", fam, case["create"]["cls"], init is not None], nt)


def run_surface(ctx, case):
    from classy_blocks.optimize.clamps.surface import ParametricSurfaceClamp

    t = _tols(case["size"])
    fam = case["fam"]
    surf = xg.Surface(case["surface"])
    box = case["bounds"]
    # the family is not part of the mechanism key: what matters structurally is whether scipy runs L-BFGS-B (bounds)
    # or BFGS (no bounds) on the two parameters
    label = f"surface[{'bounded' if box is not None else 'unbounded'}]"
    slack = 1e-9

    def dist(q):
        u, v, res = surf.inverse(q)
        if box is not None:
            # outside the declared box: distance to the surface point with clipped parameters (upper bound of the
            # distance to the patch is not needed: any positive excess beyond the tolerance is off the declared patch)
            uc = min(max(u, box[0][0] - slack), box[0][1] + slack)
            vc = min(max(v, box[1][0] - slack), box[1][1] + slack)
            if uc != u or vc != v:
                return max(res, geom.dist(q, surf.point((uc, vc))))
        return res

    foot = case["create"]["foot"]
    oracle = _Clamp(label, dist, lambda q: surf.min_distance(q, foot, None if box is None else [tuple(b) for b in box]),
                    t["manifold"])
    cp = case["create"]["point"]
    init = case["initial_params"]
    if init is not None:
        ctx.count("branch:surface-initial-params")
    if box is not None:
        ctx.count("branch:surface-bounds")

    def function(params):
        return surf.point(params)

    ok, clamp = _call(ctx, f"{label}:create",
                      lambda: ParametricSurfaceClamp(np.array(cp), function, None if box is None else [list(b) for b in box],
                                                     None if init is None else list(init)))
    if not ok:
        return
    ctx.count(f"judged:surface-family:{fam}")
    _judge_clamp(ctx, case, clamp, oracle, cp, case["create"]["cls"], "surface", case["params"])
    spec = case["surface"]
    ctx.key(["surface", fam, case["create"]["cls"], init is not None, box is not None],
            _nontrivial(spec["origin"], spec.get("A"), case["size"]))


def run_free(ctx, case):
    from classy_blocks.optimize.clamps.free import FreeClamp

    t = _tols(case["size"])
    ok, clamp = _call(ctx, "free:create", lambda: FreeClamp(np.array(case["position"])))
    if not ok:
        return
    oracle = _Clamp("free", lambda q: 0.0, lambda q: 0.0, t["manifold"])
    if not _judge_clamp(ctx, case, clamp, oracle, case["position"], "on", "free", []):
        return
    for p in case["params"]:
        ok, _ = _call(ctx, "free:update_params", lambda p=p: clamp.update_params(np.array(p)))
        if not ok:
            return
        ctx.evaluated()
        ctx.count("judged:sweep:free")
        q = arr(clamp.position)
        if q.shape != (3,) or not (geom.dist(q, p) <= 1e-12 * max(1.0, case["size"])):
            ctx.violation("free:position-differs-from-parameters", f"params {p} -> position {q!r}")
            return
    ctx.key(["free"], _nontrivial(case["position"], None, case["size"]))


def run_link(ctx, case):
    from classy_blocks.optimize import links

    kind, rep, size = case["kind"], case["repr"], case["size"]
    label = f"link:{kind}"
    L0, F0 = arr(case["leader"]), arr(case["follower"])
    leader, follower = _rep(case["leader"], rep), _rep(case["follower"], rep)
    if kind == "translation":
        make = lambda: links.TranslationLink(leader, follower)  # noqa: E731
        targets = [arr(m) for m in case["moves"]]
        expect = lambda cur, i: cur + (F0 - L0)  # noqa: E731
        scale = 1.0
        tol_rel = 1e-9
    elif kind == "rotation":
        axis, origin = case["axis"], case["origin"]
        make = lambda: links.RotationLink(leader, follower, _rep(axis, "array" if rep == "array" else "list"),  # noqa: E731
                                          _rep(origin, "array" if rep == "array" else "list"))
        kdir = geom.unit(axis)

        def drifted(p, slide, factor):
            v = arr(p) - arr(origin)
            ax = np.dot(v, kdir) * kdir
            return arr(origin) + ax + (v - ax) * factor + kdir * slide

        drift = case.get("drift") or [[0.0, 1.0]] * len(case["angles"])
        targets = [drifted(geom.rotate(L0, axis, a, origin), *d) for a, d in zip(case["angles"], drift)]
        for a, d, prev in zip(case["angles"], drift, [0.0] + list(case["angles"][:-1])):
            if a == prev:
                ctx.count("branch:rotation-leader-moved-without-turning" if d != [0.0, 1.0] else "branch:rotation-leader-not-moved")
        angles = case["angles"]
        expect = lambda cur, i: geom.rotate(F0, axis, angles[i], origin) if i >= 0 else F0  # noqa: E731
        tol_rel = 5e-7
    else:
        normal, origin = case["normal"], case["origin"]
        make = lambda: links.SymmetryLink(leader, follower, _rep(normal, "array" if rep == "array" else "list"),  # noqa: E731
                                          _rep(origin, "array" if rep == "array" else "list"))
        targets = [arr(m) for m in case["moves"]]
        expect = lambda cur, i: geom.reflect(cur, normal, origin)  # noqa: E731
        tol_rel = 1e-9
    ok, link = _call(ctx, f"{label}:create[{'int' if rep == 'intlist' else 'float'}-leader]", make)
    if not ok:
        ctx.key([kind, rep, "create-raises"], True)
        return
    nm = len(targets)
    ctx.count("branch:link-zero-move" if nm == 0 else ("branch:link-several-moves" if nm > 1 else "branch:link-one-move"))
    steps = [(-1, None)] if nm == 0 else list(enumerate(targets))
    sign = ""
    bad = False
    for i, target in steps:
        if target is None:
            cur = L0  # a move of size zero: the leader is the one the link was built with
            given = None
        else:
            cur = arr(target)
            given = np.array(cur, dtype=float)  # the array object handed over (GridBase.update hands over the clamp's)
            link.leader = given
            if geom.dist(cur, L0 if i == 0 else targets[i - 1]) > 3 * size:
                ctx.count("branch:large-move")
        before = np.array(link.leader, dtype=float, copy=True)
        ok, _ = _call(ctx, f"{label}:update", link.update)
        if not ok:
            return
        ctx.evaluated()
        # (a) update() must not alter the leader
        ctx.count(f"judged:leader-unchanged:{kind}")
        after = np.asarray(link.leader, dtype=float)
        if after.shape != before.shape or not np.array_equal(after, before) or (given is not None and not np.array_equal(given, cur)):
            ctx.violation(f"{label}:leader-altered-by-update",
                          f"leader before update() {before.tolist()}, after {after.tolist()} (handed-over array now "
                          f"{None if given is None else given.tolist()}); case {_brief(case)}")
            bad = True
        # (b) the follower relation, relative to the leader the caller set
        ctx.count(f"judged:follower:{kind}")
        want = arr(expect(cur, i))
        got = np.asarray(link.follower, dtype=float)
        sc = max(1.0, float(np.max(np.abs(want))), float(np.max(np.abs(cur))), float(np.max(np.abs(F0))))
        if kind == "rotation":
            sc = max(sc, float(np.linalg.norm(F0 - arr(case["origin"]))))
            if i >= 0:
                w = math.remainder(case["angles"][i], 2 * math.pi)
                ctx.count("branch:rotation-angle<0" if w < 0 else "branch:rotation-angle>0")
                if abs(case["angles"][i]) > math.pi:
                    ctx.count("branch:rotation-multi-turn")
                sign += "-" if w < 0 else "+"
        err = float(np.linalg.norm(got - want)) if got.shape == want.shape else math.inf
        _margin(f"link:{kind}", err / (tol_rel * sc))
        if not (err <= tol_rel * sc):  # (a nan follower is a violation, too)
            ctx.violation(f"{label}:follower-relation[{'zero-move' if i < 0 else 'moved'}]",
                          f"step {i}: leader {cur.tolist()} -> follower {got.tolist()}, expected {want.tolist()} "
                          f"(|diff|={err:.3e}); case {_brief(case)}")
            bad = True
        if bad:
            break  # later steps would start from a state that is already wrong
    direction = case.get("axis") or case.get("normal")
    ctx.key([kind, rep, nm, sign], _nontrivial(case.get("origin", case["leader"]), direction, size))


RUNNERS = {"line": run_line, "radial": run_radial, "plane": run_plane, "curve": run_curve, "surface": run_surface,
           "free": run_free, "translation": run_link, "rotation": run_link, "symmetry": run_link}


def run_case(ctx, case):
    ctx.sample(case)
    RUNNERS[case["kind"]](ctx, case)
