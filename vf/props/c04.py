"""C04 — cell-size distribution matches on shared edges and honours `preserve` (DESIGN 3/C04).

Observation points: (1) hooked per-wire Grading.specification at the quiescent point after Mesh.write();
(2) the parsed simpleGrading / edgeGrading of the written file. Both are decoded to physical cell-size
sequences with the independent progression in vf.geom on the straight edge length between lattice nodes."""

import math

import numpy as np

from vf import foamdict, geom, hexconv, lattice, util

ID = "C04"
BUDGET = {"quick": 2600, "thorough": 70000}
REQUIRED = ["judged:shared-edge-sequences", "judged:anti-aligned-shared-edge", "judged:preserve-start/end",
            "judged:preserve-through-flipped-block", "judged:multi-section", "judged:simpleGrading-four-wires-equal",
            "judged:file-vs-hooked-state", "kind:edgeGrading", "kind:simpleGrading", "judged:sandwich-family", "judged:assembly-with-arc-edges",
            "history:write-twice", "history:assemble-grade-write", "history:write-move-write", "unit:2e-06", "unit:0.001", "judged:arc-defined-by-the-first-block-only"]
MIN_KEYS = 40
RULE = (
    "jittered lattice assemblies (all edge lengths distinct), 24 orientations per block, exactly one chopped block per "
    "count family; chops: (count,c2c) / (count,start) / (count,end) / (start,c2c) / (count,total) / count, preserve in "
    "{c2c_expansion,start_size,end_size}, 1-3 sections. non-trivial: family with >=2 distinct edge lengths and "
    "(anti-aligned neighbour or preserve != c2c or multi-section); distinct by (contacts, chop kinds, preserve modes, "
    "#sections, anti-aligned?, flipped chain?)"
)
ASSUMPTIONS = [
    "edges are straight or circular arcs given by a third point: physical length = chord or the analytic arc length (vf.geom)",
    "blockMesh multi-grading semantics (OpenFOAM user guide 4.3.1.3): sections normalised by the sum of fractions",
    "relative tolerance 1e-6 on cell sizes (the library compares gradings with rel 1e-7)",
    "a ValueError for a preserved size that does not fit a short edge counts as 'rejected', not as a violation",
]
RTOL = 1e-6


def axis_geo(blk):
    """{local axis: (lattice direction, sign)} for a case block"""
    perm = hexconv.ROTATIONS[blk["perm"]]
    out = {}
    for d in range(3):
        a, sign = lattice.local_axis_of(perm, d)
        out[a] = (d, sign)
    return out


def gen_chops(rng, scale):
    nsec = rng.choices([1, 2, 3], [0.6, 0.25, 0.15])[0]
    if nsec == 1:
        ratios = [1.0]
    elif nsec == 2:
        a = rng.choice([0.25, 0.3, 0.5, 0.6])
        ratios = [a, 1 - a]
    else:
        ratios = rng.choice([[0.2, 0.5, 0.3], [0.25, 0.25, 0.5], [0.3, 0.4, 0.3]])
    preserve = rng.choices(["c2c_expansion", "start_size", "end_size"], [0.3, 0.35, 0.35])[0]
    chops = []
    for lr in ratios:
        kind = rng.choice(["count+c2c", "count+start", "count+end", "start+c2c", "count+total", "count"])
        n = rng.randint(2, 9)
        r = rng.choice([0.85, 0.9, 1.0, 1.1, 1.2, 1.3])
        s = rng.uniform(0.03, 0.12) * scale * lr
        if kind == "count+c2c":
            kw = {"count": n, "c2c_expansion": r}
        elif kind == "count+start":
            kw = {"count": n, "start_size": s}
        elif kind == "count+end":
            kw = {"count": n, "end_size": s}
        elif kind == "start+c2c":
            kw = {"start_size": s * 1.5, "c2c_expansion": rng.choice([1.0, 1.1, 1.2])}
        elif kind == "count+total":
            kw = {"count": n, "total_expansion": rng.choice([0.4, 1.0, 2.5])}
        else:
            kw = {"count": n}
        kw["preserve"] = preserve
        if lr != 1.0:
            kw["length_ratio"] = lr
        chops.append(kw)
    return chops


def gen_case(ctx):
    rng = ctx.rng
    case = lattice.gen_assembly(rng, jitter=0.15, max_blocks=12)
    fid, fam, _ = lattice.families(case)
    scale = 0.6
    # circular-arc edges of analytically known length on a few lattice edges (node ids < 1000: exact lattice nodes)
    case["arcs"] = {}
    if rng.random() < 0.4:
        pos = {}
        for blk in case["blocks"]:
            for n, p in zip(blk["nodes"], blk["pts"]):
                pos[n] = np.array(p)
        pairs = sorted({tuple(sorted((blk["nodes"][e[0]], blk["nodes"][e[1]]))) for blk in case["blocks"] for e in hexconv.EDGES})
        for pr in rng.sample(pairs, min(len(pairs), rng.randint(1, 4))):
            a, b = pos[pr[0]], pos[pr[1]]
            c = b - a
            perp = np.cross(c, [0.31, 0.57, 0.76])
            perp = perp / np.linalg.norm(perp)
            t = rng.choice([0.35, 0.5, 0.6])
            case["arcs"][f"{pr[0]}-{pr[1]}"] = list(a + c * t + perp * np.linalg.norm(c) * rng.uniform(0.1, 0.3))
    for r in sorted(fam, key=lambda x: fam[x][0]):
        members = fam[r]
        if len(members) >= 3 and rng.random() < 0.35:
            # "sandwich": two chopped blocks of one family that share no edge (equal counts, different expansions), so
            # that an un-chopped block between them copies its wires from both and needs edgeGrading
            pairs = []
            for x in members:
                for y in members:
                    if x < y and not (set(lattice.block_axis_pairs(case["blocks"][x[0]])[x[1]]) &
                                       set(lattice.block_axis_pairs(case["blocks"][y[0]])[y[1]])):
                        pairs.append((x, y))
            if pairs:
                (b1, a1), (b2, a2) = rng.choice(pairs)
                n = rng.randint(2, 9)
                case["blocks"][b1]["chops"].append([a1, {"count": n, "c2c_expansion": rng.choice([1.0, 1.0, 1.15]), "preserve": "c2c_expansion"}])
                case["blocks"][b2]["chops"].append([a2, rng.choice([
                    {"count": n, "start_size": rng.uniform(0.03, 0.12) * scale, "preserve": "start_size"},
                    {"count": n, "end_size": rng.uniform(0.03, 0.12) * scale, "preserve": "end_size"},
                    {"count": n, "c2c_expansion": rng.choice([0.8, 1.25]), "preserve": "c2c_expansion"}])])
                continue
        b, a = rng.choice(members)
        for kw in gen_chops(rng, scale):
            case["blocks"][b]["chops"].append([a, kw])
    if case["arcs"] and rng.random() < 0.5:
        case["arcs_by"] = "first"
    # history on the long-lived mesh: the judged file is the one written last
    case["history"] = rng.choices(["write", "write-twice", "assemble-grade-write", "write-move-write"], [0.5, 0.2, 0.1, 0.2 if not case["arcs"] else 0.0])[0]
    # model unit: the same model built in millimetres / micrometres / tens of metres
    unit = rng.choices([1.0, 1e-3, 2e-6, 40.0], [0.7, 0.1, 0.1, 0.1])[0]
    if unit != 1.0:
        case["unit"] = unit
        for blk in case["blocks"]:
            blk["pts"] = [[x * unit for x in p] for p in blk["pts"]]
            for _, kw in blk["chops"]:
                for k in ("start_size", "end_size"):
                    if k in kw:
                        kw[k] *= unit
        case["arcs"] = {k: [x * unit for x in p] for k, p in case["arcs"].items()}
    return case


def edge_length(case, nodepos, na, nb):
    """physical length of the lattice edge: straight, or the analytic arc through its third point"""
    key = lattice.pair_key(na, nb)
    arcs = case.get("arcs") or {}
    if key in arcs:
        return geom.arc_length_through(nodepos[min(na, nb)], arcs[key], nodepos[max(na, nb)])
    return float(np.linalg.norm(nodepos[na] - nodepos[nb]))


def sizes_of(length, spec):
    return geom.multigrading_sizes(length, spec)


def close(x, y, rtol=RTOL):
    return abs(x - y) <= rtol * max(abs(x), abs(y))


def seq_close(a, b):
    return len(a) == len(b) and all(close(x, y) for x, y in zip(a, b))


def run_case(ctx, case):
    import classy_blocks as cb

    mesh, ops = lattice.build_mesh(case, cb)
    path = util.tmpfile("c04")
    history = case.get("history", "write")
    ctx.count(f"history:{history}")
    ctx.count(f"unit:{case.get('unit', 1.0):g}")
    if history == "write-move-write":
        # the mesh is written, its vertices are moved through the API (a smooth, non-affine map: parallel edges that were equal
        # become unequal), and it is written again: the judged file is the second one, on the moved geometry
        import copy

        got, err = util.write_outcome(mesh, path)
        if got == "success":
            allp = np.array([p for blk in case["blocks"] for p in blk["pts"]], dtype=float)
            c0, ext = allp.mean(axis=0), float(np.max(np.ptp(allp, axis=0))) or 1.0

            def warp(p):
                q = (np.asarray(p, dtype=float) - c0) / ext
                return np.asarray(p, dtype=float) + ext * 0.35 * np.array([q[1] * q[2], q[0] * q[2] * 0.7, -q[0] * q[1] * 0.5])

            for v in mesh.vertices:
                v.move_to(list(warp(v.position)))
            case = copy.deepcopy(case)
            for blk in case["blocks"]:
                blk["pts"] = [list(warp(p)) for p in blk["pts"]]
            got, err = util.write_outcome(mesh, path)
    elif history == "write-twice":
        got, err = util.write_outcome(mesh, path)
        if got == "success":
            got, err = util.write_outcome(mesh, path)
    elif history == "assemble-grade-write":
        try:
            mesh.assemble()
            mesh.grade()
        except Exception:  # noqa: BLE001  (the write below reports the same outcome)
            pass
        got, err = util.write_outcome(mesh, path)
    else:
        got, err = util.write_outcome(mesh, path)
    ctx.evaluated()
    if got != "success":
        util.rm(path)
        if got == "ValueError":
            ctx.count("rejected:ValueError")  # e.g. preserved size does not fit a short edge
            ctx.key(["rejected", str(err)[:30]], nontrivial=False)
            return
        ctx.violation(f"well-posed-model-failed:{got}", f"{got}: {err}")
        return
    parsed = foamdict.read_blockmesh(path)
    util.rm(path)
    blocks = case["blocks"]
    fid, fam, by_pair = lattice.families(case)
    nodepos = {}
    for blk in blocks:
        for n, p in zip(blk["nodes"], blk["pts"]):
            nodepos[n] = np.array(p)

    # ---- per block / axis / wire: spec from the file and from the hooked state ---------------------
    spec_file = {}  # (b, a, k) -> [(lr, n, E)]
    for b, pb in enumerate(parsed["blocks"]):
        ctx.count(f"kind:{pb['kind']}")
        for a in range(3):
            for k in range(4):
                g = pb["grading"][a] if pb["kind"] == "simpleGrading" else pb["grading"][a * 4 + k]
                spec_file[(b, a, k)] = [tuple(s) for s in g] if len(g) > 1 else [(1.0, pb["counts"][a], g[0][2])]
            hooked = [[tuple(s) for s in w.grading.specification] for w in mesh.blocks[b].axes[a].wires]
            ctx.count("judged:file-vs-hooked-state")
            if pb["kind"] == "edgeGrading":
                for k in range(4):
                    if not _spec_eq(spec_file[(b, a, k)], hooked[k], 1e-12):
                        ctx.violation("file-differs-from-wire-state", f"block {b} axis {a} wire {k}: file {spec_file[(b,a,k)]} state {hooked[k]}")
                        return
            else:
                ctx.count("judged:simpleGrading-four-wires-equal")
                for k in range(4):
                    if not _spec_eq(spec_file[(b, a, k)], hooked[k], RTOL):
                        ctx.violation("simpleGrading-but-wires-differ",
                                      f"block {b} axis {a}: written single spec {spec_file[(b,a,0)]} but wire {k} holds {hooked[k]}")
                        return
            if sum(s[1] for s in spec_file[(b, a, 0)]) != pb["counts"][a]:
                ctx.violation("section-counts-vs-block-count", f"block {b} axis {a}: {spec_file[(b,a,0)]} vs {pb['counts'][a]}")
                return

    # ---- (b) every geometric edge: same physical sequence from every block -------------------------
    anti_seen = False
    for pr, users in by_pair.items():
        if len(users) < 2:
            continue
        n0, n1 = sorted(pr)
        length = edge_length(case, nodepos, n0, n1)
        seqs = []
        for b, a, k, directed in users:
            s = sizes_of(length, spec_file[(b, a, k)])
            if directed[0] != n0:
                s = s[::-1]
            seqs.append((b, a, k, directed[0] == n0, s))
        dirs = {x[3] for x in seqs}
        ctx.count("judged:shared-edge-sequences")
        if len(dirs) == 2:
            ctx.count("judged:anti-aligned-shared-edge")
            anti_seen = True
        for other in seqs[1:]:
            if not seq_close(seqs[0][4], other[4]):
                ctx.violation("shared-edge-sequences-differ" + (":anti-aligned" if other[3] != seqs[0][3] else ":aligned"),
                              f"edge {pr} length {length}: block {seqs[0][0]} -> {_short(seqs[0][4])}, block {other[0]} -> {_short(other[4])}")
                return

    # ---- (c) preserve ---------------------------------------------------------------------------
    geo = [axis_geo(blk) for blk in blocks]
    nontrivial = False
    feats = set()
    flipped_chain = False
    for r, members in fam.items():
        chopped = [(b, a) for b, a in members if any(ax == a for ax, _ in blocks[b]["chops"])]
        if len(chopped) == 2:
            # sandwich family: which chop an un-chopped block's free wires follow is the library's choice; the shared-edge,
            # file-vs-state and simpleGrading clauses above are the ones judged here
            ctx.count("judged:sandwich-family")
            feats.add(("sandwich", "", 1))
            continue
        assert len(chopped) == 1
        b0, a0 = chopped[0]
        kws = [kw for ax, kw in blocks[b0]["chops"] if ax == a0]
        d0, s0 = geo[b0][a0]
        # physical lengths
        lens = {}
        for b, a in members:
            for k, e in enumerate(hexconv.AXIS_EDGES[a]):
                na, nb = blocks[b]["nodes"][e[0]], blocks[b]["nodes"][e[1]]
                lens[(b, a, k)] = edge_length(case, nodepos, na, nb)
        lavg = sum(lens[(b0, a0, k)] for k in range(4)) / 4
        distinct_lengths = len({round(v, 9) for v in lens.values()}) >= 2
        lr_sum = sum(kw.get("length_ratio", 1.0) for kw in kws)
        if len(kws) > 1:
            ctx.count("judged:multi-section")
        for i, kw in enumerate(kws):
            preserve = kw["preserve"]
            feats.add((preserve, _kind(kw), len(kws)))
            lr = kw.get("length_ratio", 1.0)
            # spec of section i on the chopped block (all wires have the same count per section)
            n_i = spec_file[(b0, a0, 0)][i][1]
            if "count" in kw and n_i != kw["count"]:
                ctx.violation("section-count-differs-from-chop", f"block {b0} axis {a0} section {i}: chop {kw}, written {n_i}")
                return
            target = _target(kw, preserve, lavg * lr / lr_sum, n_i)
            for b, a in members:
                d, s = geo[b][a]
                same = s == s0
                if not same:
                    flipped_chain = flipped_chain or len(members) >= 3
                nsec = len(spec_file[(b, a, 0)])
                if nsec != len(kws):
                    ctx.violation("section-number-differs", f"block {b} axis {a}: {nsec} sections, chop has {len(kws)}")
                    return
                j = i if same else nsec - 1 - i
                for k in range(4):
                    spec = spec_file[(b, a, k)]
                    tot = sum(x[0] for x in spec)
                    lsec = lens[(b, a, k)] * spec[j][0] / tot
                    if not close(spec[j][0] / tot, lr / lr_sum, 1e-9):
                        ctx.violation("section-length-ratio-differs", f"block {b} axis {a} wire {k}: {spec} vs chop ratios")
                        return
                    sz = geom.progression(lsec, spec[j][1], spec[j][2])
                    first, last = (sz[0], sz[-1]) if same else (sz[-1], sz[0])  # seen from the chopped block's direction
                    n = spec[j][1]
                    if preserve == "c2c_expansion":
                        if n > 1 and target is not None:
                            rr = (last / first) ** (1.0 / (n - 1))
                            ctx.count("judged:preserve-c2c")
                            if not close(rr, target, 1e-6):
                                ctx.violation("c2c-not-preserved" + ("" if same else ":flipped"),
                                              f"family of block {b0} axis {a0} {kw}: block {b} axis {a} wire {k} realises ratio {rr}, wanted {target}")
                                return
                    elif target is not None:
                        val = first if preserve == "start_size" else last
                        ctx.count("judged:preserve-start/end")
                        if not same and (b, a) != (b0, a0):
                            ctx.count("judged:preserve-through-flipped-block")
                        if not close(val, target, RTOL):
                            where = "chopped-block" if (b, a) == (b0, a0) else ("propagated" + ("" if same else ":flipped"))
                            ctx.violation(f"{preserve}-not-preserved:{where}",
                                          f"family of block {b0} axis {a0} {kw} (target {target}): block {b} axis {a} wire {k} "
                                          f"(length {lens[(b,a,k)]:.6f}) has {val} at the geometrically same end")
                            return
        if distinct_lengths and (anti_seen or any(f[0] != "c2c_expansion" for f in feats) or any(f[2] > 1 for f in feats)):
            nontrivial = True
    if case.get("arcs"):
        ctx.count("judged:assembly-with-arc-edges")
        if case.get("arcs_by") == "first":
            ctx.count("judged:arc-defined-by-the-first-block-only")
    ctx.key([lattice.contact_summary(case), sorted(feats), anti_seen, flipped_chain, bool(case.get("arcs")), case.get("arcs_by"), history, case.get("unit", 1.0)], nontrivial=nontrivial)
    ctx.sample({"dims": case["dims"], "blocks": [{"cell": b["cell"], "perm": b["perm"], "chops": b["chops"]} for b in blocks]})


def _kind(kw):
    return "+".join(sorted(k for k in kw if k not in ("preserve", "length_ratio")))


def _target(kw, preserve, lsec_avg, n):
    """the preserved quantity as resolved on the chopped axis (average length), closed form only"""
    if preserve in kw:
        return kw[preserve]
    if preserve == "c2c_expansion":
        if "count" in kw and "total_expansion" in kw:
            return kw["total_expansion"] ** (1.0 / (n - 1)) if n > 1 else None
        if set(kw) - {"preserve", "length_ratio"} == {"count"}:
            return 1.0
        return None  # resolved numerically by the library: only consistency across wires is judged (via shared edges)
    E = None
    if "c2c_expansion" in kw and "count" in kw:
        E = kw["c2c_expansion"] ** (n - 1)
    elif "total_expansion" in kw and "count" in kw:
        E = kw["total_expansion"]
    elif set(kw) - {"preserve", "length_ratio"} == {"count"}:
        E = 1.0
    if E is None:
        return None
    sz = geom.progression(lsec_avg, n, E)
    return sz[0] if preserve == "start_size" else sz[-1]


def _spec_eq(a, b, rtol):
    return len(a) == len(b) and all(
        close(x[0], y[0], rtol) and x[1] == y[1] and close(x[2], y[2], rtol) for x, y in zip(a, b)
    )


def _short(seq):
    return [round(x, 6) for x in seq[:4]] + (["..."] if len(seq) > 4 else [])
