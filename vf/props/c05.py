"""C05 — one vertex per distinct point; duplicates only across merged patches (DESIGN 3/C05).

Reference model: vertex identity = (lattice node, frozenset of slave patches touching that corner), computed
from the hexahedron convention. Observed: hex entries and vertices section of the written file, the hooked
VertexList, and an icontract postcondition on VertexList.add."""

import itertools

import numpy as np

from vf import contracts, foamdict, hexconv, lattice, util

ID = "C05"
BUDGET = {"quick": 1800, "thorough": 60000}
REQUIRED = ["contract:VertexList.add", "judged:shared-node", "judged:merged-pair-disjoint", "judged:insertion-order-pair",
            "judged:near-miss-kept-apart", "judged:slave-copy-shared-on-slave-side", "judged:direct-add-permuted-patches",
            "judged:pairs-meeting-at-a-node", "judged:merge-declared-after-first-assembly", "judged:pairs:shared-master", "judged:pairs:chained", "judged:history:backport-then-one-operation-moved", "judged:assembly-with-projected-corners",
            "judged:all-insertion-orders-of-a-small-assembly"]
MIN_KEYS = 40
RULE = (
    "lattice assemblies whose coincident corners are perturbed by < 0.3*TOL (must merge), optional near-miss copies of a "
    "block shifted by 3.5e-7..1e-5 (must not merge), origins up to +-2000, 0-3 merged pairs declared across lattice planes "
    "(master side / slave side, slave patches spanning several blocks, pairs meeting along an edge / at a node), plain "
    "patches elsewhere, 24 orientations, two insertion orders per model. non-trivial: >= 1 shared node; distinct by "
    "(contact summary, #merged pairs, #slave-side blocks, near-miss?, far-origin?)"
)
ASSUMPTIONS = [
    "merge tolerance TOL = 1e-7 (absolute); the band 0.6*TOL .. 3*TOL is avoided because tolerance clustering is not transitive",
    "vertex identity on the slave side follows the set of slave patches touching the corner (as the statement's 'own copies, "
    "shared among the blocks on the slave side')",
]
TOL = 1e-7


def side_of(blk, nodeset):
    """local side name of a case block whose four corners are exactly the given lattice nodes"""
    for name, corners in hexconv.SIDES.items():
        if {blk["nodes"][c] for c in corners} == set(nodeset):
            return name
    return None


def gen_case(ctx):
    rng = ctx.rng
    case = lattice.gen_assembly(rng, max_blocks=10)
    far = rng.random() < 0.3
    if far:
        off = [rng.choice([-2000.0, 1500.0, 2000.0]) for _ in range(3)]
        for blk in case["blocks"]:
            blk["pts"] = [[p[k] + off[k] for k in range(3)] for p in blk["pts"]]
    # perturb every block's own copy of a node by < 0.3 TOL
    for blk in case["blocks"]:
        blk["pts"] = [[p[k] + rng.uniform(-1, 1) * 0.17 * TOL for k in range(3)] for p in blk["pts"]]
        blk["patches"] = {}
    # merged pairs across lattice planes
    blocks = case["blocks"]
    contacts = []
    for x, y in itertools.combinations(range(len(blocks)), 2):
        common = set(blocks[x]["nodes"]) & set(blocks[y]["nodes"])
        if len(common) == 4:
            cx, cy = blocks[x]["cell"], blocks[y]["cell"]
            d = [k for k in range(3) if cx[k] != cy[k]][0]
            lo, hi = (x, y) if cx[d] < cy[d] else (y, x)
            contacts.append((d, max(cx[d], cy[d]), lo, hi, common))
    npairs = rng.choice([0, 1, 1, 2, 3]) if contacts else 0
    planes = sorted({(c[0], c[1]) for c in contacts})
    rng.shuffle(planes)
    pairs, pair_planes = [], []
    for pi, plane in enumerate(planes[:npairs]):
        m, s = f"m{pi}", f"s{pi}"
        flip = rng.random() < 0.5
        used = False
        for d, i, lo, hi, common in contacts:
            if (d, i) != plane or rng.random() < 0.25:
                continue
            mb, sb = (hi, lo) if flip else (lo, hi)
            ms, ss = side_of(blocks[mb], common), side_of(blocks[sb], common)
            if ms in blocks[mb]["patches"] or ss in blocks[sb]["patches"]:
                continue
            blocks[mb]["patches"][ms] = m
            blocks[sb]["patches"][ss] = s
            used = True
        if used:
            pairs.append([m, s])
            pair_planes.append(plane)
    # several pairs: now and then they share their master patch (one master merged with two slaves), or they are chained
    # (the slave patch of the first pair is the master patch of the second)
    case["pair_style"] = "separate"
    if len(pairs) >= 2 and rng.random() < 0.5:
        # (chained only across parallel planes: where the two planes cross, a corner would be on the doubly-used patch in
        # both roles at once, a configuration the statement does not define)
        parallel = len(pairs) == 2 and pair_planes[0][0] == pair_planes[1][0]
        style = rng.choice(["shared-master", "chained"]) if parallel else "shared-master"
        ren = {pairs[1][0]: pairs[0][0]} if style == "shared-master" else {pairs[0][1]: "x01", pairs[1][0]: "x01"}
        for blk in blocks:
            blk["patches"] = {sd: ren.get(nm, nm) for sd, nm in blk["patches"].items()}
        pairs = [[ren.get(a, a), ren.get(b, b)] for a, b in pairs]
        case["pair_style"] = style
    # plain patches on free sides
    for blk in blocks:
        for name in hexconv.SIDE_NAMES:
            if name not in blk["patches"] and rng.random() < 0.15:
                blk["patches"][name] = rng.choice(["wall", "inlet", "p3"])
    case["pairs"] = pairs
    # near-miss copy of one block
    case["near"] = None
    if rng.random() < 0.35:
        b = rng.randrange(len(blocks))
        delta = rng.choice([3.5e-7, 1e-6, 1e-5])
        axis = rng.randrange(3)
        src = blocks[b]
        cp = {"cell": src["cell"], "perm": src["perm"], "nodes": [f"near{n}" for n in src["nodes"]], "chops": [],
              "pts": [[p[k] + (delta if k == axis else 0.0) for k in range(3)] for p in src["pts"]], "patches": {}}
        blocks.insert(rng.randrange(len(blocks) + 1), cp)
        case["near"] = delta
    order2 = list(range(len(blocks)))
    rng.shuffle(order2)
    case["order2"] = order2
    case["far"] = far
    if rng.random() < 0.3:
        for blk in blocks:
            if rng.random() < 0.5:
                blk["projected"] = rng.sample(range(8), rng.randint(1, 3))
    case["late_merge"] = rng.random() < 0.4
    case["bp_move"] = rng.randrange(1000) if rng.random() < 0.25 else None
    case["all_orders"] = rng.random() < 0.25
    return case


def model_keys(case):
    slaves = {p[1] for p in case["pairs"]}
    keys = []
    for blk in case["blocks"]:
        row = []
        for c in range(8):
            touching = {blk["patches"][s] for s in blk["patches"] if c in hexconv.SIDES[s]}
            row.append((blk["nodes"][c], frozenset(touching & slaves)))
        keys.append(row)
    return keys


def build(case, cb, order, late_merge=False):
    mesh = cb.Mesh()
    ops = []
    for bi in order:
        blk = case["blocks"][bi]
        pts = np.array(blk["pts"], dtype=float)
        op = cb.Loft(cb.Face(pts[:4]), cb.Face(pts[4:]))
        for side, name in blk["patches"].items():
            op.set_patch(side, name)
        for c in blk.get("projected") or []:
            op.project_corner(c, "geoP")  # (only some of the blocks that meet in a point project their corner)
        for a in range(3):
            op.chop(a, count=1)
        mesh.add(op)
        ops.append(op)
    if any(blk.get("projected") for blk in case["blocks"]):
        mesh.add_geometry({"geoP": ["type sphere", "origin (0 0 0)", "radius 5000"]})
    if late_merge:
        # history: pairs declared on an already assembled mesh, which is then cleared and assembled again
        mesh.assemble()
        _ = mesh.patch_list.slave_patches
    for m, s in case["pairs"]:
        mesh.merge_patches(m, s)
    if late_merge:
        mesh.clear()
        mesh.assemble()
    return mesh, ops


def partition_from_file(ctx, case, order, tag):
    import classy_blocks as cb

    mesh, ops = build(case, cb, order, late_merge=(tag == "late-merge"))
    path = util.tmpfile("c05")
    got, err = util.write_outcome(mesh, path)
    ctx.evaluated()
    if got != "success":
        util.rm(path)
        ctx.violation(f"write-failed:{got}", f"{tag}: {err}")
        return None
    parsed = foamdict.read_blockmesh(path)
    util.rm(path)
    # hooked state: dense numbering
    for i, v in enumerate(mesh.vertices):
        if v.index != i:
            ctx.violation("vertex-index-not-position", f"{tag}: mesh.vertices[{i}].index == {v.index}")
            return None
    if len(parsed["vertices"]) != len(mesh.vertices):
        ctx.violation("written-vertex-count", f"{tag}: {len(parsed['vertices'])} written, {len(mesh.vertices)} in the list")
        return None
    for i, v in enumerate(mesh.vertices):
        if np.max(np.abs(np.array(parsed["vertices"][i]["pos"]) - v.position)) > 0.51e-8 + 1e-12 * np.max(np.abs(v.position)):
            ctx.violation("written-vertex-order-or-position", f"{tag}: vertex {i} written at {parsed['vertices'][i]['pos']}, list has {v.position}")
            return None
    return parsed, mesh


def backport_move_history(ctx, case):
    """history: assemble, back-port (nothing moved), move ONE operation away through its own translate(), clear, write:
    the moved block now has eight vertices of its own, every other block is where it was"""
    import copy

    import classy_blocks as cb

    nblocks = len(case["blocks"])
    k = case["bp_move"] % nblocks
    mesh, ops = build(case, cb, list(range(nblocks)))
    mesh.assemble()
    mesh.backport()
    size = max(1.0, float(np.max(np.abs(np.array(case["blocks"][k]["pts"])))))
    D = np.array([0.0, 0.0, 37.0 + 3.0 * size])
    ops[k].translate(list(D))
    mesh.clear()
    path = util.tmpfile("c05h")
    got, err = util.write_outcome(mesh, path)
    ctx.evaluated()
    ctx.count("judged:history:backport-then-one-operation-moved")
    if got != "success":
        util.rm(path)
        ctx.violation(f"write-failed:{got}:after-backport-and-move", f"{err}")
        return
    parsed = foamdict.read_blockmesh(path)
    util.rm(path)
    case2 = copy.deepcopy(case)
    case2["blocks"][k]["nodes"] = [f"moved{n}" for n in case["blocks"][k]["nodes"]]
    case2["blocks"][k]["pts"] = [[p[a] + D[a] for a in range(3)] for p in case["blocks"][k]["pts"]]
    keys = model_keys(case2)
    key2idx = {}
    for bi in range(nblocks):
        idx = parsed["blocks"][bi]["idx"]
        for c in range(8):
            want = np.array(case2["blocks"][bi]["pts"][c])
            have = np.array(parsed["vertices"][idx[c]]["pos"])
            if not float(np.max(np.abs(want - have))) <= 1e-6 * (1 + float(np.max(np.abs(want)))):
                ctx.violation("corner-position-after-backport-and-move" + (":moved-block" if bi == k else ":other-block"),
                              f"block {bi} corner {c} written at {have.tolist()}, expected {want.tolist()} (block {k} was moved by {D.tolist()})")
                return
            if key2idx.setdefault(keys[bi][c], idx[c]) != idx[c]:
                ctx.violation("same-point-two-vertices:after-backport-and-move", f"node {keys[bi][c][0]}: vertices {key2idx[keys[bi][c]]} and {idx[c]}")
                return
    if len(set(key2idx.values())) != len(key2idx):
        ctx.violation("distinct-points-share-a-vertex:after-backport-and-move",
                      f"{len(key2idx)} distinct (node, slave-set) in the model, {len(set(key2idx.values()))} vertices used; block {k} was moved by {D.tolist()}")


def run_case(ctx, case):
    contracts.install(ctx)
    contracts.install_vertexlist(ctx)
    if case.get("bp_move") is not None and not case.get("near"):
        n0 = sum(ctx.mech_counts.values())
        backport_move_history(ctx, case)
        if sum(ctx.mech_counts.values()) > n0:
            return
    keys = model_keys(case)
    nblocks = len(case["blocks"])
    results = []
    runs = [("order1", list(range(nblocks))), ("order2", case["order2"])]
    if nblocks <= 4 and case.get("all_orders"):
        # exhaustive over insertion orders for small assemblies
        for perm in itertools.permutations(range(nblocks)):
            if list(perm) not in (runs[0][1], runs[1][1]):
                runs.append((f"order{perm}", list(perm)))
        ctx.count("judged:all-insertion-orders-of-a-small-assembly")
    if case["pairs"] and case.get("late_merge"):
        runs.append(("late-merge", list(range(nblocks))))
        ctx.count("judged:merge-declared-after-first-assembly")
    for tag, order in runs:
        res = partition_from_file(ctx, case, order, tag)
        if res is None:
            return
        parsed, mesh = res
        if len(parsed["blocks"]) != nblocks:
            ctx.violation("block-count", f"{tag}: {len(parsed['blocks'])} hex entries")
            return
        key2idx, idx2key = {}, {}
        used = set()
        for pos, bi in enumerate(order):
            idx = parsed["blocks"][pos]["idx"]
            for c in range(8):
                k = keys[bi][c]
                i = idx[c]
                used.add(i)
                if i >= len(parsed["vertices"]) or i < 0:
                    ctx.violation("dangling-vertex-index", f"{tag}: block {bi} corner {c} -> {i}")
                    return
                if key2idx.setdefault(k, i) != i:
                    kind = "slave-side-copies-not-shared" if k[1] else "same-point-two-vertices"
                    ctx.violation(kind, f"{tag}: node {k[0]} slave-set {sorted(k[1])}: vertices {key2idx[k]} and {i} (block {bi} corner {c})")
                    return
                if idx2key.setdefault(i, k) != k:
                    o = idx2key[i]
                    if o[0] != k[0]:
                        kind = "different-points-one-vertex" + (":near-miss" if "near" in str(o[0]) + str(k[0]) else "")
                    else:
                        kind = "master-and-slave-side-share-a-vertex"
                    ctx.violation(kind, f"{tag}: vertex {i} used for {o} and {k} (block {bi} corner {c})")
                    return
                # position
                want = np.array(case["blocks"][bi]["pts"][c])
                if np.linalg.norm(np.array(parsed["vertices"][i]["pos"]) - want) > 0.6 * TOL + 1e-8:
                    ctx.violation("vertex-not-at-corner", f"{tag}: block {bi} corner {c} at {want} -> vertex {i} at {parsed['vertices'][i]['pos']}")
                    return
        if used != set(range(len(parsed["vertices"]))):
            ctx.violation("vertex-numbers-not-dense", f"{tag}: {len(parsed['vertices'])} vertices written, hex entries use {len(used)}")
            return
        if len(key2idx) != len(parsed["vertices"]):
            ctx.violation("vertex-count-differs-from-model", f"{tag}: model has {len(key2idx)} distinct (node, slave-set), file {len(parsed['vertices'])}")
            return
        # merged pairs: master quads and slave quads share no vertex
        patches = {p["name"]: p for p in parsed["boundary"]}
        # (judged per contact: with a shared master or chained pairs one block may be on the slave side of one plane and on
        # the master side of another, so whole patches may legitimately have a vertex in common along the planes' intersection)
        blks = case["blocks"]
        for x, y in itertools.combinations(range(nblocks), 2):
            common = set(blks[x]["nodes"]) & set(blks[y]["nodes"])
            if len(common) != 4:
                continue
            sx, sy = side_of(blks[x], common), side_of(blks[y], common)
            nx_, ny_ = blks[x]["patches"].get(sx), blks[y]["patches"].get(sy)
            if [nx_, ny_] not in case["pairs"] and [ny_, nx_] not in case["pairs"]:
                continue
            vx = {parsed["blocks"][order.index(x)]["idx"][c] for c in hexconv.SIDES[sx]}
            vy = {parsed["blocks"][order.index(y)]["idx"][c] for c in hexconv.SIDES[sy]}
            ctx.count("judged:merged-contact-disjoint")
            if vx & vy:
                ctx.violation("master-and-slave-quads-share-vertices", f"{tag}: blocks {x} ({nx_}) and {y} ({ny_}) face each other across a merged pair but share vertices {sorted(vx & vy)}")
                return
        for m, s in case["pairs"]:
            mv = {i for q in patches.get(m, {"faces": []})["faces"] for i in q}
            sv = {i for q in patches.get(s, {"faces": []})["faces"] for i in q}
            ctx.count("judged:merged-pair-disjoint")
            if not mv or not sv:
                ctx.violation("merged-patch-without-faces", f"{tag}: pair ({m} {s}): {len(mv)} / {len(sv)} vertices")
                return
        part = frozenset(frozenset((bi, c) for bi in range(nblocks) for c in range(8) if parsed["blocks"][order.index(bi)]["idx"][c] == i)
                         for i in used)
        results.append(part)
    ctx.count("judged:insertion-order-pair")
    for (tag, order), part in zip(runs[1:], results[1:]):
        if part != results[0]:
            if tag == "late-merge":
                ctx.violation("partition-depends-on-when-merge-was-declared", "merge_patches after assemble + clear + assemble groups corners differently")
            else:
                ctx.violation("partition-depends-on-insertion-order", f"order {order} groups corners differently from the natural order")
            return
    # coverage counters / key
    nodes = {}
    for bi in range(nblocks):
        for c in range(8):
            nodes.setdefault(keys[bi][c][0], set()).add(bi)
    shared = sum(1 for v in nodes.values() if len(v) >= 2)
    ctx.count("judged:shared-node", shared)
    slave_keys = {}
    for bi in range(nblocks):
        for c in range(8):
            if keys[bi][c][1]:
                slave_keys.setdefault(keys[bi][c], set()).add(bi)
    if any(len(v) >= 2 for v in slave_keys.values()):
        ctx.count("judged:slave-copy-shared-on-slave-side")
    if any(len(k[1]) >= 2 for k in slave_keys):
        ctx.count("judged:pairs-meeting-at-a-node")
    if case["near"]:
        ctx.count("judged:near-miss-kept-apart")
    nslave_blocks = len({bi for v in slave_keys.values() for bi in v})
    if any(blk.get("projected") for blk in case["blocks"]):
        ctx.count("judged:assembly-with-projected-corners")
    if case.get("pair_style", "separate") != "separate":
        ctx.count("judged:pairs:" + case["pair_style"])
    ctx.key([lattice.contact_summary(case), len(case["pairs"]), case.get("pair_style"), nslave_blocks, bool(case["near"]), case["far"]], nontrivial=shared > 0)
    ctx.sample({"blocks": [{"cell": b["cell"], "perm": b["perm"], "patches": b["patches"]} for b in case["blocks"]],
                "pairs": case["pairs"], "near_miss": case["near"], "order2": case["order2"]})
    direct_add(ctx, case)


def direct_add(ctx, case):
    """hostile direct calls: the same slave-patch set in another order is the same vertex"""
    from classy_blocks.construct.point import Point
    from classy_blocks.lists.vertex_list import VertexList

    vl = VertexList()
    p = case["blocks"][0]["pts"][0]
    a = vl.add(Point(p), ["sb", "sa", "sc"])
    b = vl.add(Point([p[0] + 2e-8, p[1], p[2]]), ["sa", "sc", "sb"])
    c = vl.add(Point(p), ["sa"])
    d = vl.add(Point(p), [])
    e = vl.add(Point([p[0], p[1] - 2e-8, p[2]]), [])
    f = vl.add(Point([p[0] + 5e-7, p[1], p[2]]), ["sa"])
    ctx.count("judged:direct-add-permuted-patches")
    if a is not b:
        ctx.violation("direct-add:patch-order-matters", f"add(p, [sb,sa,sc]) -> {a.index}, add(p, [sa,sc,sb]) -> {b.index}")
    elif len({a.index, c.index, d.index}) != 3:
        ctx.violation("direct-add:different-slave-sets-share-a-vertex", f"{a.index} {c.index} {d.index}")
    elif d is not e:
        ctx.violation("direct-add:same-point-two-vertices", f"{d.index} {e.index}")
    elif f is c:
        ctx.violation("direct-add:different-points-one-vertex", f"{f.index} {c.index}")
    elif [v.index for v in vl.vertices] != list(range(len(vl.vertices))):
        ctx.violation("direct-add:indexes-not-dense", str([v.index for v in vl.vertices]))
