"""C19 — grid / slice / core-shell addressing of sketches, shapes and stacks is geometric (DESIGN 3/C19).

Reference model: the position of every addressed entity is PREDICTED from the case's own numbers (cell corners of the
cartesian grid from np.linspace, tier transform applied k times with vf.geom's Rodrigues rotation / scaling /
translation, analytic outer curve of every round sketch / shape) and compared with the position of the object the real
library returns for that address. Observation points: the objects behind `grid`, `get_slice`, `core`, `shell`, and the
written blockMeshDict (vf.foamdict) after chopping / deleting addressed operations."""

import itertools
import math
import random

import numpy as np

from vf import foamdict, geom, hexconv, util
from vf import xc19_round as xr

ID = "C19"
BUDGET = {"quick": 2000, "thorough": 60000}
MIN_KEYS = 60
REQUIRED = [
    "judged:slice:negative-index", "judged:file:unrelated-block-kept",
    "judged:grid-address", "judged:grid-address:Grid", "judged:grid-address:round-base",
    "judged:slice:axis0", "judged:slice:axis1", "judged:slice:axis2",
    "container:ExtrudedStack", "container:RevolvedStack", "container:TransformedStack",
    "container:ExtrudedShape", "container:RevolvedShape",
    "judged:sketch-core-shell", "judged:sketch-grid-levels", "judged:shape-core-shell", "judged:shape-grid-levels",
    "judged:file:delete-by-address", "judged:file:chop-location", "judged:file:round-delete",
    "nontrivial:nx-ny-tiers-pairwise-different", "placed:post-transform", "reached:core-op-judged",
    "reached:shell-op-judged", "judged:deleted-before-the-entity-was-added", "judged:three-level-sketch-core-shell", "judged:operation-deleted-twice", "judged:addresses-after-assemble-and-backport", "judged:second-mesh-with-the-same-entity",
    "judged:addresses-of-a-mirrored-entity",
]
RULE = (
    "stack family: base = cb.Grid nx x ny (1..5 x 1..5, random rectangle, placed by random rotate/translate/scale) or "
    "one of 13 round sketches in a random frame; container = Extruded / Revolved / Transformed stack with 1..4 tiers "
    "(float and vector amounts, in-plane and generic revolution axes, translation+rotation+scaling tier transforms) or "
    "Extruded / Revolved shape; optional rigid placement of the finished stack; every index of grid and every "
    "get_slice(axis, n) judged against predicted cell positions; on a sub-set the mesh is chopped through addresses "
    "(distinct counts per column / row / tier), addressed operations are deleted and the written file is parsed. "
    "round family: every disk / oval / annulus / spline sketch and every round shape (Cylinder, SemiCylinder, Frustum, "
    "Elbow, ExtrudedRing, RevolvedRing, Hemisphere and their chain / fill / expand / contract constructors) in random "
    "frames and placements: core / shell / grid levels against the analytic outer curve; delete by address + written "
    "file. non-trivial: Grid cases with nx, ny, tiers pairwise different, round cases with >= 2 operations; distinct by "
    "(family, base class, container, nx, ny, tiers, placement kinds, write mode)"
)
ASSUMPTIONS = [
    "column = index along the first (x) direction of cb.Grid, row = along its second (y) direction, tier = number of "
    "applications of the stack's tier transform; get_slice axis 0/1/2 = column/row/tier (Stack.get_slice docstring)",
    "tier k of a TransformedStack spans T^k(base) .. T^(k+1)(base); ExtrudedStack: T = translation by amount/repeats "
    "(a float amount is taken along the right-hand normal of the base), RevolvedStack: T = rotation by angle/repeats",
    "an addressed operation is located by the centres of its bottom / top face: the nearest predicted cell must be the "
    "addressed one (only the cell decision is judged, not the distance); predicted centres closer than 1e-3 cell sizes "
    "to each other make the case degenerate (skipped, counted)",
    "outer curve: circle |p-c| = R (disks, annulus), stadium dist(p, c1c2) = R (Oval), rounded rectangle / ellipse "
    "(spline sketches; rings: outer radii r + w), sphere (Hemisphere), revolved outer edge p2-p3 (RevolvedRing); an "
    "entity touches it when one of its vertices is on it within 1e-6 R (interior vertices sit at <= 0.8 R)",
    "WrappedDisk: three radial grid levels; its core / shell are judged on (not) touching the outer curve, not as a partition (the middle ring is neither); "
    "QuarterSplineRing-type sketches may report core = None (taken as empty)",
    "written file: vertices printed with 8 decimals, matched within 1e-6 (1 + |coordinate|); a hex is located by the "
    "centre of its 8 vertices, its local axes by the mean of the 4 parallel edges (hexconv, OpenFOAM user guide)",
    "get_slice(0|1, n) is judged only for cartesian (cb.Grid) bases, as its docstring restricts it; valid indices are "
    "0..n-1 and the Python negative indices -n..-1 (examples/stack/cube.py uses get_slice(0, -1))",
    "chops placed through addresses use count= only (one distinct count per column / row / tier, or one uniform count "
    "on round shapes), so the written counts depend on addressing and propagation alone; a write stopped by the "
    "propagation step budget is C02's clause and is skipped (counted)",
    "entities whose constructor raises for the generated (valid) parameters are counted as construct-rejected and not "
    "judged; the REQUIRED counters make a run in which a whole class is rejected INCONCLUSIVE",
]

STACKS = ["ExtrudedStack", "RevolvedStack", "TransformedStack"]
CONTAINERS = STACKS + ["ExtrudedShape", "RevolvedShape"]
SEP_MIN = 1e-3


# =================================================================================================
# generation
# =================================================================================================
def _gen_dims(rng):
    if rng.random() < 0.8:
        while True:
            nx, ny, nt = rng.randint(1, 5), rng.randint(1, 5), rng.randint(1, 4)
            if len({nx, ny, nt}) == 3:
                return nx, ny, nt
    return rng.randint(1, 5), rng.randint(1, 5), rng.randint(1, 4)


def _gen_grid_base(rng):
    nx, ny, nt = _gen_dims(rng)
    p1 = [rng.uniform(-3, 3), rng.uniform(-3, 3)]
    dx, dy = rng.uniform(0.3, 2.0), rng.uniform(0.3, 2.0)
    base = {"cls": "Grid", "p1": p1, "p2": [p1[0] + nx * dx, p1[1] + ny * dy], "nx": nx, "ny": ny}
    u = rng.random()
    if u < 0.15:
        pre = []
    else:
        pre = [{"t": "rotate", "axis": geom.rand_unit(rng).tolist(), "angle": rng.uniform(-math.pi, math.pi),
                "origin": geom.rand_vec(rng, -3, 3)},
               {"t": "translate", "v": geom.rand_vec(rng, -5, 5)}]
        if rng.random() < 0.2:
            pre.append({"t": "scale", "ratio": rng.uniform(0.5, 2.0), "origin": geom.rand_vec(rng, -3, 3)})
        rng.shuffle(pre)
    return base, pre, nt


def _base_frame(base, pre):
    """origin, in-plane directions, normal and size of the placed base (own arithmetic)"""
    if base["cls"] == "Grid":
        o = xr.tf_points([base["p1"][0], base["p1"][1], 0.0], pre)
        e1, e2, e3 = (xr.tf_vec(v, pre) for v in ([1, 0, 0], [0, 1, 0], [0, 0, 1]))
        s = xr.tf_ratio(pre)
        w, h = (base["p2"][0] - base["p1"][0]) * s, (base["p2"][1] - base["p1"][1]) * s
        corners = [o, o + w * e1, o + w * e1 + h * e2, o + h * e2]
        return o, e1, e2, e3, corners, min(w / base["nx"], h / base["ny"])
    c, e1, e2, e3 = xr._fr(base)
    ext = max(base.get("R", 0), base.get("L", 0), base.get("a1", 0) + base.get("w1", 0),
              base.get("a2", 0) + base.get("w2", 0)) + base.get("d", 0)
    corners = [c + ext * (sx * e1 + sy * e2) for sx, sy in ((-1, -1), (1, -1), (1, 1), (-1, 1))]
    return c, e1, e2, e3, corners, ext / 3


def _gen_container(rng, base, pre, nt, cls=None):
    o, e1, e2, e3, corners, size = _base_frame(base, pre)
    cls = cls or rng.choice(CONTAINERS + STACKS)
    if cls.endswith("Shape"):
        nt = 1
    con = {"cls": cls, "nt": nt}
    if cls.startswith("Extruded"):
        if rng.random() < 0.5:
            con["amount"] = rng.choice([-1, 1]) * rng.uniform(0.3, 3.0) * nt
        else:
            v = e3 * rng.choice([-1, 1]) * rng.uniform(0.3, 3.0) * nt + (e1 * rng.uniform(-1, 1) + e2 * rng.uniform(-1, 1)) * nt * (rng.random() < 0.6)
            con["amount"] = v.tolist()
    elif cls.startswith("Revolved"):
        if rng.random() < 0.75:
            # axis in the plane of the sketch, the whole sketch on one side of it
            phi = rng.uniform(0, 2 * math.pi)
            d = math.cos(phi) * e1 + math.sin(phi) * e2
            m = -math.sin(phi) * e1 + math.cos(phi) * e2
            mmin = min(float(np.dot(c - o, m)) for c in corners)
            gap = rng.uniform(0.3, 3.0) * max(size, 0.2)
            origin = o + (mmin - gap) * m + rng.uniform(-3, 3) * d
            if rng.random() < 0.5:
                d = -d
            total = rng.uniform(0.15, 1.45) * nt if rng.random() < 0.7 else rng.uniform(0.3, 1.9 * math.pi)
            total = min(total, 1.9 * math.pi)
            con.update({"axis": (d * rng.uniform(0.5, 2)).tolist(), "origin": origin.tolist(), "angle": total, "axis_kind": "in-plane"})
        else:
            con.update({"axis": geom.rand_unit(rng).tolist(), "origin": (o + geom.arr(geom.rand_vec(rng, -6, 6))).tolist(),
                        "angle": rng.uniform(0.2, 1.2) * nt * rng.choice([-1, 1]), "axis_kind": "generic"})
    else:
        end = [{"t": "translate", "v": (e3 * rng.uniform(0.4, 2.0) * rng.choice([-1, 1]) + geom.arr(geom.rand_vec(rng, -0.5, 0.5))).tolist()}]
        mid = None
        if rng.random() < 0.6:
            ang = rng.uniform(0.15, min(1.2, 1.9 * math.pi / nt)) * rng.choice([-1, 1])
            rot = {"t": "rotate", "axis": (e3 + 0.3 * geom.arr(geom.rand_vec(rng))).tolist() if rng.random() < 0.6 else geom.rand_unit(rng).tolist(),
                   "angle": ang, "origin": (o + geom.arr(geom.rand_vec(rng, -2, 2))).tolist()}
            end.append(rot)
            if rng.random() < 0.5:
                mid = [{"t": "translate", "v": (geom.arr(end[0]["v"]) / 2).tolist()}, dict(rot, angle=ang / 2)]
        if rng.random() < 0.4:
            end.append({"t": "scale", "ratio": rng.uniform(0.75, 1.3), "origin": (o + geom.arr(geom.rand_vec(rng, -2, 2))).tolist()})
        if mid is None:
            rng.shuffle(end)
        con.update({"end": end, "mid": mid})
    return con


def _gen_write(rng, base, con, dims):
    """dims: list of level sizes of the base grid ([nx]*ny for Grid)"""
    nt = con["nt"]
    nblocks = sum(dims) * nt
    if rng.random() > min(1.0, 14.0 / nblocks):
        return None
    cells = [(k, l, n) for k in range(nt) for l in range(len(dims)) for n in range(dims[l])]
    w = {"c": rng.sample(range(13, 19), nt)}
    if base["cls"] == "Grid":
        w["a"] = rng.sample(range(1, 7), base["nx"])
        w["b"] = rng.sample(range(7, 13), base["ny"])
    else:
        w["n"] = rng.randint(1, 6)
    ndel = 0
    if nblocks > 1 and rng.random() < 0.7:
        ndel = rng.randint(1, min(3, nblocks - 1))
    w["delete"] = [list(c) for c in rng.sample(cells, ndel)]
    w["extra"] = rng.choice([None, None, "before", "after"])
    w["delete_first"] = rng.random() < 0.3  # the addressed operations are deleted before the entity is added (assembly is lazy)
    w["delete_twice"] = rng.random() < 0.3
    w["backport_first"] = rng.random() < 0.25 and not w["delete_first"]
    if ndel:
        w["mode"] = "all"
    else:
        w["mode"] = "carriers"
        car = {"2": [list(rng.choice([c for c in cells if c[0] == k])) for k in range(nt)]}
        if base["cls"] == "Grid":
            car["0"] = [list(rng.choice([c for c in cells if c[2] == i])) for i in range(base["nx"])]
            car["1"] = [list(rng.choice([c for c in cells if c[1] == j])) for j in range(base["ny"])]
        w["carriers"] = car
    return w


def _gen_post(rng):
    if rng.random() < 0.6:
        return []
    tfs = [t for t in xr.gen_placement(rng, allow_scale=False)] or [{"t": "translate", "v": geom.rand_vec(rng, -5, 5)}]
    if rng.random() < 0.4:
        # a mirror (every operation swaps its bottom and top face), anywhere in the sequence
        tfs.insert(rng.randrange(len(tfs) + 1), {"t": "mirror", "normal": geom.rand_unit(rng).tolist(), "origin": geom.rand_vec(rng, -3, 3)})
    return tfs


ROUND_DIMS = {"OneCoreDisk": [1, 4], "FourCoreDisk": [4, 8], "HalfDisk": [2, 4], "QuarterDisk": [1, 2], "WrappedDisk": [1, 4, 4],
              "Oval": [6, 10], "QuarterSplineDisk": [1, 2], "HalfSplineDisk": [2, 4], "SplineDisk": [4, 8],
              "QuarterSplineRing": [2], "HalfSplineRing": [4], "SplineRing": [8]}


def _round_dims(base):
    return [base["nseg"]] if base["cls"] == "Annulus" else ROUND_DIMS[base["cls"]]


def gen_stack_case(rng, grid_base=True, container=None, sketch_cls=None):
    if grid_base:
        base, pre, nt = _gen_grid_base(rng)
        dims = [base["nx"]] * base["ny"]
    else:
        base, pre, nt = xr.gen_sketch_spec(rng, sketch_cls), [], rng.randint(1, 4)
        dims = _round_dims(base)
    con = _gen_container(rng, base, pre, nt, container)
    return {"fam": "stack", "base": base, "pre": pre, "container": con, "post": _gen_post(rng),
            "write": _gen_write(rng, base, con, dims)}


def gen_round_case(rng, what=None, cls=None):
    what = what or rng.choice(["sketch", "shape", "shape"])
    post = xr.gen_placement(rng) if rng.random() < 0.5 else []
    if rng.random() < 0.25:
        post.insert(rng.randrange(len(post) + 1), {"t": "mirror", "normal": geom.rand_unit(rng).tolist(), "origin": geom.rand_vec(rng, -3, 3)})
    if what == "sketch":
        return {"fam": "round", "what": "sketch", "spec": xr.gen_sketch_spec(rng, cls), "post": post}
    spec = xr.gen_shape_spec(rng, cls)
    write = None
    if rng.random() < 0.5:
        u = rng.random()
        write = {"n": rng.randint(1, 6), "delete": [[rng.choice(["core", "shell", "grid", "operations"]), rng.randrange(10**6)]
                                                     for _ in range(0 if u < 0.15 else 1 if u < 0.7 else 2)],
                 "delete_first": rng.random() < 0.3}
    return {"fam": "round", "what": "shape", "spec": spec, "post": post, "write": write}


def gen_case(ctx):
    rng = ctx.rng
    u = rng.random()
    if u < 0.5:
        return gen_stack_case(rng, True)
    if u < 0.7:
        return gen_stack_case(rng, False)
    return gen_round_case(rng)


def fixed_cases(tier):
    """every class once (twice in thorough), so that no run depends on the random draw to reach a class"""
    rng = random.Random(f"C19-fixed-{tier}")
    cases = []
    for _ in range(1 if tier == "quick" else 3):
        for cls in xr.SKETCHES:
            cases.append(gen_round_case(rng, "sketch", cls))
        for kind in xr.SHAPES:
            cases.append(gen_round_case(rng, "shape", kind))
        for con in CONTAINERS:
            cases.append(gen_stack_case(rng, True, con))
            cases.append(gen_stack_case(rng, False, con))
    return cases


# =================================================================================================
# stack family
# =================================================================================================
def _ids(objs):
    return sorted(id(o) for o in objs)


def _grid_cells(base, pre):
    xs = np.linspace(base["p1"][0], base["p2"][0], base["nx"] + 1)
    ys = np.linspace(base["p1"][1], base["p2"][1], base["ny"] + 1)
    cells = []
    for j in range(base["ny"]):
        row = []
        for i in range(base["nx"]):
            quad = [[xs[i], ys[j], 0.0], [xs[i + 1], ys[j], 0.0], [xs[i + 1], ys[j + 1], 0.0], [xs[i], ys[j + 1], 0.0]]
            row.append(xr.tf_points(quad, pre))
        cells.append(row)
    return cells


def _tier_transform(con, normal):
    nt = con["nt"]
    if con["cls"].startswith("Extruded"):
        amount = con["amount"]
        v = geom.arr(normal) * amount / nt if isinstance(amount, (int, float)) else geom.arr(amount) / nt
        return [{"t": "translate", "v": v.tolist()}]
    if con["cls"].startswith("Revolved"):
        return [{"t": "rotate", "axis": con["axis"], "angle": con["angle"] / nt, "origin": con["origin"]}]
    return con["end"]


def _build_container(cb, con, sketch):
    cls, nt = con["cls"], con["nt"]
    if cls == "ExtrudedStack":
        return cb.ExtrudedStack(sketch, con["amount"], nt)
    if cls == "RevolvedStack":
        return cb.RevolvedStack(sketch, con["angle"], con["axis"], con["origin"], nt)
    if cls == "TransformedStack":
        return cb.TransformedStack(sketch, xr.lib_tfs(cb, con["end"]), nt, None if con["mid"] is None else xr.lib_tfs(cb, con["mid"]))
    if cls == "ExtrudedShape":
        return cb.ExtrudedShape(sketch, con["amount"])
    if cls == "RevolvedShape":
        return cb.RevolvedShape(sketch, con["angle"], con["axis"], con["origin"])
    raise ValueError(cls)


class Lattice:
    """predicted cells: index (k, l, n) -> bottom quad, top quad"""

    def __init__(self, cells, tier_tf, nt, post):
        self.index, bots, tops = [], [], []
        cur = [[np.array(q) for q in lvl] for lvl in cells]
        for k in range(nt):
            nxt = [[xr.tf_points(q, tier_tf) for q in lvl] for lvl in cur]
            for l, lvl in enumerate(cur):
                for n, q in enumerate(lvl):
                    self.index.append((k, l, n))
                    bots.append(xr.tf_points(q, post))
                    tops.append(xr.tf_points(nxt[l][n], post))
            cur = nxt
        self.bots, self.tops = np.array(bots), np.array(tops)  # (N, 4, 3)
        self.bc, self.tc = self.bots.mean(axis=1), self.tops.mean(axis=1)
        self.cc = (self.bc + self.tc) / 2
        self.pos = {idx: m for m, idx in enumerate(self.index)}
        diam = np.linalg.norm(self.bots[:, 0] - self.bots[:, 2], axis=1)
        self.char = float(np.median(diam))

    def separation(self):
        worst = np.inf
        for arr in (self.bc, self.tc, self.cc):
            if len(arr) > 1:
                d = np.linalg.norm(arr[:, None, :] - arr[None, :, :], axis=2)
                d[np.diag_indices(len(arr))] = np.inf
                worst = min(worst, float(d.min()))
        return worst / self.char

    def nearest(self, arr, p):
        return self.index[int(np.argmin(np.linalg.norm(arr - np.asarray(p, dtype=float), axis=1)))]

    def directions(self, m):
        """lattice directions of cell m: first / second edge of the face, bottom -> top"""
        q = np.concatenate((self.bots[m], self.tops[m]))
        return [sum(q[b] - q[a] for a, b in hexconv.AXIS_EDGES[ax]) / 4 for ax in range(3)]


def _wrong_dims(want, got):
    names = ("tier", "level/row", "index/column")
    return "+".join(nm for nm, a, b in zip(names, want, got) if a != b) or "none"


def run_stack(ctx, case, cb):
    base, pre, con, post = case["base"], case["pre"], case["container"], case["post"]
    is_grid = base["cls"] == "Grid"
    tag = f"{con['cls']}:{base['cls']}"
    # ---- build with the real library -------------------------------------------------------------
    try:
        if is_grid:
            sketch = cb.Grid([*base["p1"], 0], [*base["p2"], 0], base["nx"], base["ny"])
            xr.lib_place(sketch, pre)
        else:
            sketch = xr.build_sketch(cb, base)
    except Exception as err:  # noqa: BLE001
        ctx.count(f"construct-rejected:{base['cls']}:{type(err).__name__}")
        return
    if is_grid:
        cells = _grid_cells(base, pre)
        normal = xr.tf_vec([0, 0, 1], pre)
    else:
        _judge_sketch(ctx, base["cls"], sketch, xr.SketchOracle(base))
        try:
            cells = [[np.array(f.point_array, dtype=float) for f in lvl] for lvl in sketch.grid]
        except Exception as err:  # noqa: BLE001
            ctx.count(f"sketch-grid-unreadable:{base['cls']}:{type(err).__name__}")
            return
        normal = base["e3"]
    nt = con["nt"]
    try:
        entity = _build_container(cb, con, sketch)
        xr.lib_place(entity, post)
    except Exception as err:  # noqa: BLE001
        ctx.count(f"construct-rejected:{tag}:{type(err).__name__}")
        return
    lat = Lattice(cells, _tier_transform(con, normal), nt, post)
    ctx.evaluated()
    ctx.count(f"container:{con['cls']}")
    if post:
        ctx.count("placed:post-transform")
    dims = [len(lvl) for lvl in cells]
    pairwise = is_grid and len({base["nx"], base["ny"], nt}) == 3
    nontrivial = pairwise if is_grid else sum(dims) * nt >= 2
    if pairwise:
        ctx.count("nontrivial:nx-ny-tiers-pairwise-different")
    wmode = "none" if not case["write"] else case["write"]["mode"] + f"/del{min(len(case['write']['delete']), 1)}"
    ctx.key(["stack", base["cls"], base.get("variant"), con["cls"], con.get("axis_kind"), isinstance(con.get("amount"), list),
             base.get("nx"), base.get("ny"), nt, sorted(t["t"] for t in post), wmode], nontrivial=nontrivial)
    ctx.sample({"base": {k: v for k, v in base.items() if k not in ("e1", "e2", "e3")}, "container": con["cls"], "tiers": nt,
                "post": [t["t"] for t in post], "write": wmode})
    sep = lat.separation()
    if not sep > SEP_MIN:
        ctx.count("skipped:degenerate-prediction")
        return

    # ---- (1) grid[k][l][n] ------------------------------------------------------------------------
    try:
        grid = entity.grid
        if con["cls"].endswith("Shape"):
            grid = [grid]
        grid = [[list(lvl) for lvl in tierg] for tierg in grid]
        all_ops = list(entity.operations)
    except Exception as err:  # noqa: BLE001
        ctx.violation(f"grid-unavailable:{tag}:{type(err).__name__}", f"{tag}: grid / operations raised {err!r}")
        return
    shape_got = [[len(lvl) for lvl in tierg] for tierg in grid]
    if shape_got != [dims] * nt:
        ctx.violation(f"grid-shape:{tag}", f"{tag}: grid has shape {shape_got}, expected {nt} tiers x {dims} "
                      f"(nx={base.get('nx')}, ny={base.get('ny')})")
        return
    flat = [op for tierg in grid for lvl in tierg for op in lvl]
    if _ids(flat) != _ids(all_ops) or len(set(_ids(flat))) != len(flat):
        ctx.violation(f"grid-vs-operations:{tag}", f"{tag}: grid holds {len(flat)} entries ({len(set(_ids(flat)))} distinct), "
                      f"operations {len(all_ops)}; not the same objects each once")
        return
    located = {}
    swapped = sum(1 for t in post if t["t"] == "mirror") % 2 == 1
    if swapped:
        ctx.count("judged:addresses-of-a-mirrored-entity")
    for (k, l, n) in lat.index:
        op = grid[k][l][n]
        bc = np.asarray(op.bottom_face.point_array, dtype=float).mean(axis=0)
        tc = np.asarray(op.top_face.point_array, dtype=float).mean(axis=0)
        if swapped:
            bc, tc = tc, bc  # an odd number of mirrors: every operation has exchanged its bottom and top face
        kb, kt = lat.nearest(lat.bc, bc), lat.nearest(lat.tc, tc)
        located[id(op)] = kb
        ctx.count("judged:grid-address")
        if kb != (k, l, n) or kt != (k, l, n):
            ctx.violation(
                f"grid-address:{tag}:wrong-{_wrong_dims((k, l, n), kb if kb != (k, l, n) else kt)}",
                f"{tag} nx={base.get('nx')} ny={base.get('ny')} tiers={nt}: grid[{k}][{l}][{n}] has its bottom face centre "
                f"{bc.round(6).tolist()} in predicted cell (tier,row,col)={kb} and its top face centre in {kt}; predicted "
                f"bottom centre of the addressed cell {lat.bc[lat.pos[(k, l, n)]].round(6).tolist()}")
            return
    ctx.count("judged:grid-address:Grid" if is_grid else "judged:grid-address:round-base")

    # ---- (2) slices -------------------------------------------------------------------------------
    if con["cls"] in STACKS:
        axes = [(0, base["nx"], 2), (1, base["ny"], 1), (2, nt, 0)] if is_grid else [(2, nt, 0)]
        for axis, count, pos in axes:
            for idx in list(range(count)) + list(range(-count, 0)):
                want = sorted(c for c in lat.index if c[pos] == idx % count)
                neg = ":negative-index" if idx < 0 else ""
                try:
                    ops = list(entity.get_slice(axis, idx))
                except Exception as err:  # noqa: BLE001
                    ctx.violation(f"slice-raises:axis{axis}:{tag}:{type(err).__name__}{neg}",
                                  f"{tag} nx={base.get('nx')} ny={base.get('ny')} tiers={nt}: get_slice({axis}, {idx}) raised {err!r}")
                    return
                ctx.count(f"judged:slice:axis{axis}")
                if idx < 0:
                    ctx.count("judged:slice:negative-index")
                if len(set(_ids(ops))) != len(ops):
                    ctx.violation(f"slice:axis{axis}:{tag}:repeats{neg}", f"{tag}: get_slice({axis}, {idx}) returns {len(ops)} entries, "
                                  f"{len(set(_ids(ops)))} distinct")
                    return
                got = []
                for op in ops:
                    if id(op) in located:
                        got.append(located[id(op)])
                    else:
                        got.append(lat.nearest(lat.bc, np.asarray(op.bottom_face.point_array, dtype=float).mean(axis=0)))
                if sorted(got) != want:
                    ctx.violation(
                        f"slice:axis{axis}:{tag}:wrong-set{neg}",
                        f"{tag} nx={base.get('nx')} ny={base.get('ny')} tiers={nt}: get_slice({axis}, {idx}) returned the operations "
                        f"located at (tier,row,col) {sorted(got)[:12]}, expected exactly those with index {idx} along axis {axis}: {want[:12]}")
                    return

    # ---- (3) chop / delete through addresses, judged on the written file ---------------------------
    w = case["write"]
    if not w:
        return
    deleted = {tuple(c) for c in w["delete"]}
    expect = {}  # cell -> {lattice direction: count}

    def counts_for(k, l, n):
        return {0: w["a"][n], 1: w["b"][l], 2: w["c"][k]} if is_grid else {0: w["n"], 1: w["n"], 2: w["c"][k]}

    for c in lat.index:
        if c not in deleted:
            expect[c] = counts_for(*c)
    if w["mode"] == "all":
        for (k, l, n) in lat.index:
            for ax, cnt in counts_for(k, l, n).items():
                grid[k][l][n].chop(ax, count=cnt)
    else:
        for ax in (0, 1, 2):
            if is_grid or ax == 2:
                for (k, l, n) in (tuple(c) for c in w["carriers"][str(ax)]):
                    grid[k][l][n].chop(ax, count=counts_for(k, l, n)[ax])
            else:
                for (k, l, n) in lat.index:
                    grid[k][l][n].chop(ax, count=w["n"])
    mesh = cb.Mesh()
    far = lat.cc.mean(axis=0) + 50.0 * lat.char * geom.arr([1.0, 2.0, 3.0])
    box = None
    if w.get("extra"):
        # an unrelated, fully chopped block far away, added before or after the entity under test
        box = cb.Box(far - 0.5, far + 0.5)
        for ax in range(3):
            box.chop(ax, count=2)
    if w.get("extra") == "before":
        mesh.add(box)
    if w.get("delete_first") and deleted:
        ctx.count("judged:deleted-before-the-entity-was-added")
        for (k, l, n) in deleted:
            mesh.delete(grid[k][l][n])
    mesh.add(entity)
    if w.get("extra") == "after":
        mesh.add(box)
    if not w.get("delete_first"):
        for (k, l, n) in deleted:
            mesh.delete(grid[k][l][n])
    if w.get("backport_first"):
        # history: the assembled mesh is back-ported before anything is deleted (what optimizers and smoothers do at their
        # end): every operation must get ITS block's corners back
        try:
            mesh.assemble()
            mesh.backport()
            mesh.clear()
            ctx.count("judged:addresses-after-assemble-and-backport")
        except Exception as err:  # noqa: BLE001
            ctx.violation(f"backport-of-untouched-mesh-raised:{tag}:{type(err).__name__}", f"{tag}: {err!r}")
            return
    if w.get("delete_twice") and deleted:
        # overlapping selections (two slices that share a corner operation) delete an operation a second time
        k, l, n = sorted(deleted)[0]
        mesh.delete(grid[k][l][n])
        ctx.count("judged:operation-deleted-twice")
    path = util.tmpfile("c19")
    got, err = util.write_outcome(mesh, path, nblocks=len(lat.index))
    try:
        if got == "Budget":
            ctx.count("skipped:propagation-step-budget-exceeded")
            return
        if got != "success":
            ctx.violation(f"addressed-chops-rejected:{tag}:{w['mode']}:{got}",
                          f"{tag} nx={base.get('nx')} ny={base.get('ny')} tiers={nt}: every column / row / tier was chopped with one "
                          f"count through grid addresses (mode {w['mode']}, deleted {sorted(deleted)}) but write raised {got}: {err}")
            return
        try:
            parsed = foamdict.read_blockmesh(path)
        except foamdict.ParseError as perr:
            ctx.count("skipped:file-unparsable")  # C06's clause
            ctx.count(f"skipped:file-unparsable:{str(perr)[:40]}")
            return
    finally:
        util.rm(path)
    verts = np.array([v["pos"] for v in parsed["vertices"]], dtype=float)
    hits = {}
    nbox = 0
    for h, blk in enumerate(parsed["blocks"]):
        hv = verts[blk["idx"]]
        if box is not None and np.linalg.norm(hv.mean(axis=0) - far) < 1e-3:
            nbox += 1
            continue
        hits.setdefault(lat.nearest(lat.cc, hv.mean(axis=0)), []).append(h)
    ctx.count("judged:file:delete-by-address")
    if box is not None:
        ctx.count("judged:file:unrelated-block-kept")
        if nbox != 1:
            ctx.violation(f"delete-by-address:{tag}:unrelated-block-affected", f"{tag}: an unrelated Box added {w['extra']} the entity is "
                          f"written {nbox} times after deleting grid addresses {sorted(deleted)}")
            return
    missing = sorted(c for c in expect if c not in hits)
    extra = sorted(c for c in hits if c not in expect)
    twice = sorted(c for c, hs in hits.items() if len(hs) > 1)
    if missing or extra or twice:
        ctx.violation(
            f"delete-by-address:{tag}:{'wrong-block-removed' if (missing and extra) else 'block-missing' if missing else 'deleted-block-written' if extra else 'block-twice'}",
            f"{tag} nx={base.get('nx')} ny={base.get('ny')} tiers={nt}: deleted grid addresses (tier,row,col) {sorted(deleted)}; the file "
            f"lacks blocks at {missing}, still has blocks at deleted locations {extra}, duplicates {twice} ({len(parsed['blocks'])} hex entries)")
        return
    if deleted and len(lat.index) <= 12:
        # a second Mesh that holds the same entity knows nothing of the first one's deletions
        mesh2 = cb.Mesh()
        mesh2.add(entity)
        path2 = util.tmpfile("c19b")
        got2, err2 = util.write_outcome(mesh2, path2, nblocks=len(lat.index))
        ctx.count("judged:second-mesh-with-the-same-entity")
        if got2 == "success":
            n2 = len(foamdict.read_blockmesh(path2)["blocks"])
            util.rm(path2)
            if n2 != len(lat.index):
                ctx.violation(f"delete-leaks-into-another-mesh:{tag}", f"{tag}: {sorted(deleted)} deleted in one Mesh; a second Mesh holding the "
                              f"same entity writes {n2} blocks instead of {len(lat.index)}")
                return
        else:
            util.rm(path2)
    for c, want in expect.items():
        blk = parsed["blocks"][hits[c][0]]
        hv = verts[blk["idx"]]
        local = [sum(hv[b] - hv[a] for a, b in hexconv.AXIS_EDGES[ax]) / 4 for ax in range(3)]
        dirs = lat.directions(lat.pos[c])
        cos = np.array([[abs(float(np.dot(geom.unit(lv), geom.unit(dv)))) for dv in dirs] for lv in local])
        best = max(itertools.permutations(range(3)), key=lambda p: sum(cos[a][p[a]] for a in range(3)))
        if min(cos[a][best[a]] for a in range(3)) < 0.8:
            ctx.count("skipped:hex-axes-not-matchable")
            continue
        ctx.count("judged:file:chop-location")
        seen = {best[a]: blk["counts"][a] for a in range(3)}
        if seen != want:
            ctx.violation(
                f"chop-location:{tag}:{w['mode']}",
                f"{tag} nx={base.get('nx')} ny={base.get('ny')} tiers={nt}: the block written at (tier,row,col)={c} has counts "
                f"{seen} along (column, row, tier) directions, the chops placed through grid addresses give {want} "
                f"(a={w.get('a')}, b={w.get('b')}, c={w['c']}, n={w.get('n')}, mode {w['mode']}, carriers {w.get('carriers')})")
            return


# =================================================================================================
# round family
# =================================================================================================
def _judge_sketch(ctx, cls, sketch, oracle):
    faces = list(sketch.faces)
    lvl = {id(f): oracle.level(np.asarray(f.point_array, dtype=float)) for f in faces}
    top = oracle.nlevels - 1
    if True:
        try:
            core, shell = sketch.core, sketch.shell
        except Exception as err:  # noqa: BLE001
            ctx.violation(f"sketch-core-shell-unavailable:{cls}:{type(err).__name__}", f"{cls}: core / shell raised {err!r}")
            return False
        core = [] if core is None else list(core)
        shell = [] if shell is None else list(shell)
        ctx.count("judged:sketch-core-shell")
        # (WrappedDisk has a middle ring that is neither: its core / shell are judged on touching only, not as a partition)
        if cls != "WrappedDisk" and _ids(core + shell) != _ids(faces):
            ctx.violation(f"sketch-core-shell-not-a-partition:{cls}", f"{cls}: {len(core)} core + {len(shell)} shell faces do not "
                          f"cover the {len(faces)} faces each once")
            return False
        bad = [faces.index(f) for f in core if lvl[id(f)] == top]
        if bad:
            ctx.violation(f"sketch-core-touches-outer:{cls}", f"{cls} spec={_short(oracle.spec)}: core faces (indexes in .faces) {bad} "
                          f"have a vertex on the outer curve; core = faces {[faces.index(f) for f in core]}, shell = "
                          f"{[faces.index(f) for f in shell]}, faces touching the outer curve: {[i for i, f in enumerate(faces) if lvl[id(f)] == top]}")
            return False
        if cls == "WrappedDisk":
            ctx.count("judged:three-level-sketch-core-shell")
            if not shell or not core:
                ctx.violation(f"sketch-core-or-shell-empty:{cls}", f"{cls}: core {len(core)} faces, shell {len(shell)} faces")
                return False
        bad = [faces.index(f) for f in shell if lvl[id(f)] != top]
        if bad:
            ctx.violation(f"sketch-shell-not-touching:{cls}", f"{cls} spec={_short(oracle.spec)}: shell faces {bad} have no vertex on the outer curve")
            return False
    try:
        grid = [list(g) for g in sketch.grid]
    except Exception as err:  # noqa: BLE001
        ctx.violation(f"sketch-grid-unavailable:{cls}:{type(err).__name__}", f"{cls}: grid raised {err!r}")
        return False
    ctx.count("judged:sketch-grid-levels")
    flat = [f for g in grid for f in g]
    if _ids(flat) != _ids(faces):
        ctx.violation(f"sketch-grid-not-a-partition:{cls}", f"{cls}: grid holds {len(flat)} entries for {len(faces)} faces")
        return False
    got = [[lvl[id(f)] for f in g] for g in grid]
    if len(grid) != oracle.nlevels or any(x != i for i, g in enumerate(got) for x in g):
        ctx.violation(f"sketch-grid-level:{cls}", f"{cls} spec={_short(oracle.spec)}: radial level of the faces per grid row is {got}, "
                      f"expected row i to hold exactly the faces of level i (0 = not touching the outer curve ... {top} = touching it)")
        return False
    return True


def _short(spec):
    return {k: (round(v, 4) if isinstance(v, float) else v) for k, v in spec.items() if k not in ("c", "e1", "e2", "e3", "src")}


def run_round(ctx, case, cb):
    post = case["post"]
    if case["what"] == "sketch":
        spec = case["spec"]
        try:
            sketch = xr.build_sketch(cb, spec)
            xr.lib_place(sketch, post)
        except Exception as err:  # noqa: BLE001
            ctx.count(f"construct-rejected:{spec['cls']}:{type(err).__name__}")
            return
        ctx.evaluated()
        ctx.count(f"sketch:{spec['cls']}")
        if post:
            ctx.count("placed:post-transform")
        ctx.key(["sketch", spec["cls"], spec.get("variant"), spec.get("nseg"), sorted(t["t"] for t in post)],
                nontrivial=len(sketch.faces) >= 2)
        _judge_sketch(ctx, spec["cls"], sketch, xr.SketchOracle(spec, post))
        return
    spec = case["spec"]
    try:
        shape, surfaces, name = xr.build_shape(cb, spec)
        xr.lib_place(shape, post)
    except Exception as err:  # noqa: BLE001
        ctx.count(f"construct-rejected:{spec['shape']}:{type(err).__name__}")
        return
    surfaces = [s.placed(post) for s in surfaces]
    ctx.evaluated()
    ctx.count(f"shape:{spec['shape']}")
    if post:
        ctx.count("placed:post-transform")
    w = case.get("write")
    ctx.key(["shape", name, spec.get("start_face"), spec.get("nseg"), spec.get("Rmid") is not None, sorted(t["t"] for t in post),
             None if not w else [d[0] for d in w["delete"]]], nontrivial=True)
    ctx.sample({"shape": name, "spec": _short(spec), "post": [t["t"] for t in post], "write": w})
    full, name = name, spec["shape"].split(".")[0]  # mechanism keys: class of the shape; messages: how it was built
    ops = list(shape.operations)
    touch = {id(op): xr.touches(xr.op_points(op), surfaces) for op in ops}
    where = f"{full} spec={_short(spec)} surfaces={[s.describe() for s in surfaces]}"
    parts = {}
    for attr in ("core", "shell", "grid"):
        try:
            v = getattr(shape, attr)
            parts[attr] = [list(g) for g in v] if attr == "grid" else list(v)
        except Exception as err:  # noqa: BLE001
            ctx.violation(f"shape-{attr}-unavailable:{name}:{type(err).__name__}", f"{where}: .{attr} raised {err!r}")
    if "core" in parts and "shell" in parts:
        core, shell = parts["core"], parts["shell"]
        ctx.count("judged:shape-core-shell")
        if _ids(core + shell) != _ids(ops):
            ctx.violation(f"shape-core-shell-not-a-partition:{name}", f"{where}: {len(core)} core + {len(shell)} shell operations do "
                          f"not cover the {len(ops)} operations each once")
        else:
            ctx.count("reached:core-op-judged", len(core))
            ctx.count("reached:shell-op-judged", len(shell))
            bad = [ops.index(o) for o in core if touch[id(o)]]
            if bad:
                ctx.violation(f"shape-core-touches-outer:{name}", f"{where}: core operations (indexes in .operations) {bad} have a vertex on "
                              f"the outer surface; operations touching it: {[i for i, o in enumerate(ops) if touch[id(o)]]}")
            bad = [ops.index(o) for o in shell if not touch[id(o)]]
            if bad:
                ctx.violation(f"shape-shell-not-touching:{name}", f"{where}: shell operations {bad} have no vertex on the outer surface; "
                              f"operations touching it: {[i for i, o in enumerate(ops) if touch[id(o)]]}")
    if "grid" in parts:
        grid = parts["grid"]
        ctx.count("judged:shape-grid-levels")
        flat = [o for g in grid for o in g]
        nlev = xr.shape_levels(spec["shape"])
        got = [[int(touch.get(id(o), -9)) for o in g] for g in grid]
        want_row = (lambda i: 1) if nlev == 1 else (lambda i: i)
        if _ids(flat) != _ids(ops):
            ctx.violation(f"shape-grid-not-a-partition:{name}", f"{where}: grid holds {len(flat)} entries for {len(ops)} operations")
        elif len(grid) != nlev or any(x != want_row(i) for i, g in enumerate(got) for x in g):
            ctx.violation(f"shape-grid-level:{name}", f"{where}: touching flags per grid row {got}; expected "
                          f"{'one row of touching operations' if nlev == 1 else '[[not touching...], [touching...]]'}")
    # ---- delete by address, judged on the written file ------------------------------------------------
    if not w:
        return
    targets = []
    for attr, r in w["delete"]:
        pool = ops if attr == "operations" else [o for g in parts["grid"] for o in g] if attr == "grid" and "grid" in parts else parts.get(attr)
        if not pool:
            continue
        op = pool[r % len(pool)]
        if id(op) not in [id(t) for t in targets] and len(targets) < len(ops) - 1:
            targets.append(op)
    for op in ops:
        for ax in range(3):
            op.chop(ax, count=w["n"])
    expected = [xr.op_points(op) for op in ops if id(op) not in [id(t) for t in targets]]
    gone = [xr.op_points(op) for op in targets]
    mesh = cb.Mesh()
    if w.get("delete_first") and targets:
        ctx.count("judged:deleted-before-the-entity-was-added")
        for op in targets:
            mesh.delete(op)
        mesh.add(shape)
    else:
        mesh.add(shape)
        for op in targets:
            mesh.delete(op)
    path = util.tmpfile("c19r")
    got, err = util.write_outcome(mesh, path, nblocks=len(ops))
    try:
        if got == "Budget":
            ctx.count("skipped:propagation-step-budget-exceeded")
            return
        if got != "success":
            ctx.violation(f"uniform-chops-rejected:{name}:{got}", f"{where}: all operations chopped with count={w['n']} on all axes, "
                          f"{len(targets)} deleted, write raised {got}: {err}")
            return
        try:
            parsed = foamdict.read_blockmesh(path)
        except foamdict.ParseError as perr:
            ctx.count("skipped:file-unparsable")
            ctx.count(f"skipped:file-unparsable:{str(perr)[:40]}")
            return
    finally:
        util.rm(path)
    verts = np.array([v["pos"] for v in parsed["vertices"]], dtype=float)
    ctx.count("judged:file:round-delete")
    pool = expected + gone
    centres = np.array([p.mean(axis=0) for p in pool])
    hit = [0] * len(pool)
    for blk in parsed["blocks"]:
        hv = verts[blk["idx"]]
        m = int(np.argmin(np.linalg.norm(centres - hv.mean(axis=0), axis=1)))
        tol = 1e-6 * (1 + float(np.abs(hv).max()))
        dist = np.linalg.norm(hv[:, None, :] - pool[m][None, :, :], axis=2).min(axis=1).max()
        if not (dist <= 10 * tol + 2e-7):
            ctx.violation(f"round-delete:{name}:unknown-block", f"{where}: a written hex matches no operation of the shape (nearest is off by {dist:.3g})")
            return
        hit[m] += 1
    missing = [m for m in range(len(expected)) if hit[m] == 0]
    extra = [m - len(expected) for m in range(len(expected), len(pool)) if hit[m] > 0]
    twice = [m for m in range(len(pool)) if hit[m] > 1]
    if missing or extra or twice:
        ctx.violation(
            f"round-delete:{name}:{'wrong-block-removed' if missing and extra else 'block-missing' if missing else 'deleted-block-written' if extra else 'block-twice'}",
            f"{where}: deleted {w['delete']} -> {len(targets)} operations; {len(parsed['blocks'])} hex entries; kept operations without a "
            f"hex: {missing}; deleted operations still written: {extra}; written twice: {twice}")


def run_case(ctx, case):
    import classy_blocks as cb

    if case["fam"] == "stack":
        run_stack(ctx, case, cb)
    else:
        run_round(ctx, case, cb)
