"""C11 — predefined shapes give right-handed, conformal, fully choppable blockings (DESIGN 3/C11).

Structural oracle over the parsed file of every predefined entity: corner Jacobians (hexconv), face-connectivity,
no duplicated vertices / expected vertex count, outer arcs on the analytically known circle, the documented chop
calls sufficient for Mesh.write, interface vertices of chained / expanded / contracted / filled shapes."""

import math

import numpy as np

from vf import foamdict, geom, hexconv, util
from vf.props import c09

ID = "C11"
BUDGET = {"quick": 520, "thorough": 14000}
SOFT = {"quick": 50.0, "thorough": 900.0}
CLASSES = ["box", "extrude", "revolve", "wedge", "cylinder", "semicylinder", "frustum", "frustum-mid", "elbow", "extrudedring",
           "revolvedring", "hemisphere", "shell", "revolvedshape", "extrudedstack", "revolvedstack", "transformedstack",
           "sk:grid", "sk:onecore", "sk:fourcore", "sk:halfdisk", "sk:wrapped", "sk:oval", "sk:splinedisk", "sk:halfsplinedisk",
           "sk:quartersplinedisk", "sk:splinering", "ljoint", "tjoint", "njoint",
           "chain:cylinder", "chain:elbow", "chain:frustum", "chain:hemisphere", "chain:4", "ring:chain", "ring:expand", "ring:contract",
           "ring:fill", "cyl:expand"]
REQUIRED = ["judged:jacobians", "judged:connected", "judged:no-duplicate-vertices", "judged:arc-on-circle", "judged:chops-sufficient",
            "judged:interface", "judged:vertex-count", "judged:sweep-arc-about-the-axis", "judged:chained-to-a-start-face", "judged:outer-arcs-after-remove_inner_edges"] + [f"class:{c}" for c in CLASSES]
MIN_KEYS = 60
RULE = (
    "every predefined class (Box, Extrude, Revolve, Wedge, Cylinder, SemiCylinder, Frustum, Elbow, ExtrudedRing, RevolvedRing, "
    "Hemisphere, Shell, the three stacks on 1-3 x 1-3 grids, shapes lofted from grid / disk / oval / wrapped / spline-round "
    "sketches, L/T/N joints with 3-6 branches) in a random frame / origin / size / segment count, chopped only through the "
    "documented chop calls; chains of up to four round shapes and ring chain / expand / contract / fill. distinct by (class, "
    "segment or grid counts, chop parameter kind, frame octant)"
)
ASSUMPTIONS = [
    "right-handedness is judged on the straight-chord corner Jacobians of the written vertices (all 8 > 0)",
    "conformal = face-connected blocking, no two vertices closer than 1e-6*size, and for lofted shapes 2 x (distinct sketch points) vertices",
    "arc third points: on the circle (1e-6 R) and on the minor-arc side between the end points",
]


def gen_case(ctx):
    rng = ctx.rng
    cls = rng.choice(CLASSES)
    return {"cls": cls, "seed": rng.randrange(10**9), "chop": rng.choice(["count", "size", "size+c2c"])}


def fixed_cases(tier):
    """every chain constructor on the start face and on the end face (the random part reaches a start face only now and then)"""
    out = []
    # one case of every class first: the REQUIRED class counters are reached even when a loaded machine cuts the random part short
    for i, cls in enumerate(CLASSES):
        out.append({"cls": cls, "seed": 12345 + 7 * i, "chop": ["count", "size", "size+c2c"][i % 3]})
    for cls in ("chain:cylinder", "chain:elbow", "chain:frustum", "chain:hemisphere", "ring:chain"):
        for sf in (True, False):
            for k in range(2 if tier == "quick" else 12):
                out.append({"cls": cls, "seed": 7001 + 17 * k + (5 if sf else 0), "chop": ["count", "size"][k % 2], "start_face": sf})
    # seeds divisible by 3: remove_inner_edges() before writing / a shell around a ring
    for cls in ("extrudedring", "cylinder", "elbow", "shell"):
        for k in range(3 if tier == "quick" else 15):
            out.append({"cls": cls, "seed": 3 * (9001 + 7 * k), "chop": ["count", "size"][k % 2]})
    for k in range(3 if tier == "quick" else 15):
        out.append({"cls": "shell", "seed": 3 * (9001 + 7 * k) + 1, "chop": ["count", "size"][k % 2]})
        out.append({"cls": "wedge", "seed": 2 * (4001 + 3 * k), "chop": ["count", "size"][k % 2]})
        for cls in ("ring:chain", "ring:expand", "ring:contract"):
            out.append({"cls": cls, "seed": 2 * (5001 + 5 * k), "chop": "count"})
    return out


def chopkw(rng, case, scale=1.0):
    k = case["chop"]
    if k == "count":
        return {"count": rng.randint(1, 6)}
    if k == "size":
        return {"start_size": rng.uniform(0.1, 0.4) * scale}
    return {"start_size": rng.uniform(0.08, 0.3) * scale, "c2c_expansion": rng.choice([1.0, 1.1, 1.2])}


def build(case, cb):
    """-> (entities to add, info for the oracles)"""
    import random

    rng = random.Random(case["seed"])
    cls = case["cls"]
    o, fr = c09.frame_from(rng)
    info = {"circles": [], "interfaces": [], "expect_vertices": None, "size": 1.0, "detail": None, "axis": None}
    kw = lambda s=1.0: chopkw(rng, case, s)  # noqa: E731
    r = rng.uniform(0.5, 1.5)
    L = rng.uniform(1.0, 3.0)
    a1, a2 = o, o + fr[2] * L
    rp = o + fr[0] * r
    info["size"] = max(r, L)

    def strip_inner(shape):
        # documented preparation for moving end-plane points: drops the curved edges INSIDE the start / end sketch; the outer
        # rim keeps its arcs (judged below on info["circles"])
        if case["seed"] % 3 == 0:
            shape.remove_inner_edges()
            info["stripped"] = True

    def chop3(shape):
        shape.chop_axial(**kw(L))
        shape.chop_radial(**kw(r * 0.5))
        shape.chop_tangential(**kw(r))

    if cls in ("box", "extrude", "revolve", "wedge"):
        if cls == "revolve":
            quad = [(-1, -1), (1, -1), (1, 1), (-1, 1)]
            base = [list(o + fr[0] * (x * rng.uniform(0.5, 1.5)) + fr[1] * (y * rng.uniform(0.5, 1.5))) for x, y in quad]
            # the face normal is fr[2]; a positive angle about fr[0] through a point on the -fr[1] side lifts it towards +fr[2]
            ro = o - fr[1] * rng.uniform(3, 5)
            op = cb.Revolve(cb.Face(base), rng.uniform(0.3, 1.2), list(fr[0] * 2), list(ro))
            info["axis"] = (ro, fr[0])
        elif cls == "wedge" and case["seed"] % 2 == 0:
            # two neighbouring wedges made from one face object, the usual way: Wedge(face), Wedge(face.copy().translate(...))
            x0, y0 = rng.uniform(-2, 2), rng.uniform(0.5, 2)
            face = cb.Face([[x0, y0, 0], [x0 + 1.5, y0, 0], [x0 + 1.5, y0 + 1, 0], [x0, y0 + 1, 0]])
            ang = rng.uniform(0.03, 0.2)
            w1 = cb.Wedge(face, ang)
            w2 = cb.Wedge(face.copy().translate([1.5, 0, 0]), ang)
            for w in (w1, w2):
                w.chop(0, **kw())
            w1.chop(1, **kw())
            info["detail"] = "two-from-one-face"
            info["expect_vertices"] = 12
            return [w1, w2], info
        else:
            op, _ = c09.make_entity({"group": "op", "kind": cls, "seed": case["seed"]}, cb)
        for a in range(3):
            if cls == "wedge" and a == 2:
                continue
            op.chop(a, **kw())
        return [op], info
    if cls in ("cylinder", "semicylinder", "frustum", "frustum-mid"):
        r2 = r
        if cls == "cylinder":
            sh = cb.Cylinder(list(a1), list(a2), list(rp))
        elif cls == "semicylinder":
            sh = cb.SemiCylinder(list(a1), list(a2), list(rp))
        else:
            r2 = r * rng.uniform(0.4, 0.8)
            sh = cb.Frustum(list(a1), list(a2), list(rp), r2, r * 0.9 if cls == "frustum-mid" else None)
        chop3(sh)
        strip_inner(sh)
        info["circles"] = [(a1, fr[2], r), (a2, fr[2], r2)]
        return [sh], info
    if cls == "elbow":
        sweep = rng.uniform(0.4, 1.4)
        arc_c = o + fr[0] * rng.uniform(2.5, 4)
        r2 = r * rng.uniform(0.6, 1.2)
        sh = cb.Elbow(list(o), list(rp), list(fr[2]), sweep, list(arc_c), list(fr[1]), r2)
        chop3(sh)
        strip_inner(sh)
        c2 = geom.rotate(o, fr[1], sweep, arc_c)
        n2 = geom.rotate_vec(fr[2], fr[1], sweep)
        info["circles"] = [(o, fr[2], r), (c2, n2, r2)]
        return [sh], info
    if cls == "extrudedring":
        ri = r * rng.uniform(0.3, 0.7)
        n = rng.randint(3, 12)
        sh = cb.ExtrudedRing(list(a1), list(a2), list(rp), ri, n_segments=n)
        chop3(sh)
        strip_inner(sh)
        info["circles"] = [(a1, fr[2], r), (a2, fr[2], r), (a1, fr[2], ri), (a2, fr[2], ri)]
        info["detail"] = n
        info["expect_vertices"] = 4 * n
        return [sh], info
    if cls == "revolvedring":
        c = o + fr[0] * rng.uniform(1.5, 2.5)
        face = cb.Face([list(c), list(c + fr[2] * 0.8), list(c + fr[2] * 0.8 + fr[0] * 0.5), list(c + fr[0] * 0.6)])
        n = rng.randint(3, 10)
        sh = cb.RevolvedRing(list(o), list(o + fr[2] * 2), face, n_segments=n)
        info["axis"] = (o, fr[2])
        sh.chop_axial(**kw())
        sh.chop_radial(**kw())
        sh.chop_tangential(**kw())
        info["detail"] = n
        info["expect_vertices"] = 4 * n
        info["size"] = 3.0
        return [sh], info
    if cls == "revolvedshape":
        sk = c09.make_sketch(rng.choice(["onecore", "fourcore", "oval"]), rng, o, fr, cb)
        ro = o - fr[1] * rng.uniform(4, 6)
        sh = cb.RevolvedShape(sk, rng.uniform(0.3, 1.0), list(fr[0] * 1.5), list(ro))
        info["axis"] = (ro, fr[0])
        sh.chop(0, **kw(0.5))
        sh.chop(1, **kw(0.5))
        sh.chop(2, **kw(0.5))
        info["size"] = 6.0
        return [sh], info
    if cls == "hemisphere":
        sh = cb.Hemisphere(list(o), list(rp), list(fr[2]))
        chop3(sh)
        info["expect_vertices"] = 35
        return [sh], info
    if cls == "shell" and case["seed"] % 3 == 0:
        # a shell around the outer faces of a ring (their common corners come out of separate computations)
        n = rng.randint(4, 11)
        ring = cb.ExtrudedRing(list(a1), list(a2), list(rp), r * 0.5, n_segments=n)
        chop3(ring)
        faces = [op.get_face("right") for op in ring.operations]
        sh = cb.Shell(faces, rng.uniform(0.1, 0.3) * r)
        sh.chop(**kw(0.3))
        info["detail"] = f"ring-{n}"
        return [ring, sh], info
    if cls == "shell" and case["seed"] % 3 == 1:
        # a shell over the end cap and the wall of a cylinder: at the rim the faces meet the averaged normal at unequal angles
        cyl = cb.Cylinder(list(a1), list(a2), list(rp))
        chop3(cyl)
        faces = [op.get_face("top") for op in cyl.operations] + [op.get_face("right") for op in cyl.shell]
        sh = cb.Shell(faces, rng.uniform(0.1, 0.25) * r)
        sh.chop(**kw(0.3))
        info["detail"] = "cylinder-cap+wall"
        return [cyl, sh], info
    if cls == "shell":
        box = cb.Box(list(o), list(o + np.array([rng.uniform(0.6, 1.5) for _ in range(3)])))
        for a in range(3):
            box.chop(a, **kw())
        sides = rng.sample(["bottom", "top", "left", "right", "front", "back"], rng.randint(1, 6))
        faces = []
        for s in sides:
            f = box.get_face(s)
            if s in ("bottom", "left", "front"):
                f.invert()
            faces.append(f)
        sh = cb.Shell(faces, rng.uniform(0.2, 0.5))
        try:
            sh.chop(**kw(0.5))
        except Exception as exc:  # noqa: BLE001
            if type(exc).__name__ != "DisconnectedChopError":
                raise
            # documented: one chop cannot reach faces that are not connected (e.g. bottom + top only)
            for op in sh.operations:
                op.chop(2, **kw(0.5))
            info["detail"] = f"{len(sides)}-disconnected"
        info["detail"] = info["detail"] or len(sides)
        return [box, sh], info
    if cls.endswith("stack"):
        nx, ny, nt = rng.randint(1, 3), rng.randint(1, 3), rng.randint(1, 3)
        st, frame = make_stack(cls, rng, o, nx, ny, nt, cb)
        if cls == "revolvedstack":
            info["axis"] = (frame[0] - frame[2] * 4, frame[1])
        st.chop(**kw())
        for i in range(nx):
            st.grid[0][0][i].chop(0, **kw(0.5))
        for j in range(ny):
            st.grid[0][j][0].chop(1, **kw(0.5))
        info["detail"] = [nx, ny, nt]
        info["expect_vertices"] = (nx + 1) * (ny + 1) * (nt + 1)
        info["size"] = 3.0
        return [st], info
    if cls.startswith("sk:"):
        sk = c09.make_sketch(cls[3:], rng, o, fr, cb)
        pts = np.array([p for f in sk.faces for p in f.point_array])
        distinct = []
        for p in pts:
            if not any(np.linalg.norm(p - q) < 1e-7 for q in distinct):
                distinct.append(p)
        sh = cb.ExtrudedShape(sk, rng.uniform(0.6, 1.5))
        if cls == "sk:grid":
            # a Grid documents no per-axis chop table: chop one operation per column / row
            for op in sh.grid[0]:
                op.chop(0, **kw(0.5))
            for row in sh.grid:
                row[0].chop(1, **kw(0.5))
        else:
            sh.chop(0, **kw(0.5))
            sh.chop(1, **kw(0.5))
        sh.chop(2, **kw(0.5))
        info["expect_vertices"] = 2 * len(distinct)
        info["size"] = 2.0
        return [sh], info
    if cls in ("ljoint", "tjoint", "njoint"):
        start, centre = o, o + fr[2] * 3
        jr = rng.uniform(0.4, 0.8)
        jrp = start + fr[0] * jr
        nb = rng.randint(3, 6)
        if cls == "ljoint":
            j = cb.LJoint(list(start), list(centre), list(jrp))
        elif cls == "tjoint":
            j = cb.TJoint(list(start), list(centre), list(jrp))
        else:
            j = cb.NJoint(list(start), list(centre), list(jrp), nb)
            info["detail"] = nb
        j.chop_axial(**kw())
        j.chop_radial(**kw(0.3))
        j.chop_tangential(**kw(0.5))
        info["size"] = 3.0
        return [j], info
    # ---- chains ----------------------------------------------------------------------------------
    if cls.startswith("chain:"):
        cyl = cb.Cylinder(list(a1), list(a2), list(rp))
        chop3(cyl)
        shapes = [cyl]
        plan = {"chain:cylinder": ["cylinder"], "chain:elbow": ["elbow"], "chain:frustum": ["frustum"], "chain:hemisphere": ["hemisphere"],
                "chain:4": ["elbow", "frustum", "hemisphere"]}[cls]
        draw = rng.random() < 0.3
        start_face = bool(case.get("start_face", draw)) and len(plan) == 1
        info["start_face"] = start_face
        src = cyl
        for what in plan:
            end_sk = src.sketch_1 if start_face else src.sketch_2
            plane_pt = np.array(end_sk.center)
            plane_n = np.array(end_sk.normal)
            if what == "cylinder":
                nxt = cb.Cylinder.chain(src, rng.uniform(0.5, 2), start_face)
                nxt.chop_axial(**kw())
            elif what == "elbow":
                cen = np.array(end_sk.center)
                rad = np.array(end_sk.radius_point) - cen
                arc_c = cen + rad / np.linalg.norm(rad) * rng.uniform(2.5, 4)
                ax = np.cross(plane_n, rad)
                if start_face:
                    ax = -ax  # the sketch normal of a start face points into the source: sweep away from it
                nxt = cb.Elbow.chain(src, rng.uniform(0.4, 1.2), list(arc_c), list(ax), float(np.linalg.norm(rad)) * rng.uniform(0.7, 1.1), start_face)
                nxt.chop_axial(**kw())
            elif what == "frustum":
                nxt = cb.Frustum.chain(src, rng.uniform(0.5, 2), float(np.linalg.norm(np.array(end_sk.radius_point) - np.array(end_sk.center))) * 0.6, start_face)
                nxt.chop_axial(**kw())
            else:
                nxt = cb.Hemisphere.chain(src, start_face)
                nxt.chop_axial(**kw(0.5))
            info["interfaces"].append(("plane", len(shapes) - 1, len(shapes), plane_pt, plane_n))
            shapes.append(nxt)
            src = nxt
        info["size"] = 4.0
        return shapes, info
    ri = r * rng.uniform(0.3, 0.6)
    n = rng.choice([4, 6, 8])
    if cls == "cyl:expand":
        cyl = cb.Cylinder(list(a1), list(a2), list(rp))
        chop3(cyl)
        ring = cb.ExtrudedRing.expand(cyl, rng.uniform(0.2, 0.6))
        ring.chop_radial(**kw(0.3))
        info["interfaces"].append(("cyl", 0, 1, a1, fr[2], r))
        return [cyl, ring], info
    ring = cb.ExtrudedRing(list(a1), list(a2), list(rp), ri, n_segments=n)
    chop3(ring)
    info["detail"] = n
    if case["seed"] % 2 == 0:
        # the source ring is moved as a whole before another shape is derived from it
        D = fr[0] * rng.uniform(-1, 1) + fr[1] * rng.uniform(-1, 1) + fr[2] * rng.uniform(-2, 2)
        ring.translate(list(D))
        a1, a2, rp = a1 + D, a2 + D, rp + D
        info["detail"] = f"{n}-moved"
    if cls == "ring:chain":
        sf = rng.random() < 0.4
        sf = bool(case.get("start_face", sf))
        info["start_face"] = sf
        nxt = cb.ExtrudedRing.chain(ring, rng.uniform(0.5, 2), sf)
        nxt.chop_axial(**kw())
        info["interfaces"].append(("plane", 0, 1, a1 if sf else a2, fr[2]))
    elif cls == "ring:expand":
        nxt = cb.ExtrudedRing.expand(ring, rng.uniform(0.2, 0.6))
        nxt.chop_radial(**kw(0.3))
        info["interfaces"].append(("cyl", 0, 1, a1, fr[2], r))
    elif cls == "ring:contract":
        nxt = cb.ExtrudedRing.contract(ring, ri * rng.uniform(0.3, 0.7))
        nxt.chop_radial(**kw(0.2))
        info["interfaces"].append(("cyl", 0, 1, a1, fr[2], ri))
    else:
        ring = cb.ExtrudedRing(list(a1), list(a2), list(rp), ri, n_segments=8)
        chop3(ring)
        nxt = cb.Cylinder.fill(ring)
        nxt.chop_radial(**kw(0.2))
        info["interfaces"].append(("cyl", 0, 1, a1, fr[2], ri))
        info["detail"] = 8
    return [ring, nxt], info


def make_stack(cls, rng, o, nx, ny, nt, cb):
    base = cb.Grid([0, 0, 0], [2.0, 1.5, 0.0], nx, ny)
    q = geom.rand_unit(rng)
    ang = rng.uniform(0, 3)
    base.rotate(ang, list(q), [0, 0, 0]).translate(list(o))
    ex = geom.rotate_vec([1, 0, 0], q, ang)
    ey = geom.rotate_vec([0, 1, 0], q, ang)
    n = np.cross(ex, ey)
    frame = (np.array(o), ex, ey, n)
    if cls == "extrudedstack":
        return cb.ExtrudedStack(base, rng.uniform(1, 2), nt), frame
    if cls == "revolvedstack":
        return cb.RevolvedStack(base, rng.uniform(0.3, 0.8), list(ex), list(np.array(o) - ey * 4), nt), frame
    if rng.random() < 0.4:
        # a duct that shrinks tier by tier: Scaling without an origin means "about the sketch's own centre", one point
        # for all faces of the sketch
        return cb.TransformedStack(base, [cb.Translation(list(n * 1.2)), cb.Scaling(rng.choice([0.8, 0.6, 1.3]))], nt), frame
    return cb.TransformedStack(base, [cb.Translation(list(n * 1.2)), cb.Rotation(list(n), 0.3, list(o))], nt,
                               [cb.Translation(list(n * 0.6)), cb.Rotation(list(n), 0.15, list(o))]), frame


# -------------------------------------------------------------------------------------------------
def run_case(ctx, case):
    import classy_blocks as cb

    cls = case["cls"]
    ctx.count(f"class:{cls}")
    entities, info = build(case, cb)
    mesh = cb.Mesh()
    ranges = []
    for ent in entities:
        n0 = len(mesh.operations)
        mesh.add(ent)
        ranges.append((n0, len(mesh.operations)))
    path = util.tmpfile("c11")
    got, err = util.write_outcome(mesh, path)
    ctx.evaluated()
    ctx.count("judged:chops-sufficient")
    if info.get("start_face"):
        ctx.count("judged:chained-to-a-start-face")
    if info.get("stripped"):
        ctx.count("judged:outer-arcs-after-remove_inner_edges")
    ctx.key([cls, info["detail"], case["chop"], bool(info.get("start_face"))])
    ctx.sample({"cls": cls, "seed": case["seed"], "chop": case["chop"], "detail": info["detail"]})
    if got != "success":
        util.rm(path)
        ctx.violation(f"documented-chops-not-sufficient:{cls}:{got}" + (f":{info['detail']}-branches" if cls == "njoint" else ""),
                      f"{cls} (seed {case['seed']}, chops {case['chop']}): {err}"[:600])
        return
    parsed = foamdict.read_blockmesh(path)
    util.rm(path)
    vpos = np.array([v["pos"] for v in parsed["vertices"]])
    size = info["size"]
    # (1) right-handed
    ctx.count("judged:jacobians")
    for bi, blk in enumerate(parsed["blocks"]):
        pts = [vpos[i] for i in blk["idx"]]
        jac = hexconv.jacobians(pts)
        if cls == "wedge" or len(set(blk["idx"])) < 8:
            continue
        scale = np.prod([np.linalg.norm(pts[1] - pts[0]), np.linalg.norm(pts[3] - pts[0]), np.linalg.norm(pts[4] - pts[0])])
        if min(jac) <= 1e-9 * scale:
            ctx.violation(f"block-not-right-handed:{cls}", f"{cls} seed {case['seed']}: block {bi} corner Jacobians {[round(j, 5) for j in jac]}")
            return
    # (2) conformal
    ctx.count("judged:no-duplicate-vertices")
    order = np.argsort(vpos[:, 0])
    sp = vpos[order]
    for i in range(len(sp) - 1):
        j = i + 1
        while j < len(sp) and sp[j, 0] - sp[i, 0] < 1e-6 * size:
            if np.linalg.norm(sp[j] - sp[i]) < 1e-6 * size:
                ctx.violation(f"duplicated-vertex:{cls}", f"{cls} seed {case['seed']}: vertices {order[i]} and {order[j]} both at {list(sp[i])}")
                return
            j += 1
    ctx.count("judged:connected")
    sides = {}
    for bi, blk in enumerate(parsed["blocks"]):
        for s in hexconv.SIDE_NAMES:
            sides.setdefault(frozenset(blk["idx"][c] for c in hexconv.SIDES[s]), []).append(bi)
    adj = {i: set() for i in range(len(parsed["blocks"]))}
    for q, bs in sides.items():
        if len(bs) > 2:
            ctx.violation(f"side-shared-by-more-than-two-blocks:{cls}", f"{sorted(q)}: blocks {bs}")
            return
        if len(bs) == 2:
            adj[bs[0]].add(bs[1])
            adj[bs[1]].add(bs[0])
    seen, stack = {0}, [0]
    while stack:
        for nb in adj[stack.pop()]:
            if nb not in seen:
                seen.add(nb)
                stack.append(nb)
    if len(seen) != len(parsed["blocks"]):
        ctx.violation(f"blocking-not-face-connected:{cls}", f"{cls} seed {case['seed']}: {len(seen)} of {len(parsed['blocks'])} blocks reachable through shared sides")
        return
    if info["expect_vertices"] is not None:
        ctx.count("judged:vertex-count")
        if len(vpos) != info["expect_vertices"]:
            ctx.violation(f"vertex-count:{cls}", f"{cls} seed {case['seed']}: {len(vpos)} vertices, expected {info['expect_vertices']}")
            return
    # (3) arcs on the intended circles
    for c, n, R in info["circles"]:
        c, n = np.array(c), geom.unit(n)
        on_circle = [i for i in range(len(vpos)) if abs(np.linalg.norm(vpos[i] - c) - R) < 1e-6 * max(R, 1) and abs(np.dot(vpos[i] - c, n)) < 1e-6 * max(R, 1)]
        arcs_here = 0
        for e in parsed["edges"]:
            if e["kind"] == "arc" and e["a"] in on_circle and e["b"] in on_circle:
                arcs_here += 1
        if len(on_circle) < 3 or arcs_here < 2:
            ctx.violation(f"outer-rim-not-on-the-intended-circle:{cls}",
                          f"{cls} seed {case['seed']}: intended circle centre {list(c)} radius {R}: {len(on_circle)} vertices and {arcs_here} arcs lie on it")
            return
        for e in parsed["edges"]:
            if e["kind"] != "arc":
                continue
            a, b, p = vpos[e["a"]], vpos[e["b"]], np.array(e["point"])
            on = lambda x: abs(np.linalg.norm(x - c) - R) < 1e-6 * max(R, 1) and abs(np.dot(x - c, n)) < 1e-6 * max(R, 1)  # noqa: E731
            if on(a) and on(b):
                ctx.count("judged:arc-on-circle")
                mid_dir = (a + b) / 2 - c
                if not on(p) or np.dot(p - c, mid_dir) <= 0:
                    ctx.violation(f"arc-off-the-intended-circle:{cls}",
                                  f"{cls} seed {case['seed']}: arc {e['a']} {e['b']} third point {list(p)}: radius {np.linalg.norm(p - c)} (circle R={R}), out of plane {np.dot(p - c, n)}")
                    return
    # (3b) sweep arcs of revolved entities: end points at one radius and height about the revolve axis -> the third
    # point is at the same radius and height, between them
    if info["axis"] is not None:
        ao, ad = np.array(info["axis"][0], dtype=float), geom.unit(info["axis"][1])

        def polar(x):
            v = np.array(x, dtype=float) - ao
            h = float(np.dot(v, ad))
            radial = v - h * ad
            return h, float(np.linalg.norm(radial)), radial

        for e in parsed["edges"]:
            if e["kind"] != "arc":
                continue
            ha, ra, va = polar(vpos[e["a"]])
            hb, rb, vb = polar(vpos[e["b"]])
            if abs(ha - hb) < 1e-6 * size and abs(ra - rb) < 1e-6 * size and ra > 1e-3 * size and np.linalg.norm(va - vb) > 1e-6 * size:
                hp, rp, vp = polar(e["point"])
                ctx.count("judged:sweep-arc-about-the-axis")
                def ang(x, y):
                    return math.acos(max(-1.0, min(1.0, float(np.dot(x, y)) / (np.linalg.norm(x) * np.linalg.norm(y)))))

                between = abs(ang(va, vp) + ang(vp, vb) - ang(va, vb)) < 1e-6
                if abs(hp - ha) > 1e-6 * size or abs(rp - ra) > 1e-6 * size or not between:
                    ctx.violation(f"sweep-arc-off-its-circle:{cls}",
                                  f"{cls} seed {case['seed']}: arc {e['a']} {e['b']}: ends at radius {ra:.6f} height {ha:.6f} about the revolve "
                                  f"axis, third point at radius {rp:.6f} height {hp:.6f}" + ("" if between else " - not between the two end points"))
                    return
    # (5) interfaces
    for itf in info["interfaces"]:
        ctx.count("judged:interface")
        kind, ea, eb = itf[0], itf[1], itf[2]
        va = {i for blk in parsed["blocks"][ranges[ea][0]:ranges[ea][1]] for i in blk["idx"]}
        vb = {i for blk in parsed["blocks"][ranges[eb][0]:ranges[eb][1]] for i in blk["idx"]}
        if kind == "plane":
            pt, n = np.array(itf[3]), geom.unit(itf[4])
            on = lambda i: abs(np.dot(vpos[i] - pt, n)) < 1e-6 * size  # noqa: E731
        else:
            pt, n, R = np.array(itf[3]), geom.unit(itf[4]), itf[5]
            on = lambda i: abs(np.linalg.norm((vpos[i] - pt) - np.dot(vpos[i] - pt, n) * n) - R) < 1e-6 * size  # noqa: E731
        ia = {i for i in va if on(i)}
        ib = {i for i in vb if on(i)}
        shared = va & vb
        if not (shared == ia == ib) or not shared:
            ctx.violation(f"interface-vertices-not-shared:{cls}",
                          f"{cls} seed {case['seed']}: source has {len(ia)} vertices on the interface, the new shape {len(ib)}, shared {len(shared)}")
            return
