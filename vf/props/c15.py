"""C15 — smoothing moves only free interior points, to their neighbours' average (DESIGN 3/C15).

Reference-model monitor on the real SketchSmoother / MeshSmoother. The oracle (vf.xc15_topo) recomputes, from
the quads / hexes of the case alone, which nodes are boundary (a side used by exactly one cell), which nodes are
joined by a cell edge (hexconv edge table), the exact harmonic solution x* of "every free node = mean of its
neighbours" and the Jacobi spectral radius. Observation is at the public boundary: Face.point_array of every
sketch face, MappedSketch.positions, Mesh.vertices, the written blockMeshDict (vf.foamdict); smoother.grid.points
is read only for the copy-back clause.

Clauses (all independent of the order in which an implementation sweeps the points):
  unmoved      boundary / user-fixed nodes bit-identical after any number of smooth() calls
  isolated     a free node all of whose neighbours are boundary / fixed sits on their mean after >= 1 iteration
               (includes "exactly one free interior point, one iteration")
  contraction  max-norm distance to x* never grows from one smooth() call to the next (convex-combination argument)
  converged    once sqrt(n dmax/dmin) rho^N err0 <= 1e-12 ext : every free node = mean of its neighbours, = x*
  lattice      regular (affine) boundary, fixed nodes on the lattice  =>  the affine lattice
  copy-back    all faces sharing a node agree; positions / vertices / written file == grid points
"""

import math

import numpy as np

from vf import foamdict, geom, hexconv, lattice, util
from vf import xc15_topo as topo
from vf.core import jhash

ID = "C15"
BUDGET = {"quick": 3000, "thorough": 60000}
MIN_KEYS = 60
REQUIRED = [
    "kind:quad", "kind:hex", "class:structured", "class:holes", "class:disk", "class:star", "class:star+ring",
    "class:refined", "class:annulus", "class:libdisk", "class:hex-full", "class:hex-partial", "class:hex-extruded",
    "valence:3", "valence:5", "fix:by-index", "fix:by-position", "fix:none",
    "judged:boundary-unmoved", "judged:fixed-unmoved:by-index", "judged:fixed-unmoved:by-position",
    "judged:fixed-unmoved:by-position(within-1e-9)", "judged:decoy-position-fixes-nothing",
    "judged:isolated-free-exact", "judged:one-free-point-one-iteration", "judged:contraction",
    "judged:converged:quad", "judged:converged:hex", "judged:regular-lattice:quad", "judged:regular-lattice:hex",
    "judged:copy-back-shared-point", "judged:grid-vs-faces", "judged:grid-vs-vertices", "judged:written-file",
    "judged:fixed-after-the-first-smoothing", "late-fix:by-pos", "late-fix:by-idx", "judged:sketch-translated-after-smoothing", "hex:projected-corners", "history:mesh-backported-between-smooth-calls",
    "judged:default-iterations", "moved:free-point", "stage:second-smooth-call",
]
RULE = (
    "quad maps: structured n x m (n,m<=6), structured with removed cells, n x n core + 1-2 shell rings (3-valent "
    "nodes), closed rings of 3-8 x 2-4 quads, k-stars k=3,5,6 (+ ring, + refinement: 3-/5-/6-valent interior "
    "nodes), library disks (OneCore, FourCore, Wrapped, Half, Quarter, Oval); random node numbering, quad order, start corner, sense; random plane, shear, "
    "origin, scale 0.1..100. hex: 2x2x2..3x3x3 lattices (full or with removed cells) and small quad maps extruded "
    "into 2-3 layers (5-/7-valent interior nodes), every block renumbered by one of 24 rotations, interior jitter "
    "at build time or by Vertex.move_to. fixed sets: none / by index / by position "
    "(exact, within 1e-9, decoys) / mixed, split over 1-3 calls; 1-3 smooth() calls of 1..200 iterations. "
    "non-trivial: >=1 free interior node and >=1 boundary node; distinct by (kind, class, topology hash = multiset "
    "of (valence, boundary) + cell count, fixed pattern, stage pattern)"
)
ASSUMPTIONS = [
    "a point is identified up to the library's TOL = 1e-7: a position within 1e-9 of a node fixes that node, a "
    "position >= 1e-3*spacing away from every node fixes nothing",
    "'exactly where it was' is judged bit-wise on Face.point_array / Vertex.position",
    "the order of updates inside one iteration is not prescribed: only order-independent consequences are judged "
    "(isolated free nodes exact to 1e-12*ext, max-norm error to the harmonic solution non-increasing, convergence)",
    "convergence is judged only when the Jacobi bound sqrt(n*dmax/dmin)*rho^N*err0 <= 1e-12*ext (Gauss-Seidel is at "
    "least as fast for these M-matrices); tolerance 1e-9*ext, ext = bounding-box diagonal + max |coordinate|",
    "copies of one node (faces sharing it, sketch.positions, grid points, block vertices) are compared to 1e-10*ext, "
    "not bit-wise",
    "written file: 8 printed decimals -> |file - vertex| <= 0.51e-8 absolute",
    "mesh vertices are matched to lattice nodes by position (nodes are >= 0.01 apart, merge tolerance is 1e-7)",
]

LIBDISKS = ["OneCoreDisk", "FourCoreDisk", "WrappedDisk", "HalfDisk", "QuarterDisk", "Oval"]


# =================================================================================================
# generation

def _scale(rng):
    """model size: 0.1..100, and (10 %) sub-millimetre models drawn in metres (point spacing ~1e-5..1e-4, still far above
    the library's 1e-7 position tolerance)"""
    if rng.random() < 0.1:
        return 10 ** rng.uniform(-4.3, -3.5)
    return 10 ** rng.uniform(-1, 2)

def _r(x):
    return [float(v) for v in x]


def _embed(rng):
    frame = geom.orthonormal_frame(rng)
    sx, sy = rng.uniform(0.6, 1.8), rng.uniform(0.6, 1.8)
    shear = rng.choice([0.0, 0.0, rng.uniform(-0.5, 0.5)])
    scale = _scale(rng)
    origin = np.array([rng.uniform(-3, 3) for _ in range(3)]) * scale * rng.choice([0, 1, 1])
    if rng.random() < 0.15:
        frame = np.eye(3)  # the z = 0 plane of the unit tests
    A = np.array([[sx, shear], [0.0, sy]])

    def emb(uv):
        w = A @ np.asarray(uv, dtype=float)
        return origin + scale * (w[0] * frame[0] + w[1] * frame[1])

    return emb, scale


def _quad_topology(rng):
    cls = rng.choices(["structured", "holes", "disk", "star", "star+ring", "refined", "annulus"],
                      [32, 10, 15, 11, 13, 12, 7])[0]
    if cls == "structured":
        n, m = rng.randint(1, 6), rng.randint(1, 6)
        if rng.random() < 0.85:
            n, m = max(n, 2), max(m, 2)
        uv, quads = topo.structured(n, m)
    elif cls == "holes":
        uv, quads = topo.with_holes(rng, rng.randint(3, 6), rng.randint(3, 6))
    elif cls == "disk":
        uv, quads = topo.disk(rng.randint(1, 3), rng.randint(1, 2))
    elif cls == "annulus":
        uv, quads = topo.annulus(rng.randint(3, 8), rng.randint(2, 4))
    elif cls == "star":
        uv, quads = topo.star(rng.choice([3, 5, 5, 6]), rng.randint(1, 3))
    elif cls == "star+ring":
        uv, quads = topo.star(rng.choice([3, 5, 5, 6]), rng.randint(1, 2))
        for _ in range(rng.randint(1, 2)):
            uv, quads = topo.add_ring(uv, quads, 1.5)
    else:
        base = rng.choice(["disk", "star", "star+ring", "holes"])
        if base == "disk":
            uv, quads = topo.disk(1, 1)
        elif base == "star":
            uv, quads = topo.star(rng.choice([3, 5]), 1)
        elif base == "star+ring":
            uv, quads = topo.add_ring(*topo.star(rng.choice([3, 5]), 1), 1.5)
        else:
            uv, quads = topo.with_holes(rng, 3, 3)
        uv, quads = topo.refine(uv, quads)
    return cls, uv, quads


def _fix_plan(rng, interior, boundary, nbrs, cells, regular):
    """-> (mode, fixed interior ids, list of calls [{'by','ids','near','decoys','as'}])"""
    mode = rng.choices(["none", "idx", "pos", "mixed", "independent", "all"], [24, 18, 18, 12, 22, 6])[0]
    interior = sorted(interior)
    if not interior:
        mode = rng.choice(["none", "idx", "pos"])
    chosen = []
    if mode in ("idx", "pos", "mixed"):
        p = rng.choice([0.1, 0.25, 0.5])
        chosen = [k for k in interior if rng.random() < p]
        if not chosen and interior and rng.random() < 0.7:
            chosen = [rng.choice(interior)]
        if boundary and rng.random() < 0.4:
            chosen += rng.sample(sorted(boundary), min(len(boundary), rng.randint(1, 2)))
    elif mode == "independent":
        free = topo.independent_set(rng, interior, nbrs, rng.choice([1, 1, 2, 3, None]))
        chosen = [k for k in interior if k not in free]
    elif mode == "all":
        chosen = list(interior)
    rng.shuffle(chosen)
    calls = []
    if chosen or mode != "none":
        nchunks = rng.randint(1, 3) if len(chosen) > 1 else 1
        chunks = [chosen[i::nchunks] for i in range(nchunks)]
        for chunk in chunks:
            if mode == "idx":
                by = "idx"
            elif mode == "pos":
                by = "pos"
            else:
                by = rng.choice(["idx", "pos"])
            call = {"by": by, "ids": [int(k) for k in chunk]}
            if by == "idx":
                call["as"] = rng.choice(["list", "tuple", "set", "ndarray", "generator"])
                if chunk and rng.random() < 0.2:
                    call["ids"] = call["ids"] + [call["ids"][0]]  # a repeated index
            else:
                call["as"] = rng.choice(["list", "ndarray", "list-of-arrays"])
                call["near"] = [bool(rng.random() < 0.3) for _ in chunk]
                call["decoys"] = rng.randint(0, 2)
            calls.append(call)
    return mode, sorted(set(chosen)), calls


def _finish_calls(rng, calls, P0, cells):
    """turn node ids of position calls into explicit coordinates (exact, within 1e-9, decoys = cell centres)"""
    out = []
    for call in calls:
        if call["by"] == "idx":
            out.append({"by": "idx", "ids": call["ids"], "as": call["as"]})
            continue
        pts, kinds = [], []
        for k, near in zip(call["ids"], call["near"]):
            p = np.array(P0[k], dtype=float)
            if near:
                d = geom.rand_unit(rng) * 1e-9
                p = p + d
            pts.append(_r(p))
            kinds.append("near" if near else "exact")
        for _ in range(call["decoys"]):
            cell = rng.choice(cells)
            pts.append(_r(np.mean([P0[k] for k in cell], axis=0)))
            kinds.append("decoy")
        order = list(range(len(pts)))
        rng.shuffle(order)
        out.append({"by": "pos", "points": [pts[i] for i in order], "kinds": [kinds[i] for i in order], "as": call["as"]})
    return out


def _stages(rng, P0, nbrs, free, held_ext):
    """1-3 smooth() calls; the last ones long enough for the convergence clause when that fits into 3 x 200"""
    short = rng.choice([1, 1, 1, 2, 3, 5, 8, 13, 25, rng.randint(1, 200), None])
    if not free:
        return [short]
    xs, rho = topo.harmonic(np.asarray(P0), nbrs, free)
    err0 = max(float(np.max(np.abs(np.asarray(P0[k]) - xs[k]))) for k in free)
    degs = [len(nbrs[k]) for k in free]
    need = topo.iterations_needed(rho, len(free), max(degs), min(degs), err0 / held_ext)
    u = rng.random()
    if need > 600 or u < 0.25:
        return [short] if rng.random() < 0.7 else [short, rng.choice([1, 2, 5, 20])]
    conv = []
    left = need
    while left > 0:
        k = min(200, left)
        if left <= 200:
            k = rng.randint(left, 200)
        conv.append(k)
        left -= k
    if u < 0.6 and len(conv) < 3:
        return [short] + conv
    return conv


def _ext(P):
    P = np.asarray(P, dtype=float)
    return float(np.linalg.norm(P.max(axis=0) - P.min(axis=0)) + np.max(np.abs(P)))


def gen_quad(rng):
    if rng.random() < 0.06:
        return gen_libdisk(rng)
    cls, uv, quads = _quad_topology(rng)
    reverse = rng.random() < 0.2
    uv, quads, _ = topo.relabel(rng, uv, quads, reverse)
    nodes, nbrs, boundary = topo.analyse(quads)
    interior = [k for k in nodes if k not in boundary]
    regular = cls == "structured" and rng.random() < 0.45
    mode, fixed, calls = _fix_plan(rng, interior, boundary, nbrs, quads, regular)
    uv = np.array(uv, dtype=float)
    lat_uv = uv.copy()
    medge = topo.min_edge_at(uv, nbrs)
    if not regular:
        # irregular geometry: every node (boundary too) is displaced a little
        for k in nodes:
            uv[k] += np.array([rng.uniform(-1, 1), rng.uniform(-1, 1)]) * 0.12 * medge[k]
    amp = rng.choice([0.05, 0.3, 0.3, 0.45])
    for k in interior:
        if regular and k in fixed:
            continue  # fixed nodes stay on the lattice: the lattice remains the solution
        uv[k] += np.array([rng.uniform(-1, 1), rng.uniform(-1, 1)]) * amp * medge[k]
    emb, scale = _embed(rng)
    P0 = [_r(emb(p)) for p in uv]
    case = {"kind": "quad", "cls": cls, "positions": P0, "quads": [[int(k) for k in q] for q in quads],
            "positions_as": rng.choice(["ndarray", "list"]), "fixmode": mode, "reversed": reverse,
            "fix": _finish_calls(rng, calls, P0, quads)}
    if regular:
        case["lattice"] = [_r(emb(p)) for p in lat_uv]
    free = [k for k in interior if k not in fixed]
    case["stages"] = _stages(rng, P0, nbrs, free, _ext(P0))
    return case


def gen_libdisk(rng):
    name = rng.choice(LIBDISKS)
    frame = geom.orthonormal_frame(rng)
    scale = _scale(rng)
    c = np.array([rng.uniform(-3, 3) for _ in range(3)]) * scale * rng.choice([0, 1])
    r = scale * rng.uniform(0.5, 2)
    ang = rng.uniform(0, 2 * math.pi)
    rp = c + r * (math.cos(ang) * frame[0] + math.sin(ang) * frame[1])
    if name == "WrappedDisk":
        corner = c + 2.2 * r * (math.cos(ang) * frame[0] + math.sin(ang) * frame[1])
        args = [_r(c), _r(corner), float(r), _r(frame[2])]
    elif name == "Oval":
        c2 = c + 1.5 * r * (math.cos(ang) * frame[0] + math.sin(ang) * frame[1])
        args = [_r(c), _r(c2), _r(frame[2]), float(r)]
    else:
        args = [_r(c), _r(rp), _r(frame[2])]
    mode = rng.choice(["none", "none", "idx", "pos"])
    return {"kind": "quad", "cls": "libdisk", "name": name, "args": args, "fixmode": mode,
            "fix_fraction": rng.choice([0.2, 0.5]), "fix_seed": rng.randrange(10**6),
            "stages": [rng.choice([1, 2, 5, None]), 200, 200][: rng.choice([1, 2, 3])]}


HEX_DIMS = [((2, 2, 2), 5), ((3, 2, 2), 5), ((3, 3, 2), 3), ((3, 3, 3), 1), ((4, 2, 2), 1)]


def gen_hex(rng):
    dims = list(rng.choices([d for d, _ in HEX_DIMS], [w for _, w in HEX_DIMS])[0])
    rng.shuffle(dims)
    cells = [(i, j, k) for k in range(dims[2]) for j in range(dims[1]) for i in range(dims[0])]
    partial = rng.random() < 0.3
    if partial:
        drop = set(rng.sample(cells, rng.randint(1, 2)))
        cells = [c for c in cells if c not in drop]
    rng.shuffle(cells)
    rotate = rng.random() < 0.8
    hexes_lat = []
    for c in cells:
        ids = [lattice.node_id(dims, c[0] + d[0], c[1] + d[1], c[2] + d[2]) for d in hexconv.CORNER]
        perm = hexconv.ROTATIONS[rng.randrange(24) if rotate else 0]
        hexes_lat.append(hexconv.renumber(ids, perm))
    used = sorted({k for h in hexes_lat for k in h})
    new = {k: i for i, k in enumerate(used)}
    hexes = [[new[k] for k in h] for h in hexes_lat]
    coords = {}
    for k in range(dims[2] + 1):
        for j in range(dims[1] + 1):
            for i in range(dims[0] + 1):
                nid = lattice.node_id(dims, i, j, k)
                if nid in new:
                    coords[new[nid]] = np.array([i, j, k], dtype=float)
    nodes, nbrs, boundary = topo.analyse(hexes)
    interior = [k for k in nodes if k not in boundary]
    regular = (not partial) and rng.random() < 0.5
    mode, fixed, calls = _fix_plan(rng, interior, boundary, nbrs, hexes, regular)
    # affine lattice -> space
    frame = geom.orthonormal_frame(rng) if rng.random() < 0.8 else np.eye(3)
    sp = [rng.uniform(0.6, 1.8) for _ in range(3)]
    sh = np.eye(3)
    if rng.random() < 0.4:
        sh[0, 1] = rng.uniform(-0.4, 0.4)
        sh[1, 2] = rng.uniform(-0.4, 0.4)
    scale = _scale(rng)
    origin = np.array([rng.uniform(-3, 3) for _ in range(3)]) * scale * rng.choice([0, 1, 1])
    M = frame.T @ sh @ np.diag(sp)

    def emb(u):
        return origin + scale * (M @ np.asarray(u, dtype=float))

    base = {k: coords[k].copy() for k in nodes}
    if not regular:
        for k in nodes:
            base[k] = base[k] + np.array([rng.uniform(-1, 1) for _ in range(3)]) * 0.1
    jit = {k: base[k].copy() for k in nodes}
    amp = rng.choice([0.05, 0.25, 0.3])
    for k in interior:
        if regular and k in fixed:
            continue
        jit[k] = jit[k] + np.array([rng.uniform(-1, 1) for _ in range(3)]) * amp
    variant = rng.choice(["build", "move_to"])
    P0 = [_r(emb(jit[k])) for k in nodes]
    build = P0 if variant == "build" else [_r(emb(base[k])) if k in interior else P0[k] for k in nodes]
    case = {"kind": "hex", "cls": "hex-partial" if partial else "hex-full", "dims": dims, "hexes": hexes,
            "positions": P0, "build_positions": build, "variant": variant, "fixmode": mode,
            "fix": _finish_calls(rng, calls, P0, hexes), "write": rng.random() < 0.35}
    if regular:
        case["lattice"] = [_r(emb(coords[k])) for k in nodes]
    free = [k for k in interior if k not in fixed]
    case["stages"] = _stages(rng, P0, nbrs, free, _ext(P0))
    return case


def gen_hex_extruded(rng):
    """an unstructured hexahedral assembly: a small quad map extruded into 2-3 layers (3-/5-valent columns)"""
    base = rng.choice(["disk", "star3+ring", "star5+ring", "annulus", "structured"])
    if base == "disk":
        uv, quads = topo.disk(1, 1)
    elif base == "star3+ring":
        uv, quads = topo.add_ring(*topo.star(3, 1), 1.6)
    elif base == "star5+ring":
        uv, quads = topo.add_ring(*topo.star(5, 1), 1.6)
    elif base == "annulus":
        uv, quads = topo.annulus(rng.randint(3, 5), 2)
    else:
        uv, quads = topo.structured(2, 2)
    uv, quads, _ = topo.relabel(rng, uv, quads, False)
    layers = rng.choice([2, 2, 3])
    n2 = len(uv)
    hexes = []
    for lay in range(layers):
        for q in quads:
            ids = [lay * n2 + k for k in q] + [(lay + 1) * n2 + k for k in q]
            hexes.append(hexconv.renumber(ids, hexconv.ROTATIONS[rng.randrange(24)]))
    rng.shuffle(hexes)
    nodes, nbrs, boundary = topo.analyse(hexes)
    interior = [k for k in nodes if k not in boundary]
    mode, fixed, calls = _fix_plan(rng, interior, boundary, nbrs, hexes, False)
    frame = geom.orthonormal_frame(rng)
    scale = _scale(rng)
    origin = np.array([rng.uniform(-3, 3) for _ in range(3)]) * scale * rng.choice([0, 1, 1])
    h = rng.uniform(0.5, 1.2)
    skew = np.array([rng.uniform(-0.2, 0.2), rng.uniform(-0.2, 0.2)]) * rng.choice([0, 1])
    pts = np.zeros(((layers + 1) * n2, 3))
    for lay in range(layers + 1):
        for k in range(n2):
            w = np.array(uv[k]) + skew * lay
            pts[lay * n2 + k] = w[0] * frame[0] + w[1] * frame[1] + lay * h * frame[2]
    medge = topo.min_edge_at(pts, nbrs)
    base_pts = pts.copy()
    for k in nodes:
        base_pts[k] += np.array([rng.uniform(-1, 1) for _ in range(3)]) * 0.08 * medge[k]
    jit = base_pts.copy()
    amp = rng.choice([0.05, 0.2, 0.3])
    for k in interior:
        jit[k] += np.array([rng.uniform(-1, 1) for _ in range(3)]) * amp * medge[k]
    variant = rng.choice(["build", "move_to"])
    P0 = [_r(origin + scale * jit[k]) for k in nodes]
    build = P0 if variant == "build" else [_r(origin + scale * base_pts[k]) if k in interior else P0[k] for k in nodes]
    case = {"kind": "hex", "cls": "hex-extruded", "base": base, "layers": layers, "hexes": hexes, "positions": P0,
            "build_positions": build, "variant": variant, "fixmode": mode,
            "fix": _finish_calls(rng, calls, P0, hexes), "write": rng.random() < 0.35}
    free = [k for k in interior if k not in fixed]
    case["stages"] = _stages(rng, P0, nbrs, free, _ext(P0))
    return case


def _with_late_fix(rng, case):
    if rng.random() < 0.3:
        case["late_fix"] = {"by": rng.choice(["pos", "pos", "idx"]), "picks": [rng.randrange(1000) for _ in range(rng.randint(1, 2))],
                            "iterations": rng.randint(1, 5)}
    return case


def gen_case(ctx):
    u = ctx.rng.random()
    if u < 0.22:
        return _with_late_fix(ctx.rng, gen_hex(ctx.rng))
    if u < 0.32:
        return _with_late_fix(ctx.rng, gen_hex_extruded(ctx.rng))
    return _with_late_fix(ctx.rng, gen_quad(ctx.rng))


def fixed_cases(tier):
    """the unit tests' own situations, kept as anchors: a 2x2 map and a 2x2x2 box with one displaced centre"""
    uv, quads = topo.structured(2, 2)
    P = [[p[0], p[1], 0.0] for p in uv]
    lat = [list(p) for p in P]
    P[4] = [1.3, 0.8, 0.0]
    out = [{"kind": "quad", "cls": "structured", "positions": P, "quads": quads, "positions_as": "list",
            "fixmode": "none", "reversed": False, "fix": [], "lattice": lat, "stages": [1]},
           {"kind": "quad", "cls": "structured", "positions": P, "quads": quads, "positions_as": "list",
            "fixmode": "none", "reversed": False, "fix": [], "lattice": lat, "stages": [1],
            "late_fix": {"by": "pos", "picks": [0], "iterations": 3}},
           {"kind": "quad", "cls": "structured", "positions": P, "quads": quads, "positions_as": "ndarray",
            "fixmode": "idx", "reversed": False, "fix": [{"by": "idx", "ids": [4], "as": "list"}], "stages": [None]}]
    dims = [2, 2, 2]
    hexes, coords = [], {}
    for c in [(i, j, k) for k in range(2) for j in range(2) for i in range(2)]:
        hexes.append([lattice.node_id(dims, c[0] + d[0], c[1] + d[1], c[2] + d[2]) for d in hexconv.CORNER])
    for k in range(3):
        for j in range(3):
            for i in range(3):
                coords[lattice.node_id(dims, i, j, k)] = [float(i), float(j), float(k)]
    lat = [coords[k] for k in range(27)]
    P = [list(p) for p in lat]
    P[13] = [1.3, 1.3, 1.3]
    out.append({"kind": "hex", "cls": "hex-full", "dims": dims, "hexes": hexes, "positions": P, "build_positions": lat,
                "variant": "move_to", "fixmode": "none", "fix": [], "write": True, "lattice": lat, "stages": [1]})
    out.append({"kind": "hex", "cls": "hex-full", "dims": dims, "hexes": hexes, "positions": P, "build_positions": P,
                "variant": "build", "fixmode": "pos", "write": False, "stages": [None],
                "fix": [{"by": "pos", "points": [[1.3, 1.3, 1.3]], "kinds": ["exact"], "as": "list"}]})
    return out


# =================================================================================================
# running
class Judge:
    """oracle state for one case (node numbering of the case)"""

    def __init__(self, ctx, case, kind, cells, P0):
        self.ctx, self.case, self.kind = ctx, case, kind
        self.cells = cells
        self.P0 = np.array(P0, dtype=float)
        self.nodes, self.nbrs, self.boundary = topo.analyse(cells)
        self.interior = [k for k in self.nodes if k not in self.boundary]
        self.ext = _ext(self.P0)
        self.fixed_by = {}  # node -> "by-index" | "by-position" | "by-position(within-1e-9)"
        self.ambiguous = False
        self.sweeps = 0
        self.calls = 0

    # ---- the user's fixed set, recomputed by the harness ---------------------------------------
    def fix_by_index(self, ids):
        for k in ids:
            self.fixed_by.setdefault(int(k), "by-index")

    def fix_by_position(self, points, kinds):
        for p, kind in zip(points, kinds):
            d = np.linalg.norm(self.P0 - np.array(p, dtype=float), axis=1)
            hit = [int(k) for k in np.nonzero(d < 5e-8)[0]]
            if np.any((d >= 5e-8) & (d < 1e-3 * self.min_spacing())):
                self.ambiguous = True
            if kind == "decoy":
                if hit:
                    self.ambiguous = True
                self.ctx.count("judged:decoy-position-fixes-nothing")  # judged through the free nodes' behaviour
            for k in hit:
                self.fixed_by.setdefault(k, "by-position" if kind == "exact" else "by-position(within-1e-9)")

    def min_spacing(self):
        if not hasattr(self, "_msp"):
            me = topo.min_edge_at(self.P0, self.nbrs)
            self._msp = min(me.values())
        return self._msp

    def prepare(self):
        self.free = [k for k in self.interior if k not in self.fixed_by]
        free = set(self.free)
        self.isolated = [k for k in self.free if not any(j in free for j in self.nbrs[k])]
        self.xstar, self.rho = topo.harmonic(self.P0, self.nbrs, self.free)
        if self.free:
            self.err0 = self.err(self.P0)
            degs = [len(self.nbrs[k]) for k in self.free]
            self.kfac = math.sqrt(len(self.free) * max(degs) / min(degs))
        else:
            self.err0, self.kfac = 0.0, 1.0
        self.err_prev = self.err0
        for k in self.interior:
            v = len(self.nbrs[k])
            self.ctx.count(f"valence:{v}")

    def err(self, X):
        return max(float(np.max(np.abs(X[k] - self.xstar[k]))) for k in self.free) if self.free else 0.0

    def bound(self):
        """Jacobi bound on the max-norm error after self.sweeps sweeps (0 counted for a default-argument call)"""
        if not self.free:
            return 0.0
        return self.kfac * (self.rho ** self.sweeps) * self.err0

    def key(self):
        sig = sorted((len(self.nbrs[k]), k in self.boundary) for k in self.nodes)
        nfix = len([k for k in self.interior if k in self.fixed_by])
        free = set(self.free)
        indep = bool(self.free) and len(self.isolated) == len(self.free)
        stages = ["default" if s is None else "1" if s == 1 else "short" if s < 30 else "long" for s in self.case["stages"]]
        return [self.kind, self.case["cls"], jhash([sig, len(self.cells)]), self.case["fixmode"], min(nfix, 3),
                "independent" if indep else "coupled" if free else "no-free", stages]

    # ---- one judged observation ----------------------------------------------------------------
    def judge(self, X, first_stage_one_iteration, occurrences=None):
        """X: positions per node after a smooth() call (public observation); occurrences: every (node, position)
        pair observed (a node of a sketch is stored once per face). -> False to stop judging this case"""
        ctx, kind, ext = self.ctx, self.kind, self.ext
        if not np.all(np.isfinite(X)):
            ctx.violation(f"non-finite-position:{kind}", f"{self.describe()}: positions after smoothing contain nan/inf")
            return False
        # unmoved ---------------------------------------------------------------------------------
        for k, val in (occurrences if occurrences is not None else [(k, X[k]) for k in self.nodes]):
            if k in self.boundary:
                ctx.count("judged:boundary-unmoved")
                if not np.array_equal(val, self.P0[k]):
                    ctx.violation(f"boundary-point-moved:{kind}",
                                  f"{self.describe()}: boundary node {k} moved {self.P0[k].tolist()} -> {np.array(val).tolist()}")
                    return False
            elif k in self.fixed_by:
                how = self.fixed_by[k]
                ctx.count(f"judged:fixed-unmoved:{how}")
                if not np.array_equal(val, self.P0[k]):
                    ctx.violation(f"fixed-point-moved:{how}:{kind}",
                                  f"{self.describe()}: node {k} fixed {how} moved {self.P0[k].tolist()} -> {np.array(val).tolist()}")
                    return False
        if any(not np.array_equal(X[k], self.P0[k]) for k in self.free):
            ctx.count("moved:free-point")
        # isolated free nodes: exact ----------------------------------------------------------------
        for k in self.isolated:
            mean = np.mean([X[j] for j in self.nbrs[k]], axis=0)
            ctx.count("judged:isolated-free-exact")
            if len(self.free) == 1 and first_stage_one_iteration:
                ctx.count("judged:one-free-point-one-iteration")
            if not (float(np.max(np.abs(X[k] - mean))) <= 1e-12 * ext):
                single = ":single-free-point" if len(self.free) == 1 else ""
                ctx.violation(f"free-point-not-on-mean-of-held-neighbours:{kind}{single}",
                              f"{self.describe()}: free node {k} (valence {len(self.nbrs[k])}, all neighbours boundary/fixed) is at "
                              f"{X[k].tolist()} after {self.sweeps}+ iterations, the mean of its edge neighbours {self.nbrs[k]} is "
                              f"{mean.tolist()} (off by {float(np.max(np.abs(X[k] - mean))):.3g}, ext {ext:.3g})")
                return False
        if not self.free:
            return True
        # contraction -----------------------------------------------------------------------------
        e = self.err(X)
        ctx.count("judged:contraction")
        if not (e <= self.err_prev + 1e-12 * ext):
            ctx.violation(f"distance-to-harmonic-solution-grew:{kind}",
                          f"{self.describe()}: max-norm distance of the free nodes to the solution of 'each = mean of its "
                          f"edge neighbours' grew from {self.err_prev:.6g} to {e:.6g} during smooth() call #{self.calls}")
            return False
        self.err_prev = e
        # converged -------------------------------------------------------------------------------
        if self.bound() <= 1e-12 * ext:
            ctx.count(f"judged:converged:{kind}")
            worst, wk = 0.0, None
            for k in self.free:
                mean = np.mean([X[j] for j in self.nbrs[k]], axis=0)
                d = float(np.max(np.abs(X[k] - mean)))
                if d > worst:
                    worst, wk = d, k
            if not (worst <= 1e-9 * ext and e <= 1e-9 * ext):
                ctx.violation(f"not-converged-to-neighbour-mean:{kind}",
                              f"{self.describe()}: after {self.sweeps} iterations (Jacobi bound {self.bound():.3g}, rho "
                              f"{self.rho:.4f}) free node {wk} is {worst:.3g} away from the mean of its edge neighbours "
                              f"{self.nbrs.get(wk)}; distance to the harmonic solution {e:.3g}; ext {ext:.3g}")
                return False
            if "lattice" in self.case:
                ctx.count(f"judged:regular-lattice:{kind}")
                lat = np.array(self.case["lattice"], dtype=float)
                d = float(np.max(np.abs(X - lat)))
                if not (d <= 1e-8 * ext):
                    ctx.violation(f"regular-boundary-not-regular-lattice:{kind}",
                                  f"{self.describe()}: regular boundary, {self.sweeps} iterations, but the points are up to {d:.3g} "
                                  f"off the regular lattice (ext {ext:.3g})")
                    return False
        else:
            ctx.count("stage:not-converged-by-bound")
        return True

    def describe(self):
        c = self.case
        return (f"{self.kind}/{c['cls']} {len(self.nodes)} nodes {len(self.cells)} cells, fix={c['fixmode']} "
                f"({len([k for k in self.interior if k in self.fixed_by])} interior fixed, {len(self.free)} free), "
                f"stages={c['stages']}")


def _as_index_arg(ids, how):
    if how == "tuple":
        return tuple(ids)
    if how == "set":
        return set(ids)
    if how == "ndarray":
        return np.array(ids, dtype=int)
    if how == "generator":
        return (i for i in list(ids))  # a one-shot iterable (the signature says Iterable[int])
    return list(ids)


def _as_points_arg(points, how):
    if how == "ndarray":
        return np.array(points, dtype=float).reshape((-1, 3))
    if how == "list-of-arrays":
        return [np.array(p, dtype=float) for p in points]
    return [list(p) for p in points]


def _apply_fix(ctx, judge, smoother, fix, to_library_index):
    if not fix:
        ctx.count("fix:none")
    for call in fix:
        if call["by"] == "idx":
            ctx.count("fix:by-index")
            judge.fix_by_index(call["ids"])
            smoother.fix_indexes(_as_index_arg([to_library_index(k) for k in call["ids"]], call["as"]))
        else:
            ctx.count("fix:by-position")
            judge.fix_by_position(call["points"], call["kinds"])
            if call["points"]:
                smoother.fix_points(_as_points_arg(call["points"], call["as"]))
            else:
                smoother.fix_points([])


def _late_fix(ctx, case, judge, smoother, read_positions, to_library_index, kind):
    """history on the long-lived smoother: after the judged smooth() calls some still-free interior nodes are fixed (by their
    current position, or by index) and smoothing goes on - from then on they must not move by a single bit"""
    free = sorted(judge.free)
    if not free or not case.get("late_fix"):
        return True
    lf = case["late_fix"]
    chosen = [free[i % len(free)] for i in lf["picks"]]
    chosen = sorted(set(chosen))
    X = read_positions()
    # a position shared by two nodes would make fixing by position ambiguous
    if lf["by"] == "pos":
        for k in chosen:
            if sum(1 for j in range(len(X)) if float(np.max(np.abs(X[j] - X[k]))) <= 1e-9 * judge.ext) != 1:
                return True
        smoother.fix_points([X[k].tolist() for k in chosen])
    else:
        smoother.fix_indexes([to_library_index(k) for k in chosen])
    smoother.smooth(int(lf["iterations"]))
    Y = read_positions()
    ctx.count("judged:fixed-after-the-first-smoothing")
    ctx.count(f"late-fix:by-{lf['by']}")
    for k in chosen:
        if not np.array_equal(X[k], Y[k]):
            ctx.violation(f"fixed-after-smoothing-still-moves:{kind}:by-{'position' if lf['by'] == 'pos' else 'index'}",
                          f"{judge.describe()}: node {k} was fixed at {X[k].tolist()} after {judge.calls} smooth() call(s); "
                          f"{lf['iterations']} more iterations moved it to {Y[k].tolist()}")
            return False
    return True


def _smooth(ctx, judge, smoother, k):
    judge.calls += 1
    if judge.calls == 2:
        ctx.count("stage:second-smooth-call")
    if k is None:
        ctx.count("judged:default-iterations")
        smoother.smooth()
    else:
        smoother.smooth(int(k))
        judge.sweeps += int(k)


def _grid_points(smoother):
    try:
        pts = np.array(smoother.grid.points, dtype=float)
        return pts if pts.ndim == 2 and pts.shape[1] == 3 else None
    except Exception:  # noqa: BLE001
        return None


def run_case(ctx, case):
    ctx.count(f"kind:{case['kind']}")
    ctx.count(f"class:{case['cls']}")
    if case["kind"] == "quad":
        run_quad(ctx, case)
    else:
        run_hex(ctx, case)


def _libdisk(case):
    from classy_blocks.construct.flat.sketches import disk as cbdisk

    sketch = getattr(cbdisk, case["name"])(*case["args"])
    P0 = np.array(sketch.positions, dtype=float)
    quads = [[int(k) for k in q] for q in sketch.indexes]
    return sketch, P0, quads


def run_quad(ctx, case):
    import random

    import classy_blocks as cb

    if case["cls"] == "libdisk":
        sketch, P0, quads = _libdisk(case)
        case = dict(case)
        rng = random.Random(case["fix_seed"])
        nodes, nbrs, boundary = topo.analyse(quads)
        interior = [k for k in nodes if k not in boundary]
        chosen = [k for k in interior if rng.random() < case["fix_fraction"]]
        if case["fixmode"] == "idx":
            case["fix"] = [{"by": "idx", "ids": chosen, "as": "list"}]
        elif case["fixmode"] == "pos":
            case["fix"] = [{"by": "pos", "points": [P0[k].tolist() for k in chosen], "kinds": ["exact"] * len(chosen), "as": "list"}]
        else:
            case["fix"] = []
    else:
        P0 = np.array(case["positions"], dtype=float)
        quads = case["quads"]
        arg = P0.copy() if case["positions_as"] == "ndarray" else [list(p) for p in case["positions"]]
        sketch = cb.MappedSketch(arg, [list(q) for q in quads])
    judge = Judge(ctx, case, "quad", quads, P0)
    # the sketch must start where the case says (otherwise this is not a C15 observation)
    for i, q in enumerate(quads):
        if not np.array_equal(np.array(sketch.faces[i].point_array), P0[q]):
            ctx.count("skipped:construction-not-faithful")
            return
    smoother = cb.SketchSmoother(sketch)
    _apply_fix(ctx, judge, smoother, case["fix"], lambda k: k)
    if judge.ambiguous:
        ctx.count("skipped:ambiguous-fixed-position")
        return
    judge.prepare()
    ctx.key(judge.key(), nontrivial=bool(judge.free) and bool(judge.boundary))
    ctx.sample(_sample(case, judge))
    for si, k in enumerate(case["stages"]):
        _smooth(ctx, judge, smoother, k)
        ctx.evaluated()
        faces = [np.array(f.point_array, dtype=float) for f in sketch.faces]
        if len(faces) != len(quads):
            ctx.violation("face-count-changed:quad", f"{judge.describe()}: {len(faces)} faces for {len(quads)} quads")
            return
        if not all(np.all(np.isfinite(fa)) for fa in faces):
            ctx.violation("non-finite-position:quad", f"{judge.describe()}: face points after smoothing contain nan/inf")
            return
        # copy-back: every face that shares a node carries the same position
        X = np.full((len(P0), 3), np.nan)
        agree = 1e-10 * judge.ext
        for i, q in enumerate(quads):
            for c, node in enumerate(q):
                if np.isnan(X[node][0]):
                    X[node] = faces[i][c]
                else:
                    ctx.count("judged:copy-back-shared-point")
                    if not float(np.max(np.abs(X[node] - faces[i][c]))) <= agree:
                        ctx.violation("faces-disagree-after-copy-back:quad",
                                      f"{judge.describe()}: node {node} is at {X[node].tolist()} in one face and at "
                                      f"{faces[i][c].tolist()} in face {i} corner {c} after smooth() call #{judge.calls}")
                        return
        grid = _grid_points(smoother)
        if grid is not None and len(grid) == len(X):
            ctx.count("judged:grid-vs-faces")
            d = float(np.max(np.abs(grid - X)))
            if not d <= agree:
                ctx.violation("grid-vs-faces:quad",
                              f"{judge.describe()}: smoother.grid.points and the sketch faces differ by {d:.3g} after smooth()")
                return
        pos = np.array(sketch.positions, dtype=float)
        ctx.count("judged:positions-vs-faces")
        if pos.shape != X.shape or not float(np.max(np.abs(pos - X))) <= agree:
            ctx.violation("positions-vs-faces:quad", f"{judge.describe()}: sketch.positions differs from the faces' points")
            return
        occ = [(node, faces[i][c]) for i, q in enumerate(quads) for c, node in enumerate(q)]
        if not judge.judge(X, si == 0 and k == 1, occ):
            return

    def read_quad():
        out = np.full((len(P0), 3), np.nan)
        for i, q in enumerate(quads):
            for c, node in enumerate(q):
                out[node] = np.array(sketch.faces[i].point_array, dtype=float)[c]
        return out

    if not _late_fix(ctx, case, judge, smoother, read_quad, lambda k: k, "quad"):
        return
    # history: the smoothed sketch is used further - moved as a whole through its own method; every corner of every face
    # moves by exactly that vector (faces must hold their own copies of the smoothed positions)
    if int(judge.ext * 1e6) % 2 == 0:
        d = np.array([0.37, -0.21, 0.0]) * judge.ext
        before = [np.array(f.point_array, dtype=float) for f in sketch.faces]
        sketch.translate(list(d))
        after = [np.array(f.point_array, dtype=float) for f in sketch.faces]
        ctx.count("judged:sketch-translated-after-smoothing")
        for i, (b, a) in enumerate(zip(before, after)):
            if not float(np.max(np.abs(a - b - d))) <= 1e-10 * judge.ext:
                ctx.violation("translate-after-smoothing-moves-points-unevenly:quad",
                              f"{judge.describe()}: after smooth() and sketch.translate({d.tolist()}) face {i} moved by "
                              f"{(a - b).tolist()}")
                return


def _sample(case, judge):
    s = {k: v for k, v in case.items() if k not in ("positions", "build_positions", "lattice", "fix", "quads", "hexes")}
    s["nodes"], s["cells"], s["free"], s["boundary"] = len(judge.nodes), len(judge.cells), len(judge.free), len(judge.boundary)
    s["fix_calls"] = [[c["by"], len(c.get("ids", c.get("points", [])))] for c in case["fix"]]
    if len(judge.nodes) <= 16:
        s["positions"] = case.get("positions")
        s["cells_list"] = judge.cells
    return s


def run_hex(ctx, case):
    import classy_blocks as cb

    P0 = np.array(case["positions"], dtype=float)
    B0 = np.array(case["build_positions"], dtype=float)
    hexes = case["hexes"]
    judge = Judge(ctx, case, "hex", hexes, P0)
    mesh = cb.Mesh()
    flavour = int(judge.ext * 1e6)
    for hi, h in enumerate(hexes):
        pts = B0[h]
        op = cb.Loft(cb.Face(pts[:4]), cb.Face(pts[4:]))
        for axis in range(3):
            op.chop(axis, count=2)
        if flavour % 4 == 0 and hi == 0:
            # some corners of the first block are projected to a geometry: that is no reason for them to stay put
            op.project_corner(6, "prj")
            op.project_corner(flavour % 8, "prj")
            mesh.add_geometry({"prj": ["type sphere", "origin (0 0 0)", "radius 1000"]})
            ctx.count("hex:projected-corners")
        mesh.add(op)
    mesh.assemble()
    verts = mesh.vertices
    V = np.array([v.position for v in verts], dtype=float)
    # node <-> vertex by position (independent of the library's numbering)
    node_of, vert_of = {}, {}
    for vi, p in enumerate(V):
        d = np.linalg.norm(B0 - p, axis=1)
        k = int(np.argmin(d))
        if d[k] > 1e-9 * judge.ext or k in vert_of:
            ctx.count("skipped:vertex-map-not-bijective")
            return
        node_of[vi], vert_of[k] = k, vi
    if len(vert_of) != len(P0):
        ctx.count("skipped:vertex-map-not-bijective")
        return
    if case["variant"] == "move_to":
        for k in judge.nodes:
            if not np.array_equal(P0[k], B0[k]):
                verts[vert_of[k]].move_to(P0[k])
    V = np.array([v.position for v in verts], dtype=float)
    if not all(np.array_equal(V[vert_of[k]], P0[k]) for k in judge.nodes):
        ctx.count("skipped:construction-not-faithful")
        return
    smoother = cb.MeshSmoother(mesh)
    _apply_fix(ctx, judge, smoother, case["fix"], lambda k: vert_of[k])
    if judge.ambiguous:
        ctx.count("skipped:ambiguous-fixed-position")
        return
    judge.prepare()
    ctx.key(judge.key(), nontrivial=bool(judge.free) and bool(judge.boundary))
    ctx.sample(_sample(case, judge))
    agree = 1e-10 * judge.ext
    X = None
    for si, k in enumerate(case["stages"]):
        if si and flavour % 3 == 0:
            # history: the mesh is back-ported (re-assembled: new Vertex objects) between two smooth() calls of one smoother
            mesh.backport()
            ctx.count("history:mesh-backported-between-smooth-calls")
        _smooth(ctx, judge, smoother, k)
        ctx.evaluated()
        if len(mesh.vertices) != len(P0):
            ctx.violation("vertex-count-changed:hex", f"{judge.describe()}: {len(mesh.vertices)} vertices for {len(P0)} nodes")
            return
        V = np.array([v.position for v in mesh.vertices], dtype=float)
        X = np.array([V[vert_of[kk]] for kk in range(len(P0))])
        grid = _grid_points(smoother)
        if grid is not None and len(grid) == len(V):
            ctx.count("judged:grid-vs-vertices")
            d = float(np.max(np.abs(grid - V)))
            if not d <= agree:
                ctx.violation("grid-vs-vertices:hex",
                              f"{judge.describe()}: smoother.grid.points and mesh.vertices differ by {d:.3g} after smooth(); "
                              f"first differing vertex {int(np.argmax(np.max(np.abs(grid - V), axis=1)))}")
                return
        # the blocks see the same points (every block that shares a vertex)
        for b, blk in enumerate(mesh.blocks):
            for c, vtx in enumerate(blk.vertices):
                ctx.count("judged:copy-back-shared-point")
                if not float(np.max(np.abs(np.array(vtx.position) - X[hexes[b][c]]))) <= agree:
                    ctx.violation("block-vertex-differs:hex",
                                  f"{judge.describe()}: block {b} corner {c} is at {np.array(vtx.position).tolist()}, node "
                                  f"{hexes[b][c]} at {X[hexes[b][c]].tolist()}")
                    return
        if not judge.judge(X, si == 0 and k == 1):
            return

    def read_hex():
        VV = np.array([v.position for v in mesh.vertices], dtype=float)
        return np.array([VV[vert_of[kk]] for kk in range(len(P0))])

    if not _late_fix(ctx, case, judge, smoother, read_hex, lambda k: vert_of[k], "hex"):
        return
    if case.get("late_fix") and X is not None:
        X = read_hex()
    if case.get("write") and X is not None:
        path = util.tmpfile("c15")
        got, err = util.write_outcome(mesh, path)
        if got != "success":
            ctx.count(f"skipped:write-{got}")
            util.rm(path)
            return
        try:
            parsed = foamdict.read_blockmesh(path)
        except foamdict.ParseError:
            ctx.count("skipped:unparsable-file")
            return
        finally:
            util.rm(path)
        ctx.count("judged:written-file")
        fv = np.array([v["pos"] for v in parsed["vertices"]], dtype=float)
        if len(parsed["blocks"]) != len(hexes) or fv.shape != X.shape:
            ctx.count("skipped:file-layout-unexpected")
            return
        for b, blk in enumerate(parsed["blocks"]):
            for c, vi in enumerate(blk["idx"]):
                d = float(np.max(np.abs(fv[vi] - X[hexes[b][c]])))
                if d > 0.51e-8 + 1e-13 * judge.ext:
                    ctx.violation("written-vertex-differs-from-smoothed:hex",
                                  f"{judge.describe()}: block {b} corner {c} written at {fv[vi].tolist()}, smoothed node "
                                  f"{hexes[b][c]} is at {X[hexes[b][c]].tolist()}")
                    return
