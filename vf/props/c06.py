"""C06 — the written blockMeshDict is a faithful, well-formed rendering of the model (DESIGN 3/C06).

Random programs over the public API; the harness keeps a shadow description (the case JSON itself: 8 points per
operation computed independently with vf.geom, the declared patches / zones / projections / merges / settings)
and compares it with the written file and the debug VTK as read by the independent parser vf.foamdict."""

import math

import numpy as np

from vf import foamdict, geom, hexconv, lattice, util
from vf.props.c04 import axis_geo

ID = "C06"
BUDGET = {"quick": 1400, "thorough": 40000}
REQUIRED = ["feature:patch", "feature:zone", "feature:project_side", "feature:project_edge", "feature:project_corner",
            "feature:merge", "feature:default_patch", "feature:modify_patch", "feature:settings", "feature:delete",
            "feature:vtk", "feature:shape", "feature:graded", "judged:hex-entry", "judged:patch-quad", "judged:projected-face",
            "judged:vtk-cell", "judged:geometry-entry", "kind:box", "kind:extrude", "kind:revolve", "kind:loft", "kind:taper", "judged:edgeGrading-slot", "feature:pre-history", "feature:delete-after-clear", "feature:far-origin-thin-gap", "judged:curved-edges-of-extrude/revolve-present"]
MIN_KEYS = 40
RULE = (
    "random programs: a touching lattice assembly of lofts (24 orientations) + 0-3 disjoint Box / Extrude / Revolve + "
    "optionally a Cylinder / ExtrudedRing / Hemisphere; per operation random patches on any sides, cell zone, side / edge / "
    "corner projections to user geometries, count or (count,c2c) chops; mesh level: merged pairs, default patch, "
    "modify_patch, settings, deletions, an optional assemble / clear / backport prefix, write with / without debug VTK. non-trivial: >= 3 different API features used; "
    "distinct by (sorted feature set, #operations, kinds)"
)
ASSUMPTIONS = [
    "vertices are printed with 8 decimals: |written - model| <= 0.5e-8 (+1e-12 relative)",
    "a side assigned twice to one patch / projected twice is listed once (the library de-duplicates by vertex set)",
    "expected corner points of Box / Extrude / Revolve are derived independently (min/max corners, translation, Rodrigues)",
]
SIDE_NAMES = hexconv.SIDE_NAMES
LABELS = ["g0", "g1", "g2", "g3"]


def rand_features(rng, op, labels, p=0.35):
    op["patches"], op["zone"], op["proj_sides"], op["proj_edges"], op["proj_corners"] = {}, "", [], [], []
    for s in SIDE_NAMES:
        if rng.random() < p:
            op["patches"][s] = rng.choice(["walls", "inlet", "outlet", "pA", "pB"])
    if rng.random() < 0.3:
        op["zone"] = rng.choice(["zoneA", "zoneB"])
    if labels:
        on_edge = {}  # an edge can be projected to at most two surfaces (documented precondition, C20)

        def fits(edges, lb):
            return all(len(on_edge.get(frozenset(e), set()) | {lb}) <= 2 for e in edges)

        def put(edges, lb):
            for e in edges:
                on_edge.setdefault(frozenset(e), set()).add(lb)

        for s in SIDE_NAMES:
            if rng.random() < 0.12:
                lb = rng.choice(labels)
                with_edges = rng.random() < 0.4
                side_edges = [e for e in hexconv.EDGES if set(e) <= hexconv.SIDES[s]]
                if with_edges and not fits(side_edges, lb):
                    with_edges = False
                if with_edges:
                    put(side_edges, lb)
                op["proj_sides"].append({"side": s, "label": lb, "edges": with_edges, "points": rng.random() < 0.4})
        if rng.random() < 0.25:
            e = rng.choice(hexconv.EDGES)
            lb = rng.choice(labels)
            if fits([e], lb):
                put([e], lb)
                e = list(e) if rng.random() < 0.5 else [e[1], e[0]]
                op["proj_edges"].append([e[0], e[1], lb])
        if rng.random() < 0.25:
            op["proj_corners"].append([rng.randrange(8), rng.choice(labels)])


def gen_case(ctx):
    rng = ctx.rng
    labels = rng.sample(LABELS, rng.randint(0, 3))
    geometry = {}
    for lb in labels:
        if rng.random() < 0.5:
            geometry[lb] = ["type searchablePlane", "planeType pointAndNormal", f"point ({rng.randint(-3,3)} 0 {rng.randint(0,2)})", "normal (0 0 1)"]
        else:
            geometry[lb] = ["type sphere", f"origin ({rng.randint(-3,3)} {rng.randint(-3,3)} 1)", f"radius {rng.choice(['2', '2.5', '10'])}"]
    ops = []
    # touching lattice part
    asm = lattice.gen_assembly(rng, max_dims=(2, 2, 2), max_blocks=5)
    cnt = [rng.randint(1, 5) for _ in range(3)]
    for blk in asm["blocks"]:
        g = axis_geo(blk)
        op = {"kind": "loft", "pts": blk["pts"], "nodes": blk["nodes"], "counts": [cnt[g[a][0]] for a in range(3)], "graded": {},
              "preserved": {}}
        rand_features(rng, op, labels)
        ops.append(op)
    # merged pairs on face contacts of the lattice part
    merges = []
    if rng.random() < 0.4:
        for x in range(len(ops)):
            for y in range(x + 1, len(ops)):
                common = set(ops[x]["nodes"]) & set(ops[y]["nodes"])
                if len(common) == 4 and not merges:
                    sx = [s for s, c in hexconv.SIDES.items() if {ops[x]["nodes"][k] for k in c} == common][0]
                    sy = [s for s, c in hexconv.SIDES.items() if {ops[y]["nodes"][k] for k in c} == common][0]
                    ops[x]["patches"][sx], ops[y]["patches"][sy] = "mM", "mS"
                    merges.append(["mM", "mS"])
    # a row of three boxes far away, the middle one merged with both neighbours: two declared pairs, either with one
    # master patch for both or with distinct names (the written list must hold exactly the declared pairs)
    merge_row = []
    if rng.random() < 0.3:
        base = np.array([rng.uniform(-3, 3), -300.0, rng.uniform(-3, 3)])
        wid = [rng.uniform(0.5, 2) for _ in range(3)]
        dy, dz = rng.uniform(0.5, 2), rng.uniform(0.5, 2)
        ny, nz = rng.randint(1, 4), rng.randint(1, 4)
        shared = rng.random() < 0.5
        x0 = 0.0
        for k in range(3):
            lo, hi = base + np.array([x0, 0.0, 0.0]), base + np.array([x0 + wid[k], dy, dz])
            x0 += wid[k]
            op = {"kind": "box", "counts": [rng.randint(1, 4), ny, nz], "graded": {}, "preserved": {}, "args": [list(lo), list(hi)],
                  "pts": [[(hi if c[i] else lo)[i] for i in range(3)] for c in hexconv.CORNER]}
            rand_features(rng, op, [])
            op["proj_sides"], op["proj_edges"], op["proj_corners"] = [], [], []
            merge_row.append(len(ops))
            ops.append(op)

        def xside(op, which):
            xs = [q[0] for q in op["pts"]]
            lim = max(xs) if which == "hi" else min(xs)
            return [s for s, c in hexconv.SIDES.items() if all(abs(op["pts"][k][0] - lim) < 1e-9 for k in c)][0]

        a_, b_, c_ = (ops[i] for i in merge_row)
        names = [("mrM", "mrS0"), ("mrM", "mrS1")] if shared else [("mrM0", "mrS0"), ("mrM1", "mrS1")]
        b_["patches"][xside(b_, "lo")], a_["patches"][xside(a_, "hi")] = names[0]
        b_["patches"][xside(b_, "hi")], c_["patches"][xside(c_, "lo")] = names[1]
        row_pairs = [list(n) for n in names]
        if rng.random() < 0.5:
            row_pairs.reverse()
        merges.extend(row_pairs)
    # disjoint extras
    for k in range(rng.choice([0, 1, 1, 2, 3])):
        off = np.array([40.0 * (k + 1), rng.uniform(-5, 5), rng.uniform(-5, 5)])
        kind = rng.choice(["box", "extrude", "revolve", "taper"])
        op = {"kind": kind, "counts": [rng.randint(1, 6) for _ in range(3)], "graded": {}, "preserved": {}}
        if kind == "box":
            a = off + np.array(geom.rand_vec(rng, -2, 2))
            d = np.array([rng.choice([-1, 1]) * rng.uniform(0.5, 3) for _ in range(3)])
            op["args"] = [list(a), list(a + d)]
            lo, hi = np.minimum(a, a + d), np.maximum(a, a + d)
            op["pts"] = [[(hi if c[i] else lo)[i] for i in range(3)] for c in hexconv.CORNER]
        else:
            fr = geom.orthonormal_frame(rng)
            quad = [(-1, -1), (1, -1), (1, 1), (-1, 1)]
            base = [list(off + fr[0] * (x * rng.uniform(0.5, 1.5)) + fr[1] * (y * rng.uniform(0.5, 1.5))) for x, y in quad]
            if kind == "taper":
                top = [list(off + fr[2] * rng.uniform(1.5, 2.5) + fr[0] * (x * rng.uniform(0.3, 0.9)) + fr[1] * (y * rng.uniform(0.3, 0.9)))
                       for x, y in quad]
                op["pts"] = base + top
                a = rng.randrange(3)
                n = rng.randint(3, 8)
                op["counts"][a] = n
                op["preserved"] = {str(a): [n, rng.uniform(0.02, 0.08), rng.choice(["start_size", "end_size"])]}
            elif kind == "extrude":
                vec = list(fr[2] * rng.uniform(0.5, 3) + fr[0] * rng.uniform(-0.5, 0.5))
                op["args"] = [base, vec]
                op["pts"] = base + [list(np.array(p) + np.array(vec)) for p in base]
            else:
                angle = rng.uniform(0.2, 1.5) * rng.choice([1, 1, -1])
                axis = list(fr[0] * rng.uniform(0.5, 2))
                origin = list(off - fr[1] * rng.uniform(3, 6))
                op["args"] = [base, angle, axis, origin]
                op["pts"] = base + [list(geom.rotate(p, axis, angle, origin)) for p in base]
        if rng.random() < 0.5 and kind != "taper":
            a = rng.randrange(3)
            op["graded"] = {str(a): [op["counts"][a], rng.choice([0.8, 1.1, 1.25])]}
        rand_features(rng, op, labels)
        ops.append(op)
    # far from the origin: two boxes separated by a thin unmeshed slit - distinct points must stay distinct vertices
    if rng.random() < 0.25:
        far = np.array([rng.choice([-2000.0, 1500.0, 2500.0]), rng.choice([0.0, 1800.0]), rng.uniform(-5, 5)])
        gap = rng.choice([0.01, 0.002, 1e-4])
        for k2, x0 in enumerate((0.0, 1.0 + gap)):
            lo, hi = far + np.array([x0, 0.0, 0.0]), far + np.array([x0 + 1.0, 1.0, 1.0])
            op = {"kind": "box", "counts": [2, 2, 2], "graded": {}, "preserved": {}, "args": [list(lo), list(hi)],
                  "pts": [[(hi if c[i] else lo)[i] for i in range(3)] for c in hexconv.CORNER]}
            rand_features(rng, op, labels)
            ops.append(op)
        thin_gap = True
    else:
        thin_gap = False
    shape = None
    if rng.random() < 0.3:
        o = [-40.0, rng.uniform(-3, 3), rng.uniform(-3, 3)]
        kind = rng.choice(["cylinder", "ring", "hemisphere"])
        shape = {"kind": kind, "origin": o, "counts": [rng.randint(1, 4) for _ in range(3)],
                 "outer_patch": rng.choice([None, "shapeWall"]), "start_patch": rng.choice([None, "shapeStart"])}
    deleted = [i for i in range(len(ops)) if rng.random() < 0.12 and i not in merge_row]
    if len(deleted) == len(ops):
        deleted = deleted[1:]
    patch_names = sorted({n for op in ops for n in op["patches"].values()})
    modify = []
    for n in patch_names:
        for _ in range(rng.choice([0, 0, 1, 1, 2])):  # a patch can be modified more than once: the last call counts
            modify.append([n, rng.choice(["wall", "cyclic", "empty"]),
                           rng.choice([None, [], ["inGroups (a b)"], ["neighbourPatch x", "transform none"]])])
    rng.shuffle(modify)
    settings = {}
    if rng.random() < 0.4:
        settings["scale"] = rng.choice([0.001, 2, 1])
    if rng.random() < 0.2:
        settings["mergeType"] = "points"
    if rng.random() < 0.15:
        settings["verbose"] = "true"
    return {"ops": ops, "shape": shape, "deleted": deleted, "merges": merges, "geometry": geometry,
            "default": rng.choice([None, None, ["defPatch", "wall"], ["rest", "patch"]]), "modify": modify,
            "settings": settings, "vtk": rng.random() < 0.5, "thin_gap": thin_gap, "shape_del_frac": rng.random(), "geometry_twice": rng.random() < 0.3, "delete_shape_op": rng.random() < 0.3,
            "pre_history": rng.choice([None, None, "assemble", "clear", "clear", "backport", "write"]), "late_delete": rng.random() < 0.6}


def build(case, cb):
    mesh = cb.Mesh()
    objs = []
    for op in case["ops"]:
        k = op["kind"]
        if k in ("loft", "taper"):
            p = np.array(op["pts"], dtype=float)
            o = cb.Loft(cb.Face(p[:4]), cb.Face(p[4:]))
        elif k == "box":
            o = cb.Box(*op["args"])
        elif k == "extrude":
            b0, b1 = np.array(op["args"][0][0]), np.array(op["args"][0][1])
            bulge = np.cross(b1 - b0, np.array(op["args"][1])) * 0.15
            o = cb.Extrude(cb.Face(op["args"][0], [cb.Arc(list((b0 + b1) / 2 + bulge)), None, None, None]), op["args"][1])
        else:
            o = cb.Revolve(cb.Face(op["args"][0]), *op["args"][1:])
        for a in range(3):
            if str(a) in op["graded"]:
                n, r = op["graded"][str(a)]
                o.chop(a, count=n, c2c_expansion=r)
            elif str(a) in op["preserved"]:
                n, size, which = op["preserved"][str(a)]
                o.chop(a, count=n, preserve=which, **{which: size})
            else:
                o.chop(a, count=op["counts"][a])
        for s, n in op["patches"].items():
            o.set_patch(s, n)
        if op["zone"]:
            o.set_cell_zone(op["zone"])
        for ps in op["proj_sides"]:
            o.project_side(ps["side"], ps["label"], edges=ps["edges"], points=ps["points"])
        for c1, c2, lb in op["proj_edges"]:
            o.project_edge(c1, c2, lb)
        for c, lb in op["proj_corners"]:
            o.project_corner(c, lb)
        objs.append(o)
        mesh.add(o)
    shape = None
    sh = case["shape"]
    if sh:
        o = sh["origin"]
        if sh["kind"] == "cylinder":
            shape = cb.Cylinder(o, [o[0], o[1], o[2] + 2], [o[0] + 1, o[1], o[2]])
        elif sh["kind"] == "ring":
            shape = cb.ExtrudedRing(o, [o[0], o[1], o[2] + 2], [o[0] + 1, o[1], o[2]], 0.5, n_segments=6)
        else:
            shape = cb.Hemisphere(o, [o[0] + 1, o[1], o[2]], [0, 0, 1])
        shape.chop_axial(count=sh["counts"][0])
        shape.chop_tangential(count=sh["counts"][1])
        shape.chop_radial(count=sh["counts"][2])
        if sh["outer_patch"]:
            shape.set_outer_patch(sh["outer_patch"])
        if sh["start_patch"]:
            shape.set_start_patch(sh["start_patch"])
        mesh.add(shape)
    late = case.get("pre_history") == "clear" and case.get("late_delete")
    if not late:
        for i in case["deleted"]:
            mesh.delete(objs[i])
        if shape is not None and case["delete_shape_op"]:
            mesh.delete(shape.operations[_shape_del_index(case, shape)])
    for m, s in case["merges"]:
        mesh.merge_patches(m, s)
    if case["default"]:
        mesh.set_default_patch(*case["default"])
    for n, kind, st in case["modify"]:
        mesh.modify_patch(n, kind, st)
    for k, v in case["settings"].items():
        mesh.settings[k] = v
    if case["geometry"]:
        if case.get("geometry_twice"):
            # the same names declared before with other contents: the later declaration replaces the earlier one
            mesh.add_geometry({name: ["type sphere", "origin (9 9 9)", "radius 1"] for name in list(case["geometry"])[:2]})
        mesh.add_geometry(case["geometry"])
    # optional life-cycle prefix: the written file must not depend on it
    if case.get("pre_history") == "backport":
        mesh.assemble()
        mesh.backport()
    elif case.get("pre_history") == "clear":
        mesh.assemble()
        mesh.clear()
        if late:
            # deletions declared on the cleared mesh: nothing of the first assembly (vertex numbers, projected faces,
            # patches) may survive into the file
            for i in case["deleted"]:
                mesh.delete(objs[i])
            if shape is not None and case["delete_shape_op"]:
                mesh.delete(shape.operations[_shape_del_index(case, shape)])
    elif case.get("pre_history") == "assemble":
        mesh.assemble()
    elif case.get("pre_history") == "write":
        # the mesh has been written before: the file judged below is the second one and must render the same declarations
        first = util.tmpfile("c06w")
        util.write_outcome(mesh, first)
        util.rm(first)
    return mesh, objs, shape


def run_case(ctx, case):
    import classy_blocks as cb

    mesh, objs, shape = build(case, cb)
    # the shadow list of live operations: (points, declared features)
    live = []
    for i, op in enumerate(case["ops"]):
        if i not in case["deleted"]:
            live.append({"pts": np.array(op["pts"], dtype=float), "op": op, "shape": False})
    shape_geometry = None
    if shape is not None:
        sops = list(shape.operations)
        if case["delete_shape_op"]:
            del sops[_shape_del_index(case, shape)]
        for so in sops:
            live.append({"pts": np.array(so.point_array, dtype=float), "op": None, "shape": True, "obj": so})
        shape_geometry = shape.geometry
    path = util.tmpfile("c06")
    vtk = util.tmpfile("c06", ".vtk") if case["vtk"] else None
    got, err = util.write_outcome(mesh, path, vtk)
    ctx.evaluated()
    feats = _features(case)
    for f in feats:
        ctx.count(f"feature:{f}")
    if case.get("pre_history") == "clear" and case.get("late_delete") and case["deleted"]:
        ctx.count("feature:delete-after-clear")
    for op in case["ops"]:
        ctx.count(f"kind:{op['kind']}")
    ctx.key([sorted(feats), len(case["ops"]), sorted({o["kind"] for o in case["ops"]}), case["shape"]["kind"] if case["shape"] else None],
            nontrivial=len(feats) >= 3)
    ctx.sample({k: case[k] for k in ("deleted", "merges", "default", "modify", "settings", "vtk")} |
               {"ops": [{kk: o[kk] for kk in ("kind", "patches", "zone", "proj_sides", "proj_edges", "proj_corners", "counts")} for o in case["ops"]],
                "shape": case["shape"]})
    if got != "success":
        util.rm(path, vtk) if vtk else util.rm(path)
        ctx.violation(f"write-failed:{got}", f"{err!r}")
        return
    text = util.read_text(path)
    try:
        parsed = foamdict.parse_blockmesh(text)
    except (foamdict.ParseError, IndexError, ValueError) as perr:
        ctx.violation("unparsable-file", f"{type(perr).__name__}: {perr}")
        return
    finally:
        util.rm(path)
    verts = parsed["vertices"]
    nv = len(verts)
    vpos = np.array([v["pos"] for v in verts]) if nv else np.zeros((0, 3))
    geo_keys = set(parsed["geometry"])

    # ---- hex entries ↔ live operations, corner by corner --------------------------------------------
    if len(parsed["blocks"]) != len(live):
        ctx.violation("hex-entry-count", f"{len(parsed['blocks'])} hex entries for {len(live)} live operations")
        return
    used = set()
    for i, (blk, lv) in enumerate(zip(parsed["blocks"], live)):
        ctx.count("judged:hex-entry")
        for c, vi in enumerate(blk["idx"]):
            if not (0 <= vi < nv):
                ctx.violation("dangling-vertex-index", f"hex entry {i} corner {c} -> {vi}, {nv} vertices")
                return
            used.add(vi)
            d = np.max(np.abs(vpos[vi] - lv["pts"][c]))
            if d > 0.51e-8 + 1e-12 * np.max(np.abs(lv["pts"][c])) + (1e-7 if lv["shape"] else 0.0):
                ctx.violation("hex-corner-not-at-operation-point", f"hex entry {i} corner {c}: vertex {vi} at {list(vpos[vi])}, operation point {list(lv['pts'][c])}")
                return
        op = lv["op"]
        if op is None:
            continue
        if blk["zone"] != op["zone"]:
            ctx.violation("cell-zone", f"hex entry {i}: zone {blk['zone']!r}, declared {op['zone']!r}")
            return
        if blk["counts"] != op["counts"]:
            ctx.violation("counts", f"hex entry {i}: counts {blk['counts']}, chopped {op['counts']}")
            return
        for a in range(3):
            want = 1.0
            if str(a) in op["graded"]:
                n, r = op["graded"][str(a)]
                want = r ** (n - 1)
            specs = [blk["grading"][a]] * 4 if blk["kind"] == "simpleGrading" else blk["grading"][a * 4:a * 4 + 4]
            for k, sp in enumerate(specs):
                w = want
                if str(a) in op["preserved"]:
                    # edgeGrading: each of the four edges (blockMesh order) keeps the requested first / last cell size
                    n, size, which = op["preserved"][str(a)]
                    e = hexconv.AXIS_EDGES[a][k]
                    w = _expansion_for_size(float(np.linalg.norm(lv["pts"][e[0]] - lv["pts"][e[1]])), n, size, which)
                    ctx.count("judged:edgeGrading-slot")
                if len(sp) != 1 or abs(sp[0][2] - w) > 1e-6 * w:
                    ctx.violation("grading", f"hex entry {i} axis {a} edge slot {k}: written {sp}, expected expansion {w}")
                    return
    if used != set(range(nv)):
        ctx.violation("vertex-not-a-model-point", f"{nv} vertices written, hex entries use {len(used)}: unused {sorted(set(range(nv)) - used)[:5]}")
        return

    # ---- every quad anywhere is a side of some block -------------------------------------------------
    block_sides = {}
    for i, blk in enumerate(parsed["blocks"]):
        for s in SIDE_NAMES:
            block_sides.setdefault(frozenset(blk["idx"][c] for c in hexconv.SIDES[s]), []).append((i, s))

    def quad_ok(q, what):
        users = block_sides.get(frozenset(q))
        if not users or len(set(q)) != 4:
            ctx.violation(f"{what}-quad-not-a-block-side", f"{what} quad {q} is not a side of any block")
            return False
        i, s = users[0]
        cyc = [parsed["blocks"][i]["idx"][c] for c in hexconv.SIDE_CYCLES[s]]
        if not hexconv.is_cyclic_equal(q, cyc):
            ctx.violation(f"{what}-quad-not-cyclic", f"{what} quad {q} does not walk round side {s} of block {i} ({cyc})")
            return False
        return True

    # ---- boundary ---------------------------------------------------------------------------------
    exp_patches = {}
    for i, lv in enumerate(live):
        if lv["op"] is None:
            continue
        for s, name in lv["op"]["patches"].items():
            exp_patches.setdefault(name, set()).add(frozenset(parsed["blocks"][i]["idx"][c] for c in hexconv.SIDES[s]))
    if shape is not None:
        for i, lv in enumerate(live):
            if lv["shape"]:
                for s, name in lv["obj"].patch_names.items():
                    exp_patches.setdefault(name, set()).add(frozenset(parsed["blocks"][i]["idx"][c] for c in hexconv.SIDES[s]))
    got_patches = {}
    for p in parsed["boundary"]:
        if p["name"] in got_patches:
            ctx.violation("patch-listed-twice", p["name"])
            return
        got_patches[p["name"]] = p
        for q in p["faces"]:
            ctx.count("judged:patch-quad")
            if not quad_ok(q, "patch"):
                return
    mods = {}
    for nm, kind_, st in case["modify"]:
        # type: last call; settings: last call that gave a list (None = leave as they are, [] = none)
        prev = mods.get(nm, [nm, "patch", []])
        mods[nm] = [nm, kind_, prev[2] if st is None else st]
    for name, quads in exp_patches.items():
        if name not in got_patches:
            ctx.violation("patch-missing", f"patch {name} declared on {len(quads)} sides, not written")
            return
        p = got_patches[name]
        gq = [frozenset(q) for q in p["faces"]]
        if set(gq) != quads or len(gq) != len(quads):
            ctx.violation("patch-quads", f"patch {name}: written {sorted(map(sorted, gq))}, declared sides {sorted(map(sorted, quads))}")
            return
        want_type = mods[name][1] if name in mods else "patch"
        want_settings = (mods[name][2] or []) if name in mods else []
        if p["type"] != want_type:
            ctx.violation("patch-type", f"patch {name}: type {p['type']}, declared {want_type}")
            return
        if p["settings"] != want_settings:
            ctx.violation("patch-settings", f"patch {name}: settings {p['settings']}, declared {want_settings}")
            return
    for name, p in got_patches.items():
        if name not in exp_patches and (p["faces"] or name not in mods):
            ctx.violation("patch-not-declared", f"patch {name} written with {len(p['faces'])} faces but never declared")
            return
    # default patch, merges, settings
    want_def = {"name": case["default"][0], "type": case["default"][1]} if case["default"] else None
    if parsed["default_patch"] != want_def:
        ctx.violation("default-patch", f"written {parsed['default_patch']}, declared {want_def}")
        return
    if sorted(list(m) for m in parsed["merge_pairs"]) != sorted(case["merges"]):
        ctx.violation("merge-pairs", f"written {parsed['merge_pairs']}, declared {case['merges']}")
        return
    want_settings = {"scale": "1"} | {k: str(v) for k, v in case["settings"].items()}
    if parsed["settings"] != want_settings:
        ctx.violation("settings", f"written {parsed['settings']}, declared {want_settings}")
        return

    # ---- faces (projected sides) --------------------------------------------------------------------
    exp_faces = {}
    for i, lv in enumerate(live):
        if lv["op"] is None:
            continue
        for ps in lv["op"]["proj_sides"]:
            q = frozenset(parsed["blocks"][i]["idx"][c] for c in hexconv.SIDES[ps["side"]])
            exp_faces.setdefault(q, []).append(ps["label"])
    got_faces = {}
    for fc in parsed["faces"]:
        ctx.count("judged:projected-face")
        if not quad_ok(fc["quad"], "projected-face"):
            return
        q = frozenset(fc["quad"])
        if q in got_faces:
            ctx.violation("projected-face-listed-twice", f"{fc['quad']}")
            return
        got_faces[q] = fc["label"]
        if fc["label"] not in geo_keys:
            ctx.violation("projected-face-label-without-geometry", f"face {fc['quad']} -> {fc['label']}, geometry has {sorted(geo_keys)}")
            return
    user_faces = {q: lb for q, lb in got_faces.items() if not (shape_geometry and lb in shape_geometry)}
    for q, lbs in exp_faces.items():
        if q not in user_faces:
            ctx.violation("projected-side-missing", f"side {sorted(q)} projected to {lbs}, not in faces section")
            return
        # one operation: the last project_side call on that side wins; two operations sharing the side: any of the declared
        if user_faces[q] not in lbs:
            ctx.violation("projected-side-label", f"side {sorted(q)}: written {user_faces[q]}, declared {lbs}")
            return
    for q in user_faces:
        if q not in exp_faces:
            ctx.violation("projected-face-not-declared", f"faces section lists {sorted(q)} -> {user_faces[q]}")
            return

    # ---- geometry -----------------------------------------------------------------------------------
    for name, lines in case["geometry"].items():
        ctx.count("judged:geometry-entry")
        if parsed["geometry"].get(name) != lines:
            ctx.violation("geometry-entry", f"{name}: written {parsed['geometry'].get(name)}, declared {lines}")
            return
    extra = set(parsed["geometry"]) - set(case["geometry"]) - set(shape_geometry or {})
    if extra:
        ctx.violation("geometry-not-declared", f"{sorted(extra)}")
        return
    for v in verts:
        for lb in v["project"] or []:
            if lb not in geo_keys:
                ctx.violation("projected-vertex-label-without-geometry", f"{v}")
                return
    for e in parsed["edges"]:
        if not (0 <= e["a"] < nv and 0 <= e["b"] < nv):
            ctx.violation("dangling-edge-index", f"{e['kind']} {e['a']} {e['b']}")
            return
        for lb in e.get("labels", []):
            if lb not in geo_keys:
                ctx.violation("projected-edge-label-without-geometry", f"edge {e['a']} {e['b']} -> {e['labels']}")
                return
    # the curved edges these programs define: Extrude carries an Arc on edge 0-1 (copied to 4-5), Revolve four angle arcs
    arc_pairs = {frozenset((e["a"], e["b"])) for e in parsed["edges"] if e["kind"] == "arc"}
    for i, lv in enumerate(live):
        op = lv["op"]
        if op is None or op["kind"] not in ("extrude", "revolve"):
            continue
        idx = parsed["blocks"][i]["idx"]
        want_pairs = [(0, 1), (4, 5)] if op["kind"] == "extrude" else [(0, 4), (1, 5), (2, 6), (3, 7)]
        ctx.count("judged:curved-edges-of-extrude/revolve-present")
        # an edge the program projected is a `project` edge instead (the later definition replaces the arc)
        projected = {frozenset((e[0], e[1])) for e in op["proj_edges"]}
        for ps in op["proj_sides"]:
            if ps["edges"]:
                projected |= {frozenset(e) for e in hexconv.EDGES if set(e) <= hexconv.SIDES[ps["side"]]}
        for c1, c2 in want_pairs:
            if frozenset((c1, c2)) in projected:
                continue
            if frozenset((idx[c1], idx[c2])) not in arc_pairs:
                ctx.violation("curved-edge-missing", f"{op['kind']} operation {i}: no arc entry between corners {c1} and {c2} "
                                                     f"(vertices {idx[c1]}, {idx[c2]}); pre-history {case.get('pre_history')}")
                return
    # projected corners of operations that share no vertex with others: labels as declared
    vert_users = {}
    for i, blk in enumerate(parsed["blocks"]):
        for vi in blk["idx"]:
            vert_users.setdefault(vi, set()).add(i)
    for i, lv in enumerate(live):
        op = lv["op"]
        if op is None:
            continue
        for c in range(8):
            vi = parsed["blocks"][i]["idx"][c]
            if len(vert_users[vi]) > 1:
                continue
            want = [lb for cc, lb in op["proj_corners"] if cc == c]
            for ps in op["proj_sides"]:
                if ps["points"] and c in hexconv.SIDES[ps["side"]]:
                    want.append(ps["label"])
            gotl = verts[vi]["project"] or []
            if sorted(set(gotl)) != sorted(set(want)):
                ctx.violation("projected-corner-labels", f"operation {i} corner {c}: written {gotl}, declared {want}")
                return

    # ---- VTK ----------------------------------------------------------------------------------------
    if vtk:
        import os

        if not os.path.exists(vtk):
            ctx.violation("vtk-not-written", f"write(path, debug_path) left no debug file (pre-history {case.get('pre_history')})")
            return
        vt = foamdict.parse_vtk(util.read_text(vtk))
        util.rm(vtk)
        if len(vt["points"]) != nv or len(vt["cells"]) != len(parsed["blocks"]):
            ctx.violation("vtk-sizes", f"vtk {len(vt['points'])} points / {len(vt['cells'])} cells, dict {nv} / {len(parsed['blocks'])}")
            return
        for i, p in enumerate(vt["points"]):
            if np.max(np.abs(np.array(p) - vpos[i])) > 0.51e-8 + 1e-12 * np.max(np.abs(vpos[i])):
                ctx.violation("vtk-point", f"vtk point {i} {p} vs dict vertex {list(vpos[i])}")
                return
        for i, cell in enumerate(vt["cells"]):
            ctx.count("judged:vtk-cell")
            if cell != parsed["blocks"][i]["idx"] or vt["types"][i] != 12:
                ctx.violation("vtk-cell", f"vtk cell {i} {cell} type {vt['types'][i]} vs hex {parsed['blocks'][i]['idx']}")
                return


def _shape_del_index(case, shape):
    """which operation of the shape is deleted: any (first, middle, last), fixed by the case"""
    # (not one that carries the shape's chops: deleting that would leave the rest under-specified, legitimately rejected)
    # A ring is one closed chain of blocks with a tangential chop on each: it stays fully specified without any block
    # that carries no other chop. For the disk-based shapes only the last shell block is known to be safe to remove.
    cand = [i for i, op in enumerate(shape.operations) if not (op.chops[0] or op.chops[2])]
    if case["shape"]["kind"] != "ring" or not cand:
        return len(shape.operations) - 1
    return cand[int(case.get("shape_del_frac", 0.999) * len(cand)) % len(cand)]


def _expansion_for_size(length, n, size, which):
    """total expansion E of n cells on `length` whose first (last) cell has the given size (bisection on r)"""
    def first(r):
        return length / n if abs(r - 1) < 1e-12 else length * (1 - r) / (1 - r**n)

    lo, hi = 1e-3, 1e3  # first(r) decreases with r
    for _ in range(200):
        mid = math.sqrt(lo * hi)
        if first(mid) > size:
            lo = mid
        else:
            hi = mid
    r = math.sqrt(lo * hi)
    e = r ** (n - 1)
    return e if which == "start_size" else 1.0 / e


def _features(case):
    f = set()
    for op in case["ops"]:
        if op["patches"]:
            f.add("patch")
        if op["zone"]:
            f.add("zone")
        if op["proj_sides"]:
            f.add("project_side")
        if op["proj_edges"]:
            f.add("project_edge")
        if op["proj_corners"]:
            f.add("project_corner")
        if op["graded"]:
            f.add("graded")
        if op["preserved"]:
            f.add("edge-graded")
    for k, name in (("merges", "merge"), ("default", "default_patch"), ("modify", "modify_patch"), ("settings", "settings"),
                    ("deleted", "delete"), ("vtk", "vtk"), ("shape", "shape"), ("geometry", "geometry"), ("pre_history", "pre-history"),
                    ("thin_gap", "far-origin-thin-gap")):
        if case.get(k):
            f.add(name)
    if len(case["merges"]) >= 2:
        f.add("merge-two-pairs")
    if case.get("pre_history") == "write":
        f.add("written-before")
    return f
