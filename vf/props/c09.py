"""C09 — transforming or copying an entity equals transforming its output geometry (DESIGN 3/C09).

Metamorphic-relation monitor: content(assemble(A_api(X))) must equal A_geom(content(assemble(X))), where
content = vertex positions + (end positions, decoded curve samples, Edge.length) of every curved edge, compared
as position-keyed sets; A_geom is built from vf.geom (Rodrigues, Householder). Observation point: the real
Mesh.assemble() and the very strings the writer emits (vertex_list / edge_list descriptions, parsed by
vf.foamdict) - no grading needed, so shapes need no chops."""

import copy
import math

import numpy as np

from vf import foamdict, geom, hexconv
from vf.props import c07

ID = "C09"
BUDGET = {"quick": 700, "thorough": 20000}
SOFT = {"quick": 50.0, "thorough": 900.0}
REQUIRED = ["map:translate", "map:rotate", "map:scale", "map:mirror", "via:method", "via:transform-list", "origin:none",
            "origin:given", "judged:vertices", "judged:edges", "judged:copy-independent", "judged:arguments-unchanged",
            "judged:direct-curve", "judged:constructor-arrays", "judged:copy-projected-original-unchanged", "history:assembled-before-the-transformation",
            "judged:built-in-geometry-follows", "judged:centre-follows", "judged:transformation-objects-unchanged", "judged:helper-functions-direct", "entity:shape", "entity:operation", "entity:sketch", "entity:stack", "composition:2+"]
MIN_KEYS = 80
RULE = (
    "entity zoo (Point, Face / Loft carrying each edge kind, Box / Extrude / Revolve / Wedge, curves (discrete, linear / spline "
    "interpolated, line, circle: directly and through OnCurve edges), sketches via ExtrudedShape, Cylinder / SemiCylinder / "
    "Frustum / Elbow / ExtrudedRing / RevolvedRing / Hemisphere, the three stacks, L/T/N joints) x compositions of 1-3 maps "
    "(translate, rotate, scale, mirror; by method or transform([...]); origins non-zero or None; non-unit axes / normals; "
    "ndarray arguments, snapshotted). non-trivial: >= 1 curved edge or >= 2 parts; distinct by (entity, edge kinds, map kinds, "
    "origin classes, via)"
)
ASSUMPTIONS = [
    "default origin of rotate / scale = the entity's centre taken before the call (Point / Face / Operation: recomputed "
    "independently; larger entities: the library's own `.center` is read before the call); mirror defaults to [0,0,0]",
    "position tolerance 1e-7*size + 3e-8 (8 printed decimals); curve-snapped edges 3% of edge size; lengths rel 1e-6 "
    "(spline / OnCurve 5e-3)",
    "shear is excluded (not in the statement); a mirrored operation may swap bottom / top (documented) - content is keyed by position",
]

EDGE_KINDS = ["arc", "origin", "angle", "spline", "polyLine", "project", "oncurve-circle", "oncurve-line", "oncurve-interp"]
OP_KINDS = ["box", "extrude", "revolve", "wedge"]
SKETCHES = ["grid", "onecore", "fourcore", "halfdisk", "wrapped", "oval", "annulus", "splinedisk", "halfsplinedisk", "quartersplinedisk", "splinering"]
SHAPES = ["cylinder", "semicylinder", "frustum", "frustum-mid", "elbow", "extrudedring", "revolvedring", "hemisphere",
          "revolvedshape", "revolvedshape-grid"]
STACKS = ["extrudedstack", "revolvedstack", "transformedstack"]
JOINTS = ["ljoint", "tjoint", "njoint", "cuspcylinder"]  # (cuspcylinder: an Assembly that uses the base class' own centre)
CURVES = ["discrete", "linear", "spline-interp", "linecurve", "circlecurve"]


# ------------------------------------------------------------------------------------------------ generation
def gen_maps(rng):
    maps = []
    for _ in range(rng.choice([1, 1, 1, 2, 2, 3])):
        k = rng.choice(["translate", "rotate", "scale", "mirror"])
        origin = None if rng.random() < 0.3 else geom.rand_vec(rng, -4, 4)
        if k == "translate":
            maps.append({"k": k, "d": geom.rand_vec(rng, -3, 3)})
        elif k == "rotate":
            maps.append({"k": k, "angle": rng.uniform(-3, 3), "axis": list(geom.rand_unit(rng) * rng.uniform(0.3, 4)), "origin": origin})
        elif k == "scale":
            maps.append({"k": k, "ratio": rng.choice([0.3, 0.5, 1.7, 2.5]), "origin": origin})
        else:
            maps.append({"k": k, "normal": list(geom.rand_unit(rng) * rng.uniform(0.3, 4)), "origin": origin})
    return maps


def gen_case(ctx):
    rng = ctx.rng
    group = rng.choices(["point", "face", "loft", "op", "sketch", "shape", "stack", "joint", "curve"],
                        [0.03, 0.12, 0.25, 0.1, 0.14, 0.16, 0.08, 0.05, 0.07])[0]
    e = {"group": group, "seed": rng.randrange(10**9)}
    if group in ("face", "loft"):
        e["edge_kinds"] = [rng.choice(EDGE_KINDS) for _ in range(rng.randint(1, 3))]
    elif group == "op":
        e["kind"] = rng.choice(OP_KINDS)
    elif group == "sketch":
        e["kind"] = rng.choice(SKETCHES)
    elif group == "shape":
        e["kind"] = rng.choice(SHAPES)
    elif group == "stack":
        e["kind"] = rng.choice(STACKS)
    elif group == "joint":
        e["kind"] = rng.choice(JOINTS)
    elif group == "curve":
        e["kind"] = rng.choice(CURVES)
    maps = gen_maps(rng)
    if group == "point":
        # a point's own centre is itself: `rotate(origin=None)` means the global origin for the method but the point
        # itself for transform([...]) - the default is not defined by the statement, so an origin is always given
        for m in maps:
            if m["k"] != "translate" and m.get("origin") is None:
                m["origin"] = geom.rand_vec(rng, -4, 4)
    via = rng.choice(["method", "transform"])
    if group in ("curve", "face", "loft") and via == "method" and rng.random() < 0.7:
        # the origin of the first rotation / scaling / mirror is one of the entity's own points, exactly as the library
        # hands it out (`curve.array[i]`): a live view of the data that is about to be transformed
        for m in maps:
            if m["k"] != "translate":
                m["own_origin"] = True
                break
    return {"entity": e, "maps": maps, "via": via}


def fixed_cases(tier):
    """shapes that declare their own geometry (spheres), assembled once before the transformation (seed % 4 == 0), under
    every map kind: the random part reaches this combination only a few times per run"""
    import random

    out = []
    # every edge kind on a side edge / a face edge of a loft that is mirrored (Operation.mirror also inverts the loft)
    for i, kind in enumerate(EDGE_KINDS):
        for j, slot in enumerate((("s", 1), ("b", 3), ("t", 1))):
            rng = random.Random(f"fixed/loft/{kind}/{j}")
            maps = [{"k": "mirror", "normal": list(geom.rand_unit(rng) * 1.7), "origin": geom.rand_vec(rng, -3, 3)}]
            if j == 1:
                maps.append({"k": "rotate", "angle": 0.8, "axis": list(geom.rand_unit(rng)), "origin": None})
            out.append({"entity": {"group": "loft", "seed": 5 + 8 * (100 * i + j), "edge_kinds": [kind], "slots": [list(slot)]},
                        "maps": maps, "via": ["method", "transform"][(i + j) % 2]})
    for kind in ("hemisphere",):
        for k in range(12 if tier == "quick" else 80):
            rng = random.Random(f"fixed/{kind}/{k}")
            maps = gen_maps(rng)
            out.append({"entity": {"group": "shape", "kind": kind, "seed": 4 * (1000 + k)}, "maps": maps,
                        "via": ["method", "transform"][k % 2]})
    return out


# ------------------------------------------------------------------------------------------------ entities
CTOR_ARRAYS = []  # float ndarrays handed to constructors (spline / curve points): (array, snapshot)


def _reg(points):
    a = np.array(points, dtype=float)
    CTOR_ARRAYS.append((a, a.copy()))
    return a


def frame_from(rng):
    fr = geom.orthonormal_frame(rng)
    o = np.array(geom.rand_vec(rng, -3, 3))
    return o, fr


def make_entity(e, cb):
    """-> (entity, to_mesh_entities(entity) -> list addable to a Mesh, centre function or None)"""
    import random

    rng = random.Random(e["seed"])
    g = e["group"]
    o, fr = frame_from(rng)
    if g == "point":
        from classy_blocks.construct.point import Point

        return Point(list(o)), None
    if g in ("face", "loft"):
        pts = c07.make_hex(rng)
        centre = list(np.mean(np.array(pts), axis=0))
        bottom_edges, top_edges, side = [None] * 4, [None] * 4, {}
        slots = [("b", 0), ("t", 2), ("s", 1), ("b", 3), ("t", 1), ("s", 3)]
        rng.shuffle(slots)  # any kind can land on a bottom, top or side edge
        if e.get("slots"):
            slots = [tuple(x) for x in e["slots"]]
        for kind, (where, i) in zip(e["edge_kinds"], slots):
            if where == "b":
                c1, c2 = i, (i + 1) % 4
            elif where == "t":
                c1, c2 = 4 + i, 4 + (i + 1) % 4
            else:
                c1, c2 = i, i + 4
            d = c07.make_data(rng, kind, pts[c1], pts[c2], centre)
            d["_P"], d["_Q"] = pts[c1], pts[c2]
            if "points" in d:
                d["points"] = _reg(d["points"])  # the user's own float array
            if "interp_pts" in d:
                d["interp_pts"] = _reg(d["interp_pts"])
            obj = c07.edge_object(d, cb, False)
            if where == "b":
                bottom_edges[i] = obj
            elif where == "t":
                top_edges[i] = obj
            else:
                side[i] = obj
        if g == "face":
            return cb.Face(pts[:4], bottom_edges), ("face", [list(p) for p in pts[4:]])
        op = cb.Loft(cb.Face(pts[:4], bottom_edges), cb.Face(pts[4:], top_edges))
        for i, obj in side.items():
            op.add_side_edge(i, obj)
        return op, None
    if g == "op":
        quad = [(-1, -1), (1, -1), (1, 1), (-1, 1)]
        base = [list(o + fr[0] * (x * rng.uniform(0.5, 1.5)) + fr[1] * (y * rng.uniform(0.5, 1.5))) for x, y in quad]
        k = e["kind"]
        if k == "box":
            return cb.Box(list(o), list(o + np.array([rng.uniform(0.5, 2) for _ in range(3)]))), None
        if k == "extrude":
            return cb.Extrude(cb.Face(base, [cb.Arc(list((np.array(base[0]) + np.array(base[1])) / 2 - fr[1] * 0.3)), None, None, None]),
                              list(fr[2] * rng.uniform(0.5, 2) + fr[0] * 0.3)), None
        if k == "revolve":
            return cb.Revolve(cb.Face(base), rng.uniform(0.3, 1.2) * rng.choice([1, -1]), list(fr[0] * 2), list(o - fr[1] * rng.uniform(3, 5))), None
        if k == "wedge":
            # wedge: a face in the x-y plane above the x axis
            x0, y0 = rng.uniform(-2, 2), rng.uniform(0.5, 2)
            return cb.Wedge(cb.Face([[x0, y0, 0], [x0 + 1.5, y0, 0], [x0 + 1.5, y0 + 1, 0], [x0, y0 + 1.2, 0]]), rng.uniform(0.03, 0.2)), None
    if g == "sketch":
        return make_sketch(e["kind"], rng, o, fr, cb), ("sketch", list(fr[2] * rng.uniform(0.6, 1.5)))
    if g == "shape":
        k = e["kind"]
        r = rng.uniform(0.5, 1.5)
        a1, a2 = o, o + fr[2] * rng.uniform(1, 3)
        rp = o + fr[0] * r
        if k == "cylinder":
            return cb.Cylinder(list(a1), list(a2), list(rp)), None
        if k == "semicylinder":
            return cb.SemiCylinder(list(a1), list(a2), list(rp)), None
        if k == "frustum":
            return cb.Frustum(list(a1), list(a2), list(rp), r * rng.uniform(0.4, 0.8)), None
        if k == "frustum-mid":
            return cb.Frustum(list(a1), list(a2), list(rp), r * 0.6, r * 0.95), None
        if k == "elbow":
            return cb.Elbow(list(o), list(rp), list(fr[2]), rng.uniform(0.4, 1.4), list(o + fr[0] * rng.uniform(2.5, 4)), list(fr[1]), r * rng.uniform(0.6, 1.2)), None
        if k == "extrudedring":
            return cb.ExtrudedRing(list(a1), list(a2), list(rp), r * rng.uniform(0.3, 0.7), n_segments=rng.choice([4, 6, 8])), None
        if k == "revolvedring":
            c = o + fr[0] * rng.uniform(1.5, 2.5)
            face = cb.Face([list(c), list(c + fr[2] * 0.8), list(c + fr[2] * 0.8 + fr[0] * 0.5), list(c + fr[0] * 0.6)])
            return cb.RevolvedRing(list(o), list(o + fr[2] * 2), face, n_segments=rng.choice([4, 6])), None
        if k == "hemisphere":
            return cb.Hemisphere(list(o), list(rp), list(fr[2])), None
        if k in ("revolvedshape", "revolvedshape-grid"):
            # a sketch in the plane (fr0, fr1) revolved about an axis parallel to fr0 lying on its -fr1 side
            sk = make_sketch("grid" if k.endswith("grid") else rng.choice(["onecore", "fourcore", "oval"]), rng, o, fr, cb)
            if k.endswith("grid"):
                sk = cb.Grid([0, 0, 0], [2, 1.5, 0], rng.randint(1, 2), rng.randint(1, 2))
                sk.rotate(rng.uniform(0, 3), [0, 0, 1], [0, 0, 0])
                return cb.RevolvedShape(sk, rng.uniform(0.3, 1.0), [1.0, 0.2, 0.0], [0.0, -6.0, 0.0]), None
            return cb.RevolvedShape(sk, rng.uniform(0.3, 1.0), list(fr[0] * 1.5), list(o - fr[1] * rng.uniform(4, 6))), None
    if g == "stack":
        k = e["kind"]
        base = cb.Grid(list(o), list(o + np.array([2.0, 1.5, 0.0])), rng.randint(1, 3), rng.randint(1, 2))
        base.rotate(rng.uniform(0, 3), list(geom.rand_unit(rng)), list(o))
        n = np.cross(base.faces[0].point_array[1] - base.faces[0].point_array[0], base.faces[0].point_array[3] - base.faces[0].point_array[0])
        n = n / np.linalg.norm(n)
        if k == "extrudedstack":
            return cb.ExtrudedStack(base, rng.uniform(1, 2), rng.randint(1, 3)), None
        if k == "revolvedstack":
            ax = base.faces[0].point_array[1] - base.faces[0].point_array[0]
            return cb.RevolvedStack(base, rng.uniform(0.3, 0.8), list(ax), list(o - np.cross(n, ax) * 4), rng.randint(1, 3)), None
        return cb.TransformedStack(base, [cb.Translation(list(n * 1.2)), cb.Rotation(list(n), 0.3, list(o))], rng.randint(1, 3),
                                   [cb.Translation(list(n * 0.6)), cb.Rotation(list(n), 0.15, list(o))]), None
    if g == "joint":
        k = e["kind"]
        start, centre = o, o + fr[2] * 3
        rp = start + fr[0] * rng.uniform(0.4, 0.8)
        if k == "cuspcylinder":
            from classy_blocks.construct.assemblies.joints import CuspCylinder

            return CuspCylinder(list(start), list(centre), list(rp), rng.uniform(0.5, 1.0), rng.uniform(0.5, 1.0)), None
        if k == "ljoint":
            return cb.LJoint(list(start), list(centre), list(rp)), None
        if k == "tjoint":
            return cb.TJoint(list(start), list(centre), list(rp)), None
        return cb.NJoint(list(start), list(centre), list(rp), rng.choice([3, 4, 5])), None
    if g == "curve":
        k = e["kind"]
        pts = [list(o + fr[0] * t * 3 + fr[1] * math.sin(t * 2.5) + fr[2] * 0.4 * t * t) for t in [0, 0.1, 0.25, 0.5, 0.6, 0.85, 1.0]]
        pts = _reg(pts)
        if k == "discrete":
            return cb.DiscreteCurve(pts), None
        if k == "linear":
            return cb.LinearInterpolatedCurve(pts), None
        if k == "spline-interp":
            return cb.SplineInterpolatedCurve(pts), None
        if k == "linecurve":
            return cb.LineCurve(pts[0], pts[-1]), None
        return cb.CircleCurve(list(o), list(o + fr[0] * 1.3), list(fr[2] * 2.0)), None
    raise AssertionError(e)


def make_sketch(k, rng, o, fr, cb):
    r = rng.uniform(0.6, 1.4)
    rp = list(o + fr[0] * r)
    n = list(fr[2] * rng.uniform(0.5, 2))
    if k == "grid":
        s = cb.Grid([0, 0, 0], [2, 1.5, 0], rng.randint(1, 3), rng.randint(1, 3))
        return s.rotate(rng.uniform(0, 3), list(geom.rand_unit(rng)), [0, 0, 0]).translate(list(o))
    if k == "onecore":
        return cb.OneCoreDisk(list(o), rp, n)
    if k == "fourcore":
        return cb.FourCoreDisk(list(o), rp, n)
    if k == "halfdisk":
        return cb.HalfDisk(list(o), rp, n)
    if k == "wrapped":
        # the disk must fit inside the square: radius < distance from the centre to the square's side
        return cb.WrappedDisk(list(o), list(o + fr[0] * r * 0.5 + fr[1] * r * 0.5), r * rng.uniform(0.25, 0.42), n)
    if k == "oval":
        return cb.Oval(list(o), list(o + fr[1] * rng.uniform(1, 2)), n, r * 0.6)
    if k == "annulus":
        from classy_blocks.construct.flat.sketches.annulus import Annulus

        return Annulus(list(o), rp, n, r * rng.uniform(0.3, 0.7), rng.choice([4, 6, 8]))
    c1, c2 = list(o + fr[0] * r), list(o + fr[1] * r * rng.uniform(0.8, 1.3))
    s1, s2 = r * rng.uniform(0.0, 0.4), r * rng.uniform(0.0, 0.4)
    if k == "splinedisk":
        return cb.SplineDisk(list(o), c1, c2, s1, s2)
    if k == "halfsplinedisk":
        return cb.HalfSplineDisk(list(o), c1, c2, s1, s2)
    if k == "quartersplinedisk":
        return cb.QuarterSplineDisk(list(o), c1, c2, s1, s2)
    return cb.SplineRing(list(o), c1, c2, s1, s2, r * 0.3, r * 0.3)


# ------------------------------------------------------------------------------------------------ maps
def own_view(entity, group, seed):
    """one of the entity's own points as the library hands it out (`curve.array[i]`, a view), or None"""
    arrs = []
    if group == "curve":
        if hasattr(entity, "array"):
            arrs.append(entity.array)
    else:
        faces = [entity] if group == "face" else [entity.bottom_face, entity.top_face]
        for fc in faces:
            for ed in fc.edges:
                a = getattr(getattr(ed, "curve", None), "array", None)
                if a is not None:
                    arrs.append(a)
    if not arrs:
        return None
    a = arrs[seed % len(arrs)]
    p = a[seed % len(a)]
    return p if isinstance(p, np.ndarray) and p.shape == (3,) else None


def apply_api(entity, maps, via, cb, snaps, origin_obj=None):
    """apply the maps through the public API; array arguments are float64 ndarrays, snapshotted"""
    def arr(v):
        a = np.array(v, dtype=float)
        snaps.append((a, a.copy()))
        return a

    tlist = []
    for m in maps:
        k = m["k"]
        origin = None if m.get("origin") is None else arr(m["origin"])
        if origin_obj is not None:
            origin = origin_obj
            snaps.append((origin_obj, origin_obj.copy()))
        if via == "method":
            if k == "translate":
                entity.translate(arr(m["d"]))
            elif k == "rotate":
                entity.rotate(m["angle"], arr(m["axis"]), origin)
            elif k == "scale":
                entity.scale(m["ratio"], origin)
            else:
                entity.mirror(arr(m["normal"]), origin)
        else:
            if k == "translate":
                tlist.append(cb.Translation(arr(m["d"])))
            elif k == "rotate":
                tlist.append(cb.Rotation(arr(m["axis"]), m["angle"], origin))
            elif k == "scale":
                tlist.append(cb.Scaling(m["ratio"], origin))
            else:
                tlist.append(cb.Mirror(arr(m["normal"]), origin))
    if via != "method":
        import warnings

        def state(t):
            o = getattr(t, "origin", "n/a")
            return None if o is None else ("n/a" if isinstance(o, str) else np.array(o, dtype=float).tolist())

        before = [state(t) for t in tlist]
        with warnings.catch_warnings():
            warnings.simplefilter("ignore")
            entity.transform(tlist)
        # the transformation objects belong to the caller (who may use the list again on another entity)
        TLIST_CHANGES[:] = [(type(t).__name__, b, state(t)) for t, b in zip(tlist, before) if state(t) != b]
    return entity


TLIST_CHANGES = []


def geom_map(m, centre):
    k = m["k"]
    origin = m.get("origin")
    if k == "translate":
        d = np.array(m["d"])
        return (lambda p: np.array(p) + d), 1.0
    if k == "rotate":
        o = centre if origin is None else origin
        return (lambda p: geom.rotate(p, m["axis"], m["angle"], o)), 1.0
    if k == "scale":
        o = centre if origin is None else origin
        return (lambda p: geom.scale(p, m["ratio"], o)), abs(m["ratio"])
    o = [0, 0, 0] if origin is None else origin
    return (lambda p: geom.reflect(p, m["normal"], o)), 1.0


# ------------------------------------------------------------------------------------------------ content
def own_centre(entity, group):
    """independent recomputation of the documented default origin where that is simple"""
    if group == "point":
        return np.zeros(3)  # a point's own centre is itself: Point.rotate / scale default to the global origin
    if group == "face":
        return np.mean(entity.point_array, axis=0)
    if group in ("loft", "op"):
        return np.mean(entity.point_array, axis=0)
    return None


def meshable(entity, extra, cb):
    if extra is None:
        return [entity]
    if extra[0] == "sketch":
        return [cb.ExtrudedShape(entity, list(extra[1]))]
    raise AssertionError


def content(items, cb):
    """assemble the real mesh; vertices and edge entries are read from the strings the writer would emit"""
    mesh = cb.Mesh()
    for it in items:
        mesh.add(it)
    mesh.assemble()
    text = "vertices\n(\n" + "\n".join("\t" + v.description for v in mesh.vertices) + "\n);\nblocks\n(\n);\n" + mesh.edge_list.description + "boundary\n(\n);\n"
    parsed = foamdict.parse_blockmesh(text)
    vpos = [np.array(v["pos"]) for v in parsed["vertices"]]
    full = [v.position.copy() for v in mesh.vertices]
    edges = []
    by_pair = {}
    for ed in mesh.edge_list.edges:
        by_pair[frozenset((ed.vertex_1.index, ed.vertex_2.index))] = ed
    for e in parsed["edges"]:
        a, b = full[e["a"]], full[e["b"]]
        if e["kind"] == "arc":
            try:
                samples = geom.sample_arc(a, e["point"], b, 41)
            except ValueError:
                samples = np.array([a, b])
        elif e["kind"] == "project":
            samples = np.array([a, b])
        else:
            samples = np.array([a] + [np.array(p) for p in e["points"]] + [b])
        obj = by_pair[frozenset((e["a"], e["b"]))]
        edges.append({"kind": e["kind"], "a": a, "b": b, "samples": samples, "length": float(obj.length), "labels": e.get("labels"),
                      "src": obj.data.kind})
    projected = sorted((tuple(np.round(v["pos"], 6)), tuple(v["project"])) for v in parsed["vertices"] if v["project"])
    used = {lb for e in parsed["edges"] for lb in e.get("labels", [])} | {lb for v in parsed["vertices"] for lb in (v["project"] or [])}
    used |= {pf.label for pf in mesh.face_list.faces}
    for ed in edges:
        if ed["labels"]:
            ed["labels"] = [_norm_label(lb) for lb in ed["labels"]]
    return {"verts": full, "printed": vpos, "edges": edges, "nproj": len(projected), "geometry": mesh.geometry_list.geometry,
            "labels_used": used}


def _norm_label(lb):
    """built-in geometries are documented to be instance-unique (sphere_<id>): compare them up to the instance id"""
    import re

    return re.sub(r"_\d{6,}$", "_<id>", lb)


def _sphere_params(lines):
    centre = radius = None
    for ln in lines:
        parts = ln.replace("(", " ").replace(")", " ").split()
        if parts[0] in ("origin", "centre") and len(parts) == 4:
            centre = np.array([float(x) for x in parts[1:]])
        if parts[0] == "radius":
            radius = float(parts[1])
    return centre, radius


def builtin_geometry_follows(ctx, cx, cy, A, scale_total, tol, tag, mkinds):
    """a geometry a built-in shape declares (searchableSphere) moves and scales with the shape"""
    gx = [v for k, v in cx["geometry"].items() if _norm_label(k) != k]
    gy = [v for k, v in cy["geometry"].items() if _norm_label(k) != k]
    if len(gx) != 1 or len(gy) != 1:
        return True
    (c0, r0), (c1, r1) = _sphere_params(gx[0]), _sphere_params(gy[0])
    if c0 is None or c1 is None or r0 is None or r1 is None:
        return True
    ctx.count("judged:built-in-geometry-follows")
    if not (np.linalg.norm(A(c0) - c1) <= tol * 4 + 1e-7 and abs(r1 - r0 * scale_total) <= 1e-6 * r0 * scale_total + 1e-8):
        has_mirror = "mirror" if any(m.startswith("mirror") for m in mkinds) else "no-mirror"
        ctx.violation(f"built-in-geometry-not-transformed:{tag}:{has_mirror}",
                      f"{mkinds}: declared sphere centre {c1.tolist()} radius {r1}, the transformed original has centre {A(c0).tolist()} radius {r0 * scale_total}")
        return False
    return True


def labels_defined(ctx, c, tag, what):
    """every label a built-in shape projects to must be declared by the same entity"""
    builtin = {lb for lb in c["labels_used"] if _norm_label(lb) != lb}
    missing = builtin - set(c["geometry"])
    if missing:
        ctx.violation(f"projection-label-without-geometry:{tag}:{what}", f"projects to {sorted(missing)}, declares {sorted(c['geometry'])}")
        return False
    return True


# ------------------------------------------------------------------------------------------------ judge
def helpers_leave_their_arguments(ctx, maps):
    """the transformation helpers of util.functions, called directly with non-unit float arrays: results as in geometry,
    arguments bit-identical afterwards"""
    from classy_blocks.util import functions as f

    p = np.array([0.7, -1.9, 2.3])
    for m in maps:
        k = m["k"]
        if k == "translate":
            continue
        origin = np.array(m["origin"] if m.get("origin") is not None else [0.3, 0.1, -0.2], dtype=float)
        args = [p.copy(), origin]
        if k == "rotate":
            axis = np.array(m["axis"], dtype=float)
            args.append(axis)
            got = f.rotate(args[0], m["angle"], axis, origin)
            f.rotation_matrix(axis, m["angle"])
            want = geom.rotate(p, m["axis"], m["angle"], origin)
        elif k == "scale":
            got = f.scale(args[0], m["ratio"], origin)
            want = geom.scale(p, m["ratio"], origin)
        else:
            normal = np.array(m["normal"], dtype=float)
            args.append(normal)
            got = f.mirror(args[0], normal, origin)
            want = geom.reflect(p, m["normal"], origin)
        ctx.count("judged:helper-functions-direct")
        snap = [p, origin] + ([np.array(m["axis"], dtype=float)] if k == "rotate" else [np.array(m["normal"], dtype=float)] if k == "mirror" else [])
        for a, b in zip(args, snap):
            if not np.array_equal(a, b):
                ctx.violation(f"helper-modifies-its-argument:functions.{k}", f"functions.{k}: argument {b.tolist()} became {a.tolist()}")
                return False
        if not (float(np.linalg.norm(np.array(got, dtype=float) - want)) <= 1e-9 * (1 + float(np.linalg.norm(want)))):
            ctx.violation(f"helper-result:functions.{k}", f"functions.{k}({p.tolist()}, ...) = {np.array(got).tolist()}, geometry {want.tolist()}")
            return False
    return True


def run_case(ctx, case):
    import classy_blocks as cb

    e = case["entity"]
    g = e["group"]
    maps = case["maps"]
    via = case["via"]
    ctx.evaluated()
    if not helpers_leave_their_arguments(ctx, maps):
        return
    for m in maps:
        ctx.count(f"map:{m['k']}")
        if m["k"] != "translate":
            ctx.count("origin:none" if m.get("origin") is None else "origin:given")
    ctx.count("via:method" if via == "method" else "via:transform-list")
    if len(maps) >= 2:
        ctx.count("composition:2+")
    ctx.count({"loft": "entity:operation", "op": "entity:operation", "shape": "entity:shape", "sketch": "entity:sketch",
               "stack": "entity:stack"}.get(g, f"entity:{g}"))
    name = e.get("kind") or "+".join(sorted(e.get("edge_kinds", []))) or g
    mkinds = [m["k"] + ("" if m["k"] == "translate" else (":default-origin" if m.get("origin") is None else ":origin")) for m in maps]
    ctx.key([g, name, sorted(set(mkinds)), via], nontrivial=g != "point")
    ctx.sample({"entity": e, "maps": maps, "via": via})
    tag = f"{g}:{name}"

    del CTOR_ARRAYS[:]
    X, extra = make_entity(e, cb)
    Y, _ = make_entity(e, cb)
    # the geometric map, step by step (default origins = centre before each step)
    snaps = []
    steps = []
    scale_total = 1.0
    if (e["seed"] % 4 == 0 or (g == "shape" and e["seed"] % 2 == 0)) and g not in ("point", "curve"):
        # history: the entity has already been assembled once (as a script that writes, transforms and writes again does);
        # nothing derived at that time may survive the transformation
        try:
            content(meshable(Y, extra, cb) if (extra is None or extra[0] == "sketch") else [cb.Loft(Y.copy(), cb.Face(extra[1]))], cb)
            ctx.count("history:assembled-before-the-transformation")
        except Exception:  # noqa: BLE001
            raise
    if via == "method":
        for mi, m in enumerate(maps):
            view = own_view(Y, g, e["seed"]) if m.get("own_origin") else None
            if view is not None:
                ctx.count("origin:own-point-view")
                m = dict(m, origin=view.copy().tolist())
                mkinds[mi] = m["k"] + ":own-point"
            centre = own_centre(Y, g)
            if centre is None and m["k"] in ("rotate", "scale") and m.get("origin") is None:
                centre = np.array(Y.center, dtype=float).copy()
                if centre.shape != (3,):
                    ctx.violation(f"default-origin-is-not-a-point:{g}", f"{tag}: .center = {centre!r}")
                    return
            fn, s = geom_map(m, centre)
            steps.append(fn)
            scale_total *= s
            apply_api(Y, [m], via, cb, snaps, origin_obj=view)
    else:
        # transform([...]): the centre is taken before every transformation of the list
        Yc = copy.deepcopy(Y)
        for m in maps:
            centre = own_centre(Yc, g)
            if centre is None and m["k"] in ("rotate", "scale") and m.get("origin") is None:
                centre = np.array(Yc.center, dtype=float).copy()
                if centre.shape != (3,):
                    ctx.violation(f"default-origin-is-not-a-point:{g}", f"{tag}: .center = {centre!r}")
                    return
            fn, s = geom_map(m, centre)
            steps.append(fn)
            scale_total *= s
            apply_api(Yc, [m], "method", cb, [])
        apply_api(Y, maps, via, cb, snaps)

    def A(p):
        q = np.array(p, dtype=float)
        for fn in steps:
            q = fn(q)
        return q

    if via != "method":
        ctx.count("judged:transformation-objects-unchanged")
        if TLIST_CHANGES:
            ctx.violation(f"transformation-object-modified:{g}", f"{tag} {mkinds}: transform([...]) changed the objects it was given: {TLIST_CHANGES[:3]} (type, origin before, origin after)")
            del TLIST_CHANGES[:]
            return
    # the entity's own centre is a geometric feature: it moves with the entity (it is the default origin of the next call)
    if g not in ("point", "curve"):
        try:
            c0, c1 = np.array(X.center, dtype=float), np.array(Y.center, dtype=float)
        except Exception:  # noqa: BLE001
            c0 = c1 = None
        if c0 is not None and c0.shape == (3,) and c1.shape == (3,) and np.all(np.isfinite(c0)):
            ctx.count("judged:centre-follows")
            size_c = 1.0 + float(np.linalg.norm(c0)) + float(np.linalg.norm(A(c0)))
            if not (float(np.linalg.norm(c1 - A(c0))) <= 1e-7 * size_c * max(1.0, scale_total)):
                ctx.violation(f"centre-not-transformed:{tag}", f"{mkinds} via {via}: .center was {c0.tolist()}, is {c1.tolist()}, the maps take it to {A(c0).tolist()}")
                return
    ctx.count("judged:arguments-unchanged")
    for a, before in snaps:
        if not np.array_equal(a, before):
            ctx.violation(f"argument-array-modified:{'+'.join(sorted(set(mk.split(':')[0] for mk in mkinds)))}:{g}",
                          f"{tag} {mkinds} via {via}: array {before} became {a}")
            return

    for a, before in CTOR_ARRAYS:
        if not np.array_equal(a, before):
            ctx.count("judged:constructor-arrays")
            ctx.violation(f"constructor-array-modified-by-transform:{g}:{'+'.join(sorted(set(mk.split(':')[0] for mk in mkinds)))}",
                          f"{tag} {mkinds} via {via}: the float array the entity was built from changed by {np.max(np.abs(a - before))}")
            return
    if CTOR_ARRAYS:
        ctx.count("judged:constructor-arrays")

    if g == "point":
        d = float(np.linalg.norm(Y.position - A(X.position)))
        ctx.count("judged:vertices")
        if not (d <= 1e-9 * (1 + np.linalg.norm(X.position))):
            ctx.violation(f"point-position:{'+'.join(mkinds)}", f"{mkinds}: API {Y.position}, geometry {A(X.position)}")
        return
    if g == "curve":
        judge_curve(ctx, X, Y, A, scale_total, tag, mkinds, e)
        copy_check_curve(ctx, e, cb, tag)
        return

    if extra is not None and extra[0] == "face":
        top = extra[1]
        cx = content([cb.Loft(X, cb.Face(top))], cb)
        cy = content([cb.Loft(Y, cb.Face([list(A(p)) for p in top]))], cb)
    elif extra is not None and extra[0] == "sketch":
        vec = np.array(extra[1])
        cx = content([cb.ExtrudedShape(X, list(vec))], cb)
        v2 = A(vec) - A(np.zeros(3))
        cy = content([cb.ExtrudedShape(Y, list(v2))], cb)
    else:
        cx = content([X], cb)
        cy = content([Y], cb)
    size = max(1.0, float(np.max(np.ptp(np.array(cx["verts"]), axis=0)))) * max(1.0, scale_total)
    tol = 1e-7 * size + 3e-8
    if not compare(ctx, cx, cy, A, scale_total, tol, tag, mkinds, via):
        return
    if not labels_defined(ctx, cy, tag, "transformed"):
        return
    if not builtin_geometry_follows(ctx, cx, cy, A, scale_total, tol, tag, mkinds):
        return
    if e["seed"] % 3 == 0 or g in ("shape", "face"):
        copy_check(ctx, e, cb, tag, extra)


def compare(ctx, cx, cy, A, scale_total, tol, tag, mkinds, via):
    mk = "+".join(sorted(set(m.split(":")[0] for m in mkinds)))
    org = "default-origin" if any("default-origin" in m for m in mkinds) else "origin"
    ctx.count("judged:vertices")
    if len(cx["verts"]) != len(cy["verts"]):
        ctx.violation(f"vertex-count:{tag}:{mk}", f"{mkinds} via {via}: {len(cx['verts'])} vertices before, {len(cy['verts'])} after")
        return False
    ys = np.array(cy["verts"])
    used = set()
    for p in cx["verts"]:
        q = A(p)
        d = np.linalg.norm(ys - q, axis=1)
        j = int(np.argmin(d))
        if d[j] > tol or j in used:
            ctx.violation(f"vertex-position:{tag}:{mk}:{org}", f"{mkinds} via {via}: vertex {list(p)} should map to {list(q)}; nearest transformed vertex is {d[j]:.3g} away (tol {tol:.2g})")
            return False
        used.add(j)
    if len(cx["edges"]) != len(cy["edges"]):
        ctx.violation(f"edge-count:{tag}:{mk}", f"{mkinds} via {via}: {len(cx['edges'])} curved edges before, {len(cy['edges'])} after")
        return False
    if cx["nproj"] is not None and cx["nproj"] != cy["nproj"]:
        ctx.violation(f"projected-vertex-count:{tag}:{mk}", f"{cx['nproj']} vs {cy['nproj']}")
        return False
    for ex in cx["edges"]:
        qa, qb = A(ex["a"]), A(ex["b"])
        match = None
        for ey in cy["edges"]:
            if np.linalg.norm(ey["a"] - qa) <= tol and np.linalg.norm(ey["b"] - qb) <= tol:
                match, fwd = ey, True
                break
            if np.linalg.norm(ey["a"] - qb) <= tol and np.linalg.norm(ey["b"] - qa) <= tol:
                match, fwd = ey, False
                break
        ctx.count("judged:edges")
        if match is None:
            ctx.violation(f"edge-missing-after-transform:{tag}:{ex['src']}:{mk}", f"{mkinds} via {via}: no curved edge between {list(qa)} and {list(qb)}")
            return False
        if match["kind"] != ex["kind"] or (match["labels"] or []) != (ex["labels"] or []):
            ctx.violation(f"edge-kind-or-labels:{tag}:{ex['src']}:{mk}", f"{ex['kind']} {ex['labels']} -> {match['kind']} {match['labels']}")
            return False
        want = np.array([A(p) for p in ex["samples"]])
        have = match["samples"] if fwd else match["samples"][::-1]
        dist = geom.directed_curve_distance(have, want, 61)
        chord = float(np.linalg.norm(qa - qb))
        etol = tol * 4 if ex["src"] != "curve" else 0.03 * max(chord, 1e-6) + tol
        if not (dist <= etol):
            ctx.violation(f"edge-shape:{tag}:{ex['src']}:{mk}:{org}",
                          f"{mkinds} via {via}: {ex['kind']} edge between {list(qa)} and {list(qb)} deviates {dist:.3g} (tol {etol:.2g}) from the transformed original curve")
            return False
        rel = 5e-3 if ex["src"] in ("curve", "spline") else 1e-6
        if not (abs(match["length"] - ex["length"] * scale_total) <= rel * ex["length"] * scale_total + 1e-9):
            ctx.violation(f"edge-length:{tag}:{ex['src']}:{mk}:{org}",
                          f"{mkinds} via {via}: Edge.length {match['length']} after, {ex['length']} x {scale_total} before")
            return False
    return True


def judge_curve(ctx, X, Y, A, scale_total, tag, mkinds, e):
    mk = "+".join(sorted(set(m.split(":")[0] for m in mkinds)))
    ctx.count("judged:direct-curve")
    lo, hi = X.bounds
    ts = [lo + (hi - lo) * t for t in (0, 0.13, 0.4, 0.77, 1.0)]
    if e["kind"] == "discrete":
        ts = [0, 2, 3, 6]
    size = 3.0 * max(1.0, scale_total)
    if e["kind"] == "circlecurve" and "mirror" in mk:
        # a reflection reverses the sense of rotation: the mirrored circle is the same point set traversed the other
        # way round, so it is compared as a set (dense samples), not parameter by parameter
        dense_y = np.array([Y.get_point(lo + (hi - lo) * k / 256) for k in range(257)])
        for t in ts:
            d = geom.point_polyline_distance(A(X.get_point(t)), dense_y)
            if not (d <= 1e-3 * size):
                ctx.violation(f"curve-point:{tag}:{mk}", f"{mkinds}: image of the point at parameter {t} is {d} off the transformed circle")
                return
        ts = []
    for t in ts:
        d = float(np.linalg.norm(Y.get_point(t) - A(X.get_point(t))))
        if not (d <= 1e-7 * size):
            ctx.violation(f"curve-point:{tag}:{mk}", f"{mkinds}: point at parameter {t}: API {Y.get_point(t)}, geometry {A(X.get_point(t))}")
            return
    lx, ly = X.length, Y.length
    if not (abs(ly - lx * scale_total) <= 1e-6 * lx * scale_total):
        ctx.violation(f"curve-length:{tag}:{mk}", f"{mkinds}: length {ly} after, {lx} x {scale_total} before")


def copy_check_curve(ctx, e, cb, tag):
    X, _ = make_entity(e, cb)
    before = [X.get_point(t).copy() for t in ((0, 3, 6) if e["kind"] == "discrete" else (X.bounds[0], sum(X.bounds) / 2, X.bounds[1]))]
    C = X.copy()
    C2 = X.copy()  # taken while everything X has derived so far (interpolants, lengths) is valid, and left alone
    C.translate([1.0, 2.0, 3.0])
    ctx.count("judged:copy-independent")
    ts = (0, 3, 6) if e["kind"] == "discrete" else (X.bounds[0], sum(X.bounds) / 2, X.bounds[1])
    X2, _ = make_entity(e, cb)
    [X2.get_point(t) for t in ts]
    C3 = X2.copy()
    X2.translate([-4.0, 5.0, 0.5])
    for t, b in zip(ts, before):
        if not (np.linalg.norm(C3.get_point(t) - b) <= 1e-9):
            ctx.violation(f"copy-follows-the-original:{tag}", f"original.translate([-4,5,0.5]) after copy(): the copy's point at {t} is {C3.get_point(t)}, was {b}")
            return
    for t, b in zip(ts, before):
        if not (np.linalg.norm(C2.get_point(t) - b) <= 1e-9):
            ctx.violation(f"copy-shares-state:{tag}", f"an untouched copy's point at {t} is {C2.get_point(t)}, the original had {b}")
            return
        if not np.array_equal(X.get_point(t), b):
            ctx.violation(f"copy-shares-state:{tag}", f"translating the copy moved the original's point at {t}")
            return
        if not (np.linalg.norm(C.get_point(t) - (b + np.array([1.0, 2.0, 3.0]))) <= 1e-9):
            ctx.violation(f"copy-does-not-follow-its-own-transform:{tag}", f"copy.translate([1,2,3]): point at {t} is {C.get_point(t)}, expected {b + np.array([1.0, 2.0, 3.0])}")
            return


def copy_check(ctx, e, cb, tag, extra):
    X, _ = make_entity(e, cb)
    items = (lambda ent: [ent]) if extra is None else None
    if extra is not None and extra[0] == "face":
        items = lambda ent: [cb.Loft(ent, cb.Face(extra[1]))]  # noqa: E731
    elif extra is not None:
        items = lambda ent: [cb.ExtrudedShape(ent, list(extra[1]))]  # noqa: E731
    c0 = content(items(X), cb)
    c_first = c0
    C = X.copy()
    C_untouched = X.copy()
    cc = content(items(C), cb)
    ctx.count("judged:copy-independent")
    ident = lambda p: np.array(p)  # noqa: E731
    if not compare(ctx, c0, cc, ident, 1.0, 3e-8, tag + ":copy", ["copy"], "copy"):
        return
    if not labels_defined(ctx, cc, tag, "copy"):
        return
    # the copy is projected (corner / face points): the original must not notice
    projected = False
    if hasattr(C, "project_corner"):
        C.project_corner(0, "geoCopyOnly")
        C.project_side("top", "geoCopyOnly", points=True)
        projected = True
    elif hasattr(C, "project") and hasattr(C, "points"):
        C.project("geoCopyOnly", points=True)
        projected = True
    elif hasattr(C, "operations"):
        for op in list(C.operations)[:2]:
            op.project_corner(0, "geoCopyOnly")
        projected = True
    C.translate([1.0, 2.0, 3.0])
    c1 = content(items(X), cb)
    if projected:
        ctx.count("judged:copy-projected-original-unchanged")
        if c1["nproj"] != c0["nproj"] or "geoCopyOnly" in c1["labels_used"]:
            ctx.violation(f"copy-shares-projection-state:{tag}",
                          f"projecting points of the copy changed the original: {c0['nproj']} -> {c1['nproj']} projected vertices")
            return
    for a, b in zip(c0["verts"], c1["verts"]):
        if not np.array_equal(a, b):
            ctx.violation(f"copy-shares-state:{tag}", f"translating the copy moved the original's vertex {list(a)} -> {list(b)}")
            return
    shift = lambda p: np.array(p) + np.array([1.0, 2.0, 3.0])  # noqa: E731
    if projected:
        c0 = dict(c0, nproj=None)
    if extra is not None and extra[0] == "face":
        c2 = content([cb.Loft(C, cb.Face([list(shift(p)) for p in extra[1]]))], cb)
    else:
        c2 = content(items(C), cb)
    if not compare(ctx, c0, c2, shift, 1.0, 1e-7 * 5 + 3e-8, tag + ":translated-copy", ["translate"], "copy"):
        return
    # the other direction: the original moves on, a copy taken earlier (while everything derived was valid) stays
    X.translate([-4.0, 5.0, 0.5])
    c3 = content(items(C_untouched), cb)
    compare(ctx, c_first, c3, ident, 1.0, 3e-8, tag + ":copy-after-original-moved", ["copy"], "copy")
