"""C03 — count and expansion obey blockMesh's geometric-progression law (DESIGN 3/C03).

Monitor: icontract postcondition on the real Chop.calculate (well-formedness, every call) + a reference
progression (vf.geom) that re-derives the parameters the user gave from the returned (count, expansion)."""

import itertools
import math

from vf import contracts

ID = "C03"
BUDGET = {"quick": 160000, "thorough": 4000000}
REQUIRED = ["contract:Chop.calculate", "class:truth", "class:unrealisable", "judged:not-coarser", "judged:inverted",
            "branch:uniform", "branch:r<1", "branch:r>1", "judged:grading-inverted",
            "judged:inverted:fresh-object", "judged:inverted:same-object-after-calculate",
            "judged:multigrading-description", "judged:multigrading-inverted"]
MIN_KEYS = 40
RULE = (
    "L = 10^U(-3,3); a consistent 'truth' progression (n in 1..200, r in [0.5,2], densified at 1 +- {0,3e-8,9e-8,1.1e-7,"
    "1e-6} and at exact-integer solutions) is drawn, one of the 10 parameter pairs is read off it (perturbed by +-10% "
    "when count is not in the pair); plus an unrealisable class. Chop.calculate, Chop.invert, Grading.add_chop/.inverted "
    "run on the real code. non-trivial: every case; distinct by (pair, branch r<1/uniform/r>1, rounding case, decade of L)"
)
ASSUMPTIONS = [
    "blockMesh geometric progression: delta_i = delta_0 r^i, r = E^(1/(n-1)) (OpenFOAM user guide)",
    "count=1 with a size != L is degenerate: only well-formedness is judged",
    "tolerance 1e-9 + 4n*1e-7 inside the library's |r-1| <= 1e-7 uniform branch, 1e-8 elsewhere",
]

PARAMS = ["count", "start_size", "end_size", "c2c_expansion", "total_expansion"]
PAIRS = list(itertools.combinations(PARAMS, 2))
NEAR_ONE = [0.0, 3e-8, -3e-8, 9e-8, -9e-8, 1.1e-7, -1.1e-7, 3e-7, -3e-7, 6e-7, -6e-7, 1e-6, -1e-6, 1.2e-6, -1.2e-6]


def truth(L, n, r):
    if n == 1:
        return {"count": 1, "start_size": L, "end_size": L, "c2c_expansion": r, "total_expansion": 1.0}
    if abs(r - 1) < 1e-13:
        d0 = L / n
    else:
        d0 = L * (1 - r) / (1 - r**n)
    return {"count": n, "start_size": d0, "end_size": d0 * r ** (n - 1), "c2c_expansion": r, "total_expansion": r ** (n - 1)}


def gen_multigrading(rng, L):
    """an edge chopped in 2-3 divisions: all uniform with unequal ratios / counts, mixed, or strongly graded"""
    k = rng.choice([2, 2, 3])
    ratios = {2: rng.choice([[0.3, 0.7], [0.5, 0.5], [0.6, 0.4], [0.25, 0.75]]), 3: rng.choice([[0.2, 0.5, 0.3], [0.25, 0.25, 0.5], [0.25, 0.5, 0.25]])}[k]
    style = rng.choice(["all-uniform", "all-uniform", "mixed", "graded"])
    chops = []
    for lr in ratios:
        n = rng.randint(1, 14)
        if style == "all-uniform" or (style == "mixed" and rng.random() < 0.5):
            kw = {"count": n} if rng.random() < 0.6 else {"count": n, "c2c_expansion": 1.0}
        else:
            kw = rng.choice([{"count": n, "c2c_expansion": rng.choice([0.5, 0.7, 0.9, 1.1, 1.3, 2.0])},
                             {"count": n, "total_expansion": rng.choice([0.013, 0.3, 3.7, 41.0])},
                             {"count": max(n, 2), "start_size": L * lr / max(n, 2) * rng.uniform(0.3, 0.95)}])
        kw["length_ratio"] = lr
        chops.append(kw)
    return {"L": L, "cls": "multigrading", "chops": chops, "style": style}


def run_multigrading(ctx, case):
    """Grading of several divisions: the text handed to blockMesh carries the computed numbers, and the inverted grading is
    the same physical cell sequence walked from the other end"""
    from classy_blocks.grading.chop import Chop
    from classy_blocks.grading.grading import Grading
    from vf import geom

    L = case["L"]
    ctx.evaluated()
    ctx.count("class:multigrading")
    g = Grading(L)
    try:
        for kw in case["chops"]:
            g.add_chop(Chop(**kw))
    except ValueError:
        ctx.count("multigrading:rejected")  # a preserved size that does not fit its division
        return
    spec = [list(x) for x in g.specification]
    ctx.key(["multigrading", len(spec), case["style"], [sorted(k for k in kw if k != "length_ratio") for kw in case["chops"]]])
    # --- the written text
    text = g.description
    nums = [float(x) for x in text.replace("(", " ").replace(")", " ").split()]
    ctx.count("judged:multigrading-description")
    flat = [x for row in spec for x in row]
    if len(nums) != len(flat) or any(not (math.isfinite(a) and abs(a - b) <= 1e-12 * max(abs(a), abs(b))) for a, b in zip(nums, flat)):
        ctx.violation("multigrading-description-differs-from-specification", f"L={L} chops {case['chops']}: description {text} for specification {spec}")
        return
    if any(row[2] <= 0 for row in [nums[i:i + 3] for i in range(0, len(nums), 3)]):
        ctx.violation("multigrading-description-non-positive-expansion", f"L={L} chops {case['chops']}: {text}")
        return
    # --- inversion
    gi = g.inverted
    ctx.count("judged:multigrading-inverted")
    if [list(x) for x in g.specification] != spec:
        ctx.violation("grading-inverted-modifies-receiver", f"{spec} -> {g.specification}")
        return
    fwd = geom.multigrading_sizes(L, [tuple(x) for x in spec])
    back = geom.multigrading_sizes(L, [tuple(x) for x in gi.specification])
    if len(fwd) != len(back) or any(abs(a - b) > 1e-9 * max(a, b) for a, b in zip(fwd[::-1], back)):
        ctx.violation("multigrading-inverted-is-not-the-reversed-cell-sequence" + (":all-divisions-uniform" if all(abs(x[2] - 1) < 1e-12 for x in spec) else ""),
                      f"L={L} chops {case['chops']}: specification {spec}, inverted {gi.specification}")
        return


def gen_case(ctx):
    rng = ctx.rng
    L = 10 ** rng.uniform(-3, 3)
    if rng.random() < 0.03:
        return gen_multigrading(rng, L)
    pair = rng.choice(PAIRS)
    if rng.random() < 0.12:
        # unrealisable / hostile class
        kw = {}
        kind = rng.choice(["size>=L", "neg-size", "zero-size", "opposite-sign"])
        if kind == "opposite-sign":
            pair = ("c2c_expansion", "total_expansion")
        elif not any(k.endswith("size") for k in pair):
            pair = rng.choice([p for p in PAIRS if any(k.endswith("size") for k in p)])
        n = rng.randint(2, 50)
        t = truth(L, n, rng.uniform(0.6, 1.6))
        kw = {k: t[k] for k in pair}
        if kind == "size>=L":
            for k in kw:
                if k.endswith("size"):
                    kw[k] = L * rng.choice([1.0, 1.0000001, 1.5, 10.0])
        elif kind == "neg-size":
            for k in kw:
                if k.endswith("size"):
                    kw[k] = -kw[k]
        elif kind == "zero-size":
            for k in kw:
                if k.endswith("size"):
                    kw[k] = 0.0
        elif kind == "opposite-sign":
            kw["total_expansion"] = 1.0 / kw["total_expansion"]
        return {"L": L, "kw": kw, "cls": "unrealisable", "kind": kind}
    n = rng.choice([1, 2, 3, rng.randint(1, 20), rng.randint(1, 200), rng.randint(1, 200)])
    u = rng.random()
    if u < 0.25:
        r = 1.0 + rng.choice(NEAR_ONE)
    elif u < 0.3:
        r = 1.0
    else:
        r = rng.uniform(0.5, 2.0) if rng.random() < 0.5 else 2 ** rng.uniform(-1, 1)
    t = truth(L, n, r)
    while min(t["start_size"], t["end_size"]) < 1e-4 * L:  # the property's domain: sizes from 1e-4 L up to L
        r = 1 + (r - 1) * 0.7
        t = truth(L, n, r)
    if set(pair) == {"c2c_expansion", "total_expansion"} and abs(r - 1) < 1e-3:
        r = rng.choice([0.9, 1.1, 1.02, 0.97])  # with r = 1 this pair does not determine a count
        t = truth(L, n, r)
    kw = {k: t[k] for k in pair}
    rounding = "exact"
    if "count" not in pair:
        v = rng.random()
        if v < 0.6:
            f = rng.uniform(0.9, 1.1)
            rounding = "perturbed"
            k = rng.choice([k for k in pair if k.endswith("size")] or [pair[0]])
            if k.endswith("size"):
                kw[k] = kw[k] * f
            elif n > 1:
                # perturb a ratio: keep its side of 1
                kw[k] = 1 + (kw[k] - 1) * f
        # else: exact-integer solution (the neighbourhood where rounding decides)
    return {"L": L, "kw": kw, "cls": "truth", "n": n, "r": r, "rounding": rounding}


def tol_for(n, rprime):
    return 1e-9 + 4 * n * 1e-7 if abs(rprime - 1) <= 1.0000001e-7 * 1.5 else 1e-8


def realised(L, n, E):
    if n == 1:
        return L, L, 1.0
    r = E ** (1.0 / (n - 1))
    if abs(r - 1) < 1e-13:
        d0 = L / n
    else:
        d0 = L * (1 - r) / (1 - r**n)
    return d0, d0 * E, r


def realisable(L, kw):
    """independent oracle: can the pair be realised on an edge of length L at all (count free)?"""
    r = kw.get("c2c_expansion")
    if "start_size" in kw and r is not None and r < 1 and kw["start_size"] / (1 - r) <= L * (1 + 1e-9):
        return False  # even infinitely many shrinking cells do not fill the edge
    if "end_size" in kw and r is not None and r > 1 and kw["end_size"] * r / (r - 1) <= L * (1 + 1e-9):
        return False
    return True


def _pole_band(L, kw):
    """the input class of the open finding: a size + total expansion (given or implied by two sizes) whose solution is
    two cells of almost equal size - length / smaller size within 2e-3 of 2 and 1e-7 <= |E - 1| < 2e-3. There the root
    cnt = 2 of the library's count equation sits next to its pole cnt = 1 inside the bracket [0, L / d_min]."""
    if "start_size" in kw and "end_size" in kw:
        et, small = kw["end_size"] / kw["start_size"], min(kw["start_size"], kw["end_size"])
    elif "total_expansion" in kw and ("start_size" in kw or "end_size" in kw):
        et = kw["total_expansion"]
        other = kw["start_size"] * et if "start_size" in kw else kw["end_size"] / et
        small = min(kw.get("start_size", kw.get("end_size")), other)
    else:
        return ""
    if small > 0 and abs(L / small - 2) < 4e-3 and 1e-7 <= abs(et - 1) < 2e-3:
        return ":two-cell-solution-next-to-the-pole"
    return ""


def run_case(ctx, case):
    from classy_blocks.grading.chop import Chop
    from classy_blocks.grading.grading import Grading

    contracts.install(ctx)
    if case["cls"] == "multigrading":
        return run_multigrading(ctx, case)
    L, kw = case["L"], dict(case["kw"])
    pair = tuple(sorted(kw))
    ctx.evaluated()
    ctx.count(f"class:{case['cls']}")
    err = None
    try:
        chop = Chop(**kw)
        n, E = chop.calculate(L)
    except contracts.ContractBroken as cerr:
        ctx.violation(f"ill-formed-result:{'+'.join(pair)}", str(cerr))
        return
    except Exception as exc:  # noqa: BLE001
        err = exc
    ctx.sample({"L": L, "kw": kw, "class": case["cls"], "result": None if err else [int(n), float(E)]})
    if case["cls"] == "unrealisable":
        ctx.key(["unrealisable", case["kind"], pair, "rejected" if err else "accepted"])
        if err is not None:
            ctx.count("unrealisable:rejected")
            return
        # accepted: well-formed (contract held) - it must still not be coarser than requested, and a
        # ratio pair of opposite sign can only be "realised" by a single cell
        ctx.count("unrealisable:accepted-wellformed")
        if case["kind"] == "opposite-sign":
            if n != 1:
                ctx.violation("opposite-sign-ratios-accepted", f"L={L} {kw} -> n={n} E={E}")
            return
        if case["kind"] in ("neg-size", "zero-size"):
            ctx.violation("non-positive-size-accepted", f"L={L} {kw} -> n={n} E={E}")
            return
        _judge_sizes(ctx, case, L, kw, n, E, pair, strict_lower=False)
        return
    degenerate = case["n"] == 1 or (err is None and n == 1)
    if degenerate:
        # a single cell: sizes / ratios are meaningless, the library's own choices (reject or return 1) are
        # both accepted; well-formedness was judged by the contract
        ctx.count("degenerate:single-cell")
        ctx.key(["single-cell", pair, "rejected" if err else "accepted"], nontrivial=False)
        return
    can = realisable(L, kw)
    if err is not None:
        if not can:
            ctx.count("truth:perturbation-made-it-unrealisable")
            return
        band = _pole_band(L, kw)
        ctx.violation(f"realisable-rejected:{'+'.join(pair)}:{type(err).__name__}{band}", f"L={L} {kw}: {err!r}")
        return
    if not can:
        ctx.violation(f"unrealisable-accepted:{'+'.join(pair)}", f"L={L} {kw} -> n={n} E={E}")
        return
    d0, dl, rp = realised(L, n, E)
    branch = "uniform" if abs(rp - 1) <= 1.5e-7 else ("r<1" if rp < 1 else "r>1")
    ctx.count(f"branch:{branch}")
    ctx.key([pair, branch, case["rounding"], int(math.floor(math.log10(L)))])
    tol = tol_for(n, rp)
    if "count" in kw:
        if n != kw["count"]:
            ctx.violation("count-not-kept", f"L={L} {kw} -> count {n}")
            return
        if "c2c_expansion" in kw and abs(rp - kw["c2c_expansion"]) > tol:
            ctx.violation("c2c-not-reproduced", f"L={L} {kw} -> n={n} E={E}: realised ratio {rp}")
            return
        if "start_size" in kw and abs(d0 - kw["start_size"]) > tol * kw["start_size"]:
            ctx.violation("start-size-not-reproduced(count given)", f"L={L} {kw} -> n={n} E={E}: first cell {d0}")
            return
        if "end_size" in kw and abs(dl - kw["end_size"]) > tol * kw["end_size"]:
            ctx.violation("end-size-not-reproduced(count given)", f"L={L} {kw} -> n={n} E={E}: last cell {dl}")
            return
        ctx.count("judged:count-given")
    if "total_expansion" in kw and abs(E - kw["total_expansion"]) > 1e-9 * abs(kw["total_expansion"]):
        ctx.violation("total-expansion-not-kept", f"L={L} {kw} -> E={E}")
        return
    if "count" not in kw:
        if not _judge_sizes(ctx, case, L, kw, n, E, pair, strict_lower=True):
            return
    # reversing the chop: same count, reciprocal expansion - on a fresh object and (every other case) on the very object
    # that was calculated before, as the library does when a chop is handed to an oppositely numbered neighbour
    if int(L * 1e7) % 2 == 0:
        inv = Chop(**kw)
        ctx.count("judged:inverted:fresh-object")
    else:
        inv = chop
        ctx.count("judged:inverted:same-object-after-calculate")
    inv.invert()
    try:
        n2, E2 = inv.calculate(L)
    except contracts.ContractBroken as cerr:
        ctx.violation(f"ill-formed-result(inverted):{'+'.join(pair)}", str(cerr))
        return
    except Exception as exc:  # noqa: BLE001
        band = _pole_band(L, kw)
        ctx.violation(f"inverted-chop-rejected:{'+'.join(pair)}:{type(exc).__name__}{band}", f"L={L} {kw}: inverted chop raised {exc!r}")
        return
    ctx.count("judged:inverted")
    near_integer = "count" not in kw and _near_rounding_boundary(L, kw, n)
    if n2 != n and not near_integer:
        ctx.violation(f"inverted-count-differs:{'+'.join(pair)}", f"L={L} {kw}: count {n}, inverted {n2}")
        return
    if n2 == n and abs(E2 * E - 1) > 1e-7:
        ctx.violation(f"inverted-expansion-not-reciprocal:{'+'.join(pair)}", f"L={L} {kw}: E={E}, inverted E={E2}")
        return
    # through Grading (single section, and as the second of two sections)
    g = Grading(L)
    g.add_chop(Chop(**kw))
    if [g.specification[0][1], g.specification[0][2]] != [n, E]:
        ctx.violation("grading-row-differs-from-chop", f"{g.specification} vs {(n, E)}")
        return
    if rngsplit(case):
        g = Grading(L)
        g.add_chop(Chop(length_ratio=0.25, count=3, c2c_expansion=1.2))
        g.add_chop(Chop(length_ratio=0.75, count=int(n), total_expansion=float(E)))
    before = [list(s) for s in g.specification]
    gi = g.inverted
    ctx.count("judged:grading-inverted")
    if [list(s) for s in g.specification] != before:
        ctx.violation("grading-inverted-modifies-receiver", f"{before} -> {g.specification}")
        return
    if [s[1] for s in gi.specification] != [s[1] for s in before][::-1] or [s[0] for s in gi.specification] != [s[0] for s in before][::-1]:
        ctx.violation("grading-inverted-sections", f"{before} -> {gi.specification}")
        return
    for a, b in zip(gi.specification, before[::-1]):
        if not (abs(a[2] * b[2] - 1) <= 1e-12):
            ctx.violation("grading-inverted-expansion", f"{before} -> {gi.specification}")
            return
    if gi.count != g.count:
        ctx.violation("grading-inverted-count", f"{g.count} -> {gi.count}")


def rngsplit(case):
    return int(case["L"] * 1e6) % 3 == 0


def _near_rounding_boundary(L, kw, n):
    """count was derived by truncation of a real number x: if x is within 1e-6 of an integer the two
    algebraically equal formulas (original / inverted) may legitimately round differently"""
    x = _x_value(L, kw)
    return True if x is None else abs(x - round(x)) < 1e-6 * max(1.0, abs(x))


def _x_value(L, kw):
    try:
        if "start_size" in kw and "c2c_expansion" in kw:
            r, s = kw["c2c_expansion"], kw["start_size"]
            return L / s if abs(r - 1) <= 1e-7 else math.log(1 - L / s * (1 - r)) / math.log(r)
        if "end_size" in kw and "c2c_expansion" in kw:
            r, s = 1 / kw["c2c_expansion"], kw["end_size"]
            return L / s if abs(r - 1) <= 1e-7 else math.log(1 - L / s * (1 - r)) / math.log(r)
        if "c2c_expansion" in kw and "total_expansion" in kw:
            return math.log(kw["total_expansion"]) / math.log(kw["c2c_expansion"])
    except (ValueError, ZeroDivisionError):
        return None
    return None  # (size,total), (start,end): solved numerically -> treat every case as possibly on a boundary


def _judge_sizes(ctx, case, L, kw, n, E, pair, strict_lower):
    """count not given: never coarser than requested, and coarser (>=) with one cell fewer"""
    d0, dl, rp = realised(L, n, E)
    tol = max(tol_for(n, rp), 1e-8)
    ctx.count("judged:not-coarser")
    if "c2c_expansion" in kw and "total_expansion" in kw:
        r, Et = kw["c2c_expansion"], kw["total_expansion"]
        lo, hi = (r ** (n - 1), r**n) if r > 1 else (r**n, r ** (n - 1))
        if not (lo * (1 - 1e-9) <= Et <= hi * (1 + 1e-9)):
            ctx.violation("count-from-ratios-wrong", f"L={L} {kw} -> n={n}: r^(n-1)={r**(n-1)}, r^n={r**n}")
            return False
        return True

    # which parameter is held fixed when the count is rounded
    def with_count(m):
        if m < 1:
            return None
        if "c2c_expansion" in kw:
            return realised(L, m, kw["c2c_expansion"] ** (m - 1))
        if "total_expansion" in kw:
            return realised(L, m, kw["total_expansion"])
        if "start_size" in kw and "end_size" in kw:
            return realised(L, m, kw["end_size"] / kw["start_size"])
        return realised(L, m, E)

    cur = with_count(n)
    prev = with_count(n - 1)
    for key, idx in (("start_size", 0), ("end_size", 1)):
        if key not in kw:
            continue
        want = kw[key]
        if cur[idx] > want * (1 + tol):
            ctx.violation(f"coarser-than-requested:{'+'.join(pair)}", f"L={L} {kw} -> n={n} E={E}: {key} realised {cur[idx]} > requested {want}")
            return False
        if strict_lower and prev is not None and n > 1 and prev[idx] < want * (1 - tol):
            ctx.violation(f"more-cells-than-needed:{'+'.join(pair)}", f"L={L} {kw} -> n={n}: with {n-1} cells {key} would be {prev[idx]} <= requested {want}")
            return False
    return True
