"""C07 — curved-edge entries are unique, on real block edges and correctly directed (DESIGN 3/C07).

Offline checker over the written `edges` section: every entry is decoded to a DIRECTED curve from pos(a) to
pos(b) and compared (same end-point order, equal arc-length fractions) with the curve the user described;
uniqueness, omission of straight / zero-length / collinear edges; hooked Edge.length of the wires."""

import math

import numpy as np

from vf import foamdict, geom, hexconv, util

ID = "C07"
BUDGET = {"quick": 900, "thorough": 50000}
KINDS = ["arc", "origin", "angle", "angle-neg", "spline", "polyLine", "project", "oncurve-circle", "oncurve-line", "oncurve-interp"]
TREATS = [["none"], ["invert"], ["shift", 1], ["shift", 2], ["shift", -1], ["reorient", 1], ["reorient", 2], ["reorient", 3]]
REQUIRED = ["judged:entry-curve", "judged:length", "judged:omitted", "judged:defined-twice", "treat:invert", "treat:shift",
            "treat:reorient", "pos:closing-edge", "kind:angle", "kind:spline", "kind:oncurve-circle", "special:shared-angle-object"]
MIN_KEYS = 200
RULE = (
    "one general hexahedron (random frame, offset, jitter) carrying ONE user-defined edge: exhaustive grid 12 positions x 10 "
    "kinds (arc, origin, angle +/-, spline, polyLine, project, OnCurve circle / line / linear-interpolated) x face treatments "
    "(as given, invert, shift k, reorient j) with seeded geometry, plus random cases incl. a neighbour that defines the same "
    "edge again (same / opposite direction, either insertion order) and degenerate edges (collinear arc, zero length). "
    "Direction-dependent data is deliberately asymmetric. distinct by (position, kind, treatment, twice, degenerate)"
)
ASSUMPTIONS = [
    "user convention: Face edge i runs from point i to point i+1 (closing edge 3 -> 0), side edge i from bottom i to top i",
    "spline edges: the reference curve / length is the polyline through the points (as blockMesh's control polygon); "
    "length accepted in [polyline, 1.15 polyline]",
    "tolerance 1e-6*size + 2e-8 (8 printed decimals) for exact kinds, 3% of size for curve-snapped edges (discretisation)",
]


# -------------------------------------------------------------------------------------------------
def user_corners(pos):
    if pos < 4:
        return pos, (pos + 1) % 4
    if pos < 8:
        return 4 + (pos - 4), 4 + (pos - 4 + 1) % 4
    return pos - 8, pos - 8 + 4


def make_hex(rng):
    fr = geom.orthonormal_frame(rng)
    off = np.array(geom.rand_vec(rng, -5, 5))
    s = [rng.uniform(0.7, 2.0) for _ in range(3)]
    pts = []
    for c in hexconv.CORNER:
        loc = np.array([(c[i] - 0.5) * s[i] + rng.uniform(-0.08, 0.08) for i in range(3)])
        pts.append(list(off + fr.T @ loc))
    return pts


def make_data(rng, kind, P, Q, centre_hint):
    """explicit description of a curve from P to Q"""
    P, Q = np.array(P), np.array(Q)
    c = Q - P
    L = float(np.linalg.norm(c))
    e = c / L
    # a perpendicular that points away from the block centre (so the bulge is outside)
    out = (P + Q) / 2 - np.array(centre_hint)
    u = out - np.dot(out, e) * e
    if np.linalg.norm(u) < 1e-6:
        u = np.cross(e, [1, 0, 0])
    u = u / np.linalg.norm(u)
    u = geom.rotate_vec(u, e, rng.uniform(-0.6, 0.6))
    w = np.cross(e, u)
    d = {"kind": kind}
    if kind in ("arc", "origin", "angle", "angle-neg", "oncurve-circle"):
        theta = rng.uniform(0.4, 2.7) if kind != "origin" else rng.uniform(0.4, 2.5)
        if kind in ("angle", "angle-neg") and rng.random() < 0.35:
            theta = rng.uniform(3.4, 5.6)  # sector angles above pi: the long way round
        M = (P + Q) / 2
        C = M - u * (L / 2) / math.tan(theta / 2)
        n = np.cross(u, e)
        d.update(theta=theta, C=list(C), n=list(n * rng.uniform(0.5, 3.0)))
        if kind == "arc":
            d["arc_point"] = list(geom.rotate(P, n, theta * rng.choice([0.2, 0.35, 0.7]), C))
        if kind == "oncurve-circle":
            delta = rng.uniform(0.3, 0.8)
            d["rim"] = list(geom.rotate(P, n, -delta, C))
            d["n_points"] = rng.choice([12, 20])
            d["repr"] = rng.choice(["spline", "polyLine"])
    elif kind in ("spline", "polyLine"):
        ts = rng.choice([[0.08, 0.18, 0.3], [0.1, 0.2, 0.3, 0.45], [0.05, 0.15], [0.1, 0.25, 0.4, 0.5, 0.6]])
        amp = L * rng.uniform(0.2, 0.45)
        d["points"] = [list(P + c * t + u * amp * math.sin(math.pi * t ** 0.6) + w * amp * 0.3 * t) for t in ts]
    elif kind == "project":
        d["labels"] = rng.choice([["geoA"], ["geoA", "geoB"]])
    elif kind == "oncurve-line":
        d["ext"] = rng.uniform(0.1, 0.5)
        d["n_points"] = rng.choice([5, 10])
        d["repr"] = "spline"
    elif kind == "oncurve-interp":
        ts = [0.15, 0.3, 0.5, 0.8]
        amp = L * 0.3
        inner = [list(P + c * t + u * amp * math.sin(math.pi * t ** 0.6)) for t in ts]
        d["interp_pts"] = [list(P - c * 0.3 - u * 0.1)] + [list(P)] + inner + [list(Q)] + [list(Q + c * 0.3 - u * 0.1)]
        d["n_points"] = 24
        d["repr"] = rng.choice(["spline", "polyLine"])
    return d


def expected_curve(d, P, Q):
    """(dense samples from P to Q, length or None, tolerance class)"""
    P, Q = np.array(P), np.array(Q)
    k = d["kind"]
    if k in ("arc", "origin", "angle", "angle-neg", "oncurve-circle"):
        C, n, th = np.array(d["C"]), np.array(d["n"]), d["theta"]
        pts = np.array([geom.rotate(P, n, th * t / 64, C) for t in range(65)])
        return pts, float(np.linalg.norm(P - C)) * th, ("curve" if k == "oncurve-circle" else "exact")
    if k in ("spline", "polyLine"):
        pts = np.array([P] + [np.array(p) for p in d["points"]] + [Q])
        return pts, geom.polyline_length(pts), "exact"
    if k == "oncurve-interp":
        pts = np.array([np.array(p) for p in d["interp_pts"][1:-1]])
        return pts, geom.polyline_length(pts), "curve"
    return np.array([P, Q]), float(np.linalg.norm(P - Q)), ("curve" if k == "oncurve-line" else "exact")


def edge_object(d, cb, reverse):
    k = d["kind"]
    if k == "arc":
        return cb.Arc(d["arc_point"])
    if k == "origin":
        return cb.Origin(d["C"])
    if k in ("angle", "angle-neg"):
        ang, ax = d["theta"], np.array(d["n"])
        if k == "angle-neg":
            ang, ax = -ang, -ax
        if reverse:
            ax = -ax
        return cb.Angle(ang, list(ax))
    if k == "spline":
        return cb.Spline(d["points"][::-1] if reverse else d["points"])
    if k == "polyLine":
        return cb.PolyLine(d["points"][::-1] if reverse else d["points"])
    if k == "project":
        return cb.Project(list(d["labels"]))
    if k == "oncurve-circle":
        return cb.OnCurve(cb.CircleCurve(d["C"], d["rim"], d["n"]), n_points=d["n_points"], representation=d["repr"])
    if k == "oncurve-line":
        P, Q = np.array(d["_P"]), np.array(d["_Q"])
        c = Q - P
        return cb.OnCurve(cb.LineCurve(list(P - c * d["ext"]), list(Q + c * d["ext"])), n_points=d["n_points"], representation=d["repr"])
    if k == "oncurve-interp":
        return cb.OnCurve(cb.LinearInterpolatedCurve(d["interp_pts"]), n_points=d["n_points"], representation=d["repr"])
    raise AssertionError(k)


def build_case(rng, pos, kind, treat, twice=None, degenerate=None, first="op1"):
    pts = make_hex(rng)
    c1, c2 = user_corners(pos)
    if degenerate == "zero-length":
        pts[c2] = list(pts[c1])
    centre = list(np.mean(np.array(pts), axis=0))
    if degenerate == "zero-length":
        # a collapsed edge (wedge-type geometry) carrying any curved kind must not be written
        zk = rng.choice(["arc", "project", "spline", "polyLine"])
        p0 = np.array(pts[c1])
        d = {"arc": {"kind": "arc", "arc_point": list(p0 + 0.1)},
             "project": {"kind": "project", "labels": ["geoA"]},
             "spline": {"kind": "spline", "points": [list(p0 + [0.1, 0.0, 0.05]), list(p0 + [0.0, 0.12, 0.0])]},
             "polyLine": {"kind": "polyLine", "points": [list(p0 + [0.1, 0.0, 0.05]), list(p0 + [0.0, 0.12, 0.0])]}}[zk]
    else:
        d = make_data(rng, kind, pts[c1], pts[c2], centre)
    if degenerate == "collinear-arc":
        t = rng.uniform(0.2, 0.8)
        d = {"kind": "arc", "arc_point": list(np.array(pts[c1]) * (1 - t) + np.array(pts[c2]) * t)}
    d["_P"], d["_Q"] = pts[c1], pts[c2]
    return {"pts": pts, "pos": pos, "data": d, "treat": treat, "twice": twice, "degenerate": degenerate, "first": first,
            "reorient_noise": [rng.uniform(-0.1, 0.1) for _ in range(3)]}


def fixed_cases(tier):
    import random

    out = []
    i = 0
    for pos in range(12):
        for kind in KINDS:
            for treat in (TREATS if tier == "thorough" else [["none"], ["invert"], ["shift", 1], ["reorient", 1]]):
                rng = random.Random(f"c07/{pos}/{kind}/{treat}")
                out.append(build_case(rng, pos, kind, treat))
                i += 1
    return out


def shared_angle_case(rng, treat, n_shared):
    """a square inscribed in a circle (random frame): ONE Angle(pi/2, normal) object is put on 2 or 4 of its edges"""
    fr = geom.orthonormal_frame(rng)
    c = np.array(geom.rand_vec(rng, -4, 4))
    R = rng.uniform(0.6, 2.0)
    quad = [list(c + R * (math.cos(k * math.pi / 2) * fr[0] + math.sin(k * math.pi / 2) * fr[1])) for k in range(4)]
    return {"special": "shared-angle", "quad": quad, "centre": list(c), "normal": list(fr[2] * rng.uniform(0.5, 2)), "R": R,
            "height": rng.uniform(0.8, 2.0), "treat": treat, "edges": [0, 2] if n_shared == 2 else [0, 1, 2, 3]}


def gen_case(ctx):
    rng = ctx.rng
    u = rng.random()
    if u > 0.93:
        return shared_angle_case(rng, rng.choice([["none"], ["invert"], ["shift", 1], ["op-invert"]]), rng.choice([2, 4]))
    pos = rng.randrange(12)
    kind = rng.choice(KINDS)
    treat = rng.choice(TREATS)
    if u < 0.45:
        return build_case(rng, rng.choice([0, 1, 2, 3, 8, 9, 10, 11]), kind, ["none"], twice=rng.choice(["same", "reversed"]),
                          first=rng.choice(["op1", "op2"]))
    if u < 0.6:
        return build_case(rng, pos, "arc", treat, degenerate=rng.choice(["collinear-arc", "zero-length"]))
    return build_case(rng, pos, kind, treat)


# -------------------------------------------------------------------------------------------------
def same(a, b, tol=1e-7):
    return float(np.linalg.norm(np.array(a) - np.array(b))) < tol


def build_ops(case, cb):
    pts = [np.array(p) for p in case["pts"]]
    d = case["data"]
    pos = case["pos"]
    P, Q = pts[user_corners(pos)[0]], pts[user_corners(pos)[1]]
    bottom_edges, top_edges = [None] * 4, [None] * 4
    if pos < 4:
        bottom_edges[pos] = edge_object(d, cb, False)
    elif pos < 8:
        top_edges[pos - 4] = edge_object(d, cb, False)
    bottom = cb.Face(pts[:4], bottom_edges)
    top = cb.Face(pts[4:], top_edges)
    if int(abs(float(pts[0][0])) * 1e6) % 3 == 0:
        # calls that ask for nothing: a computed list of corners to clear that happens to be empty
        bottom.remove_edges([])
        top.remove_edges([])
    t = case["treat"]
    if t[0] == "invert":
        bottom, top = top.invert(), bottom.invert()
    elif t[0] == "shift":
        bottom.shift(t[1])
        top.shift(t[1])
    elif t[0] == "reorient":
        noise = np.array(case["reorient_noise"])
        bottom.reorient(list(bottom.points[t[1]].position + noise))
        top.reorient(list(top.points[t[1]].position + noise))
    op1 = cb.Loft(bottom, top)
    if pos >= 8:
        # a side edge is defined after construction, at the corner where it now sits, bottom -> top
        bp = [p.position for p in op1.bottom_face.points]
        tp = [p.position for p in op1.top_face.points]
        for k in range(4):
            if same(bp[k], P) and same(tp[k], Q):
                op1.add_side_edge(k, edge_object(d, cb, False))
            elif same(bp[k], Q) and same(tp[k], P):
                op1.add_side_edge(k, edge_object(d, cb, True))
    ops = [op1]
    if case["twice"]:
        i = pos if pos < 4 else pos - 8
        A, B, A2, B2 = pts[i], pts[(i + 1) % 4], pts[i + 4], pts[(i + 1) % 4 + 4]
        centre = np.mean(np.array(pts), axis=0)
        dvec = (A + B + A2 + B2) / 4 - centre
        dvec = dvec / np.linalg.norm(dvec) * 1.3
        rev = case["twice"] == "reversed"
        if pos < 4:
            if rev:   # edge B -> A as edge 0 of the neighbour's bottom face
                f1 = cb.Face([B, A, A + dvec, B + dvec], [edge_object(d, cb, True), None, None, None])
                f2 = cb.Face([B2, A2, A2 + dvec, B2 + dvec])
                op2 = cb.Loft(f1, f2)
            else:     # edge A -> B as edge 0 of the neighbour's top face
                f1 = cb.Face([A2, B2, B2 + dvec, A2 + dvec])
                f2 = cb.Face([A, B, B + dvec, A + dvec], [edge_object(d, cb, False), None, None, None])
                op2 = cb.Loft(f1, f2)
        else:
            if rev:   # side edge A2 -> A
                op2 = cb.Loft(cb.Face([A2, B2, B2 + dvec, A2 + dvec]), cb.Face([A, B, B + dvec, A + dvec]))
                op2.add_side_edge(0, edge_object(d, cb, True))
            else:     # side edge A -> A2 at corner 1
                op2 = cb.Loft(cb.Face([B, A, A + dvec, B + dvec]), cb.Face([B2, A2, A2 + dvec, B2 + dvec]))
                op2.add_side_edge(1, edge_object(d, cb, False))
        ops = [op1, op2] if case["first"] == "op1" else [op2, op1]
    return ops, P, Q


def run_shared_angle(ctx, case):
    """the same edge-data object on several edges of one face: after invert / shift every arc still bulges outwards"""
    import classy_blocks as cb

    c, n, R = np.array(case["centre"]), geom.unit(case["normal"]), case["R"]
    quad = [np.array(p) for p in case["quad"]]
    shared = cb.Angle(math.pi / 2, list(case["normal"]))
    bottom = cb.Face(quad, [shared if k in case["edges"] else None for k in range(4)])
    top = cb.Face([p + n * case["height"] for p in quad])
    t = case["treat"]
    if t[0] == "invert":
        bottom, top = top.invert(), bottom.invert()
    elif t[0] == "shift":
        bottom.shift(t[1])
        top.shift(t[1])
    op = cb.Loft(bottom, top)
    if t[0] == "op-invert":
        op.invert()
    for a in range(3):
        op.chop(a, count=2)
    mesh = cb.Mesh()
    mesh.add(op)
    path = util.tmpfile("c07s")
    got, err = util.write_outcome(mesh, path)
    ctx.evaluated()
    ctx.count("special:shared-angle-object")
    ctx.count(f"treat:{t[0]}")
    ctx.key(["shared-angle", t, len(case["edges"])])
    if got != "success":
        util.rm(path)
        ctx.violation(f"write-failed:{got}", f"{err!r}")
        return
    parsed = foamdict.read_blockmesh(path)
    util.rm(path)
    vpos = [np.array(v["pos"]) for v in parsed["vertices"]]
    found = 0
    for e in parsed["edges"]:
        a, b = vpos[e["a"]], vpos[e["b"]]
        in_plane = abs(np.dot(a - c, n)) < 1e-6 and abs(np.dot(b - c, n)) < 1e-6
        if e["kind"] == "arc" and in_plane:
            found += 1
            p = np.array(e["point"])
            mid_dir = (a + b) / 2 - c
            if not (abs(np.linalg.norm(p - c) - R) <= 1e-6 * R) or not (np.dot(p - c, mid_dir) > 0):
                ctx.violation(f"shared-edge-object:arc-off-the-circle:{t[0]}",
                              f"one Angle object on edges {case['edges']} of a face, treatment {t}: arc {e['a']} {e['b']} has its third point at "
                              f"radius {np.linalg.norm(p - c):.6f} (circle radius {R:.6f})" + (" on the inner side" if np.dot(p - c, mid_dir) <= 0 else ""))
                return
    if found != len(case["edges"]):
        ctx.violation(f"shared-edge-object:arc-count:{t[0]}", f"{found} arc entries in the face plane, {len(case['edges'])} edges carry the Angle")


def run_case(ctx, case):
    import classy_blocks as cb

    if case.get("special") == "shared-angle":
        return run_shared_angle(ctx, case)
    d = case["data"]
    kind = d["kind"]
    ops, P, Q = build_ops(case, cb)
    mesh = cb.Mesh()
    for op in ops:
        for a in range(3):
            op.chop(a, count=2)
        mesh.add(op)
    mesh.add_geometry({"geoA": ["type searchablePlane", "planeType pointAndNormal", "point (0 0 0)", "normal (0 0 1)"],
                       "geoB": ["type sphere", "origin (0 0 0)", "radius 20"]})
    pos = case["pos"]
    if case["degenerate"] == "zero-length":
        # a collapsed edge cannot be graded (zero length), so the observation point is the assembled edge list
        mesh.assemble()
        ctx.evaluated()
        ctx.count("judged:omitted")
        ctx.key([pos, kind, case["treat"], None, "zero-length", None])
        text = mesh.edge_list.description
        entries = [ln for ln in text.splitlines() if ln.strip() and ln.strip() not in ("edges", "(", ");") and not ln.strip().startswith("//")]
        if entries:
            ctx.violation("degenerate-edge-written:zero-length", f"edges section: {entries}")
        return
    path = util.tmpfile("c07")
    got, err = util.write_outcome(mesh, path)
    ctx.evaluated()
    ctx.count(f"kind:{kind}")
    ctx.count(f"treat:{case['treat'][0]}")
    if pos in (3, 7):
        ctx.count("pos:closing-edge")
    ctx.key([pos, kind, case["treat"], case["twice"], case["degenerate"], case["first"] if case["twice"] else None])
    ctx.sample({"pos": pos, "kind": kind, "treat": case["treat"], "twice": case["twice"], "degenerate": case["degenerate"],
                "P": list(P), "Q": list(Q), "data": {k: v for k, v in d.items() if not k.startswith("_")}})
    if got != "success":
        util.rm(path)
        ctx.violation(f"write-failed:{got}", f"{err!r}")
        return
    parsed = foamdict.read_blockmesh(path)
    util.rm(path)
    vpos = [np.array(v["pos"]) for v in parsed["vertices"]]
    block_pairs = set()
    for blk in parsed["blocks"]:
        for e in hexconv.EDGES:
            block_pairs.add(frozenset((blk["idx"][e[0]], blk["idx"][e[1]])))
    size = float(np.linalg.norm(np.array(case["pts"][0]) - np.array(case["pts"][6])))
    on_edge, elsewhere = [], []
    seen_pairs = set()
    for e in parsed["edges"]:
        pr = frozenset((e["a"], e["b"]))
        if pr in seen_pairs:
            ctx.violation("edge-listed-twice", f"vertex pair {sorted(pr)} has two entries")
            return
        seen_pairs.add(pr)
        if pr not in block_pairs or len(pr) != 2:
            ctx.violation("entry-not-on-a-block-edge", f"{e['kind']} {e['a']} {e['b']} is not an edge of any block")
            return
        pa, pb = vpos[e["a"]], vpos[e["b"]]
        if (same(pa, P, 1e-6) and same(pb, Q, 1e-6)) or (same(pa, Q, 1e-6) and same(pb, P, 1e-6)):
            on_edge.append(e)
        else:
            elsewhere.append(e)
    if elsewhere:
        e = elsewhere[0]
        ctx.violation(f"entry-on-an-edge-the-user-left-straight:{kind}:{_treat(case)}",
                      f"{e['kind']} {e['a']} {e['b']} lies between {list(vpos[e['a']])} and {list(vpos[e['b']])}; the user's edge is {list(P)} -> {list(Q)}")
        return
    if case["degenerate"]:
        ctx.count("judged:omitted")
        if on_edge:
            ctx.violation(f"degenerate-edge-written:{case['degenerate']}", f"{on_edge[0]}")
        return
    if len(on_edge) != 1:
        ctx.violation(f"user-edge-missing:{kind}:{_treat(case)}" if not on_edge else "user-edge-written-twice",
                      f"{len(on_edge)} entries between {list(P)} and {list(Q)} (kind {kind}, position {pos}, treatment {case['treat']})")
        return
    if case["twice"]:
        ctx.count("judged:defined-twice")
    e = on_edge[0]
    want_kind = {"arc": "arc", "origin": "arc", "angle": "arc", "angle-neg": "arc", "spline": "spline", "polyLine": "polyLine",
                 "project": "project"}.get(kind, d.get("repr"))
    if e["kind"] != want_kind:
        ctx.violation("entry-kind", f"written {e['kind']}, user gave {kind} (-> {want_kind})")
        return
    forward = same(vpos[e["a"]], P, 1e-6)
    exp, exp_len, tolclass = expected_curve(d, P, Q)
    if not forward:
        exp = exp[::-1]
    if kind == "project":
        if sorted(e["labels"]) != sorted(d["labels"]):
            ctx.violation("project-labels", f"written {e['labels']}, given {d['labels']}")
            return
    else:
        if e["kind"] == "arc":
            try:
                dec = geom.sample_arc(vpos[e["a"]], e["point"], vpos[e["b"]], 65)
            except ValueError:
                ctx.violation(f"arc-entry-collinear:{kind}", f"{e}")
                return
        else:
            dec = np.array([vpos[e["a"]]] + [np.array(p) for p in e["points"]] + [vpos[e["b"]]])
        dist = geom.directed_curve_distance(dec, exp, 81)
        tol = (1e-6 * size + 2e-8) if tolclass == "exact" else 0.03 * size
        ctx.count("judged:entry-curve")
        if not (dist <= tol):
            # is it the user's curve traversed the other way round / the complementary arc?
            rev = geom.directed_curve_distance(dec[::-1], exp, 81) if e["kind"] != "arc" else None
            why = "point-order-reversed-w.r.t.-vertex-order" if rev is not None and rev <= tol else "different-curve"
            ctx.violation(f"curve-differs:{kind}:{_treat(case)}:{_posclass(pos)}:{why}",
                          f"entry {e['kind']} {e['a']} {e['b']} (a at {'P' if forward else 'Q'}): max deviation {dist:.4g} (tol {tol:.2g}) "
                          f"from the user's curve P={list(P)} Q={list(Q)}; position {pos}, treatment {case['treat']}, twice {case['twice']}")
            return
    # hooked wire lengths
    for blk in mesh.blocks:
        for w in blk.wire_list:
            a, b = w.vertices[0].position, w.vertices[1].position
            if (same(a, P, 1e-6) and same(b, Q, 1e-6)) or (same(a, Q, 1e-6) and same(b, P, 1e-6)):
                ln = w.edge.length
                ctx.count("judged:length")
                ok = abs(ln - exp_len) <= (1e-6 if tolclass == "exact" else 5e-3) * exp_len
                if kind == "spline":
                    ok = exp_len * (1 - 1e-6) <= ln <= exp_len * 1.15
                if not ok:
                    ctx.violation(f"edge-length:{kind}:{_treat(case)}:{_posclass(pos)}",
                                  f"wire {w} of block {blk.index}: Edge.length {ln}, the user's curve is {exp_len} long")
                    return
            elif w.edge.kind != "line" and not case["twice"]:
                pass
            chord = float(np.linalg.norm(a - b))
            if w.edge.length < chord * (1 - 1e-6):
                ctx.violation("edge-shorter-than-chord", f"{w} length {w.edge.length} < chord {chord}")
                return


def _treat(case):
    return case["treat"][0]


def _posclass(pos):
    if pos in (3, 7):
        return "closing-edge"
    return "face-edge" if pos < 8 else "side-edge"
