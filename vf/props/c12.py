"""C12 — assemble / clear / backport / delete / write round-trips preserve the model (DESIGN 3/C12).

History monitor: a legality state machine emits a call history; the harness replays it on the real Mesh while
stepping a shadow description; at every `write` the file is compared, as parsed canonical content, with the file
written by a freshly built model of the shadow. Raw byte equality is required only for writing twice."""

import itertools

import numpy as np

from vf import foamdict, hexconv, lattice, util
from vf.props.c04 import axis_geo

ID = "C12"
BUDGET = {"quick": 1500, "thorough": 50000}
REQUIRED = ["call:assemble", "call:clear", "call:backport", "call:delete", "call:move", "call:modify_patch", "call:merge_patches",
            "call:set_default_patch", "call:write", "judged:write-vs-fresh", "judged:write-twice", "judged:backport-points",
            "judged:backport-after-delete", "judged:modify-then-clear", "mode:propagate", "mode:all-chopped",
            "judged:far-from-origin-model-moved-and-backported"]
MIN_KEYS = 100
RULE = (
    "histories of <= 10 calls over {add, delete, assemble, move vertices, backport, clear, modify_patch, set_default_patch, "
    "merge_patches, write} on 1-5 touching lofts (24 orientations, patches on random sides, count chops), emitted by a state "
    "machine that only produces calls whose meaning is defined in the current state (add / delete / merge only while not "
    "assembled; move / backport / clear only while assembled). non-trivial: >= 2 life-cycle calls besides add and the final "
    "write; distinct by call-name sequence"
)
ASSUMPTIONS = [
    "vertex moves address all vertices at a lattice node (so merged-slave duplicates move together)",
    "patches without faces are ignored and patch order is ignored when comparing with the freshly built model",
    "straight edges only (vertex moves do not invalidate edge data)",
]


def gen_case(ctx):
    rng = ctx.rng
    base = lattice.gen_assembly(rng, max_dims=(2, 2, 2), max_blocks=5, rotate=False)
    # chops are given per lattice direction (single count or two unequal sections) so that they are consistent;
    # mode "all": every operation carries them (deletions allowed); mode "propagate": one or more carriers per count
    # family, the other blocks copy from their neighbours (also from oppositely numbered ones) - no deletions then
    propagate = rng.random() < 0.5
    spec = []
    for d in range(3):
        if rng.random() < 0.5:
            spec.append([{"count": rng.randint(1, 4)}])
        else:
            lr = rng.choice([0.3, 0.25, 0.6])
            spec.append([{"count": rng.randint(1, 3), "length_ratio": lr, "c2c_expansion": rng.choice([1.0, 1.2])},
                         {"count": rng.randint(2, 4), "length_ratio": 1 - lr}])
    if propagate:
        fid, fam, _ = lattice.families(base)
        for r, members in fam.items():
            for b, a in rng.sample(members, rng.randint(1, len(members))):
                for kw in spec[a]:
                    base["blocks"][b]["chops"].append([a, dict(kw)])
    else:
        for blk in base["blocks"]:
            for d in range(3):
                for kw in spec[d]:
                    blk["chops"].append([d, dict(kw)])
    asm = lattice.realise(base, None, [rng.randrange(24) for _ in base["blocks"]])
    ops = []
    # geo-referenced model: coordinates of a few thousand units, vertex moves of a centimetre (far below 1e-5 of the coordinates)
    far = [rng.choice([-1, 1]) * rng.uniform(2000, 9000) for _ in range(3)] if rng.random() < 0.2 else None
    for blk in asm["blocks"]:
        patches = {s: rng.choice(["walls", "inlet", "outlet"]) for s in hexconv.SIDE_NAMES if rng.random() < 0.3}
        pts = blk["pts"] if far is None else [[x + o for x, o in zip(p, far)] for p in blk["pts"]]
        ops.append({"pts": pts, "nodes": blk["nodes"], "chops": blk["chops"], "patches": patches})
    # a possible merged pair
    pair = None
    for x, y in itertools.combinations(range(len(ops)), 2):
        common = set(ops[x]["nodes"]) & set(ops[y]["nodes"])
        # (not in propagate mode: a merged pair duplicates the slave side's vertices, which cuts the count families there)
        if len(common) == 4 and rng.random() < 0.5 and not propagate:
            sx = [s for s, c in hexconv.SIDES.items() if {ops[x]["nodes"][k] for k in c} == common][0]
            sy = [s for s, c in hexconv.SIDES.items() if {ops[y]["nodes"][k] for k in c} == common][0]
            ops[x]["patches"][sx], ops[y]["patches"][sy] = "mM", "mS"
            pair = ["mM", "mS", x, y]
            break
    n = len(ops)
    names = sorted({p for o in ops for p in o["patches"].values()})
    nodes = sorted({nd for o in ops for nd in o["nodes"]})
    hist = []
    added, deleted, assembled, merged = [], set(), False, False
    backported_moves = moved_since_assembly = late_add = False
    first = list(range(n)) if propagate else rng.sample(range(n), rng.randint(1, n))
    rng.shuffle(first)
    for i in first:
        hist.append(["add", i])
        added.append(i)
    steps = rng.randint(2, 9)
    for _ in range(steps):
        live = [i for i in added if i not in deleted]
        choices = ["modify_patch", "set_default_patch", "write"]
        if not assembled:
            # (no add after a back-port of moved vertices: an operation added later still has the original corner
            # positions, so lattice-node identity - which the shadow's vertex moves rely on - would no longer hold)
            if len(added) < n and not backported_moves:
                choices += ["add"]
            if len(live) > 1 and not propagate:
                choices += ["delete", "delete"]
            if not propagate and len(added) < n and len(live) >= 1:
                choices += ["delete-before-add"]
            if pair and not merged and pair[2] in added and pair[3] in added:
                choices += ["merge_patches", "merge_patches"]
            choices += ["assemble", "assemble"]
        else:
            choices += ["backport", "backport", "clear", "clear"] + ([] if late_add else ["move", "move"])
            # an operation added to an assembled mesh joins it with the next (re-)assembly; (only while no vertex has been
            # moved: an operation added later holds the original corner positions, see above)
            if len(added) < n and not backported_moves and not moved_since_assembly and not propagate:
                choices += ["add"]
        c = rng.choice(choices)
        if c == "add":
            i = rng.choice([i for i in range(n) if i not in added])
            added.append(i)
            hist.append(["add", i])
            late_add = late_add or assembled  # (no vertex moves from here on: the late operation keeps its own corner positions)
        elif c == "delete":
            i = rng.choice(live)
            deleted.add(i)
            hist.append(["delete", i])
        elif c == "delete-before-add":
            # assembly is lazy: an operation may be excluded before it (or the entity that owns it) is added
            i = rng.choice([i for i in range(n) if i not in added])
            deleted.add(i)
            added.append(i)
            hist.append(["delete", i])
            hist.append(["add", i])
        elif c == "merge_patches":
            merged = True
            hist.append(["merge_patches", pair[0], pair[1]])
        elif c == "assemble":
            assembled = True
            hist.append(["assemble"])
        elif c == "move":
            live_nodes = sorted({nd for i in live for nd in ops[i]["nodes"]})
            ks = rng.sample(live_nodes, min(len(live_nodes), rng.randint(1, 3)))
            amp = 0.08 if far is None else 0.015
            hist.append(["move", [[k, [rng.uniform(-amp, amp) for _ in range(3)]] for k in ks]])
            moved_since_assembly = True
        elif c == "backport":
            hist.append(["backport"])
            backported_moves = backported_moves or moved_since_assembly
            moved_since_assembly = False
        elif c == "clear":
            assembled = False
            moved_since_assembly = False
            hist.append(["clear"])
        elif c == "modify_patch":
            if names:
                hist.append(["modify_patch", rng.choice(names), rng.choice(["wall", "cyclic", "empty"]),
                             rng.choice([None, ["inGroups (a b)"], ["neighbourPatch x"], []])])  # []: takes earlier settings back
        elif c == "set_default_patch":
            hist.append(["set_default_patch", rng.choice(["def", "rest"]), rng.choice(["wall", "patch"])])
        elif c == "write":
            assembled = True
            hist.append(["write", rng.random() < 0.4])
    hist.append(["write", rng.random() < 0.5])
    del nodes
    return {"ops": ops, "history": hist, "propagate": propagate, "far": far is not None}


def make_op(cb, o, pts):
    p = np.array(pts, dtype=float)
    op = cb.Loft(cb.Face(p[:4]), cb.Face(p[4:]))
    for a, kw in o["chops"]:
        op.chop(a, **kw)
    for s, nm in o["patches"].items():
        op.set_patch(s, nm)
    return op


def canonical(parsed):
    verts = [tuple(round(x, 8) + 0.0 for x in v["pos"]) for v in parsed["vertices"]]
    blocks = [(tuple(b["idx"]), b["zone"], tuple(b["counts"]), b["kind"], tuple(tuple(map(tuple, g)) for g in b["grading"])) for b in parsed["blocks"]]
    boundary = {p["name"]: (p["type"], tuple(p["settings"]), frozenset(frozenset(q) for q in p["faces"])) for p in parsed["boundary"] if p["faces"]}
    return {"vertices": verts, "blocks": blocks, "edges": [(e["kind"], e["a"], e["b"]) for e in parsed["edges"]], "boundary": boundary,
            "default": parsed["default_patch"], "merge": parsed["merge_pairs"], "faces": [(tuple(f["quad"]), f["label"]) for f in parsed["faces"]],
            "settings": parsed["settings"]}


def run_case(ctx, case):
    import classy_blocks as cb

    ops = case["ops"]
    n = len(ops)
    # shadow
    node_pos = {}
    for o in ops:
        for nd, p in zip(o["nodes"], o["pts"]):
            node_pos[nd] = np.array(p, dtype=float)
    op_pts = [[np.array(p, dtype=float) for p in o["pts"]] for o in ops]  # what each operation object holds
    added, deleted = [], set()
    merges, default, mods = [], None, {}
    assembled = False
    pending = {}  # node -> moved position (vertices moved, not yet back-ported)
    snapshot_live = None
    mesh = cb.Mesh()
    objs = [make_op(cb, o, o["pts"]) for o in ops]
    names = []
    lifecycle = 0
    flags = set()

    def live():
        return [i for i in added if i not in deleted]

    def fresh_text():
        m = cb.Mesh()
        src = snapshot_live if assembled else live()
        for i in src:
            pts = [pending.get(ops[i]["nodes"][c], op_pts[i][c]) for c in range(8)]
            m.add(make_op(cb, ops[i], pts))
        for a, b in merges_at_assembly if assembled else merges:
            m.merge_patches(a, b)
        if default:
            m.set_default_patch(*default)
        for nm, (kind, st) in mods.items():
            m.modify_patch(nm, kind, st)
        # merges declared after the last assembly appear in mergePatchPairs only
        for a, b in merges[len(merges_at_assembly):] if assembled else []:
            m.patch_list.merged.append([a, b])
        p = util.tmpfile("c12f")
        got, err = util.write_outcome(m, p)
        if got != "success":
            raise RuntimeError(f"fresh model failed: {got} {err}")
        t = util.read_text(p)
        util.rm(p)
        return t

    merges_at_assembly = []

    def do_assemble_shadow():
        nonlocal assembled, snapshot_live, merges_at_assembly
        assembled = True
        snapshot_live = live()
        merges_at_assembly = list(merges)

    for step, call in enumerate(case["history"]):
        name = call[0]
        names.append(name)
        ctx.count(f"call:{name}")
        if name not in ("add", "write"):
            lifecycle += 1
        try:
            if name == "add":
                mesh.add(objs[call[1]])
                added.append(call[1])
            elif name == "delete":
                mesh.delete(objs[call[1]])
                deleted.add(call[1])
                flags.add("deleted")
            elif name == "merge_patches":
                mesh.merge_patches(call[1], call[2])
                merges.append((call[1], call[2]))
            elif name == "assemble":
                mesh.assemble()
                do_assemble_shadow()
                if "cleared-after-modify" in flags:
                    ctx.count("judged:modify-then-clear")
            elif name == "move":
                for nd, delta in call[1]:
                    base = pending.get(nd, node_pos[nd])
                    newp = base + np.array(delta)
                    hit = 0
                    for v in mesh.vertices:
                        if np.linalg.norm(v.position - base) < 1e-7:
                            v.move_to(newp)
                            hit += 1
                    if hit:
                        pending[nd] = newp
            elif name == "backport":
                mesh.backport()
                for nd, p in pending.items():
                    node_pos[nd] = p
                    for i in snapshot_live:
                        for c in range(8):
                            if ops[i]["nodes"][c] == nd:
                                op_pts[i][c] = p
                pending = {}
                do_assemble_shadow()
                ctx.count("judged:backport-points")
                if deleted:
                    ctx.count("judged:backport-after-delete")
                for i in range(n):
                    got = objs[i].point_array
                    want = np.array(op_pts[i])
                    if not (np.max(np.abs(got - want)) <= 1e-12):
                        kind = "deleted-operation-modified" if i in deleted else ("live-operation-not-updated" if i in added else "foreign-operation-modified")
                        ctx.violation(f"backport:{kind}" + (":after-delete" if deleted else ""),
                                      f"history {case['history'][:step+1]}: operation {i} holds {got.tolist()}, expected {want.tolist()}")
                        return
            elif name == "clear":
                mesh.clear()
                assembled = False
                pending = {}
                if mods:
                    flags.add("cleared-after-modify")
            elif name == "modify_patch":
                mesh.modify_patch(call[1], call[2], call[3])
                old = mods.get(call[1], ("patch", []))
                mods[call[1]] = (call[2], call[3] if call[3] is not None else old[1])
            elif name == "set_default_patch":
                mesh.set_default_patch(call[1], call[2])
                default = (call[1], call[2])
            elif name == "write":
                if not assembled:
                    do_assemble_shadow()
                path = util.tmpfile("c12")
                got, err = util.write_outcome(mesh, path)
                ctx.evaluated()
                if got != "success":
                    util.rm(path)
                    second = names.count("write") > 1
                    ctx.violation(f"write-failed:{got}" + (":not-the-first-write" if second else ""), f"history {case['history'][:step+1]}: {err!r}")
                    return
                text = util.read_text(path)
                util.rm(path)
                if call[1]:
                    path2 = util.tmpfile("c12")
                    got2, err2 = util.write_outcome(mesh, path2)
                    ctx.count("judged:write-twice")
                    if got2 != "success":
                        util.rm(path2)
                        ctx.violation(f"second-write-failed:{got2}", f"history {case['history'][:step+1]}: {err2!r}")
                        return
                    text2 = util.read_text(path2)
                    util.rm(path2)
                    if text2 != text:
                        ctx.violation("second-write-differs", f"history {case['history'][:step+1]}: " + _first_diff(text, text2))
                        return
                want = canonical(foamdict.parse_blockmesh(fresh_text()))
                have = canonical(foamdict.parse_blockmesh(text))
                ctx.count("judged:write-vs-fresh")
                for key in want:
                    if want[key] != have[key]:
                        feat = "+".join(sorted(flags | ({"moved"} if pending else set()))) or "plain"
                        ctx.violation(f"written-file-differs-from-fresh-model:{key}:{feat}",
                                      f"history {case['history'][:step+1]}: section {key}: written {_short(have[key])} / fresh model {_short(want[key])}")
                        return
        except Exception as exc:  # noqa: BLE001
            if isinstance(exc, RuntimeError) and "fresh model failed" in str(exc):
                raise
            ctx.violation(f"call-raised:{name}:{type(exc).__name__}", f"history {case['history'][:step+1]}: {exc!r}")
            return
    ctx.count("mode:propagate" if case.get("propagate") else "mode:all-chopped")
    if case.get("far") and "backport" in names and "move" in names:
        ctx.count("judged:far-from-origin-model-moved-and-backported")
    ctx.key([names, bool(case.get("propagate"))], nontrivial=lifecycle >= 2)
    ctx.sample({"n_ops": n, "history": case["history"]})


def _short(x):
    s = str(x)
    return s if len(s) < 300 else s[:300] + "..."


def _first_diff(a, b):
    for x, y in zip(a.splitlines(), b.splitlines()):
        if x != y:
            return f"first differing line: {x.strip()!r} vs {y.strip()!r}"
    return "length differs"
