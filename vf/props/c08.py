"""C08 — alternative arc specifications equal the analytic circle (DESIGN 3/C08).

Reference-model monitor: every case is drawn from a KNOWN circle (centre c, non-unit normal n, radius R, start
direction u, signed sector angle theta); the end points are produced with vf.geom (Rodrigues), the real
edge classes (EdgeFactory -> AngleEdge / OriginEdge / ArcEdge / ...) are run on them and what they report
(third_point, length, is_valid, description, and - on the 'mesh' route - the written blockMeshDict parsed by
vf.foamdict plus the block's own wire) is compared with the circle the case was drawn from. Nothing from
classy_blocks.util.functions is used by the oracle.

Clauses
  (a) third point: on the circle, at mid-angle, on the intended side       [angle, origin]; == given point [arc]
  (b) reported length == R * |included angle|                               [angle, origin, arc]
  (c) three-point length == arc through (p1, third point, p2) on the third point's side (vf.geom.arc_through)
                                                                            [origin with flatness/off-centre; any arc
                                                                             whose clause (a) failed]
  (w) what is written ('arc a b (p)') is the third point, and is written at all
  (d) length >= |p1 p2|                                                     [every edge kind]
"""

import math
import warnings

import numpy as np

from vf import foamdict, geom, util

ID = "C08"
BUDGET = {"quick": 32000, "thorough": 2000000}
MIN_KEYS = 200
KINDS = ("angle", "origin", "arc")
REQUIRED = (
    [f"judged:third-point:{k}" for k in KINDS]
    + [f"judged:length:{k}" for k in KINDS]
    + [f"class:{k}:{m}" for k in KINDS for m in ("minor", "major")]
    + [f"class:{k}:near-pi" for k in KINDS]
    + ["class:arc:major:point-past-pi-from-start", "class:arc:major:point-within-pi-of-start"]
    + ["judged:written-arc:description", "judged:written-arc:file", "judged:wire-length",
       "judged:three-point-consistency:origin-flat", "origin-flat:centre-adjusted",
       "judged:chord:angle", "judged:chord:origin", "judged:chord:arc", "judged:chord:origin-flat",
       "judged:chord:spline", "judged:chord:polyLine", "judged:chord:line", "judged:chord:project",
       "judged:chord:arc-collinear", "arc-collinear:dropped",
       "judged:chord:curve:circle", "judged:chord:curve:line", "judged:chord:curve:linear", "judged:chord:curve:spline",
       "judged:chord:curve:helix", "judged:chord:curve:discrete", "class:curve:reversed-parameters"]
)
REQUIRED = list(REQUIRED) + ["judged:after-moving-both-vertices", "judged:after-transforming-the-edge-item"]
RULE = (
    "circle: centre 0 or U(-10,10)^3, normal axis-aligned or random with |n| in [0.2,5], R = 10^U(-1,2), start direction "
    "random in the plane; sector theta = +-(0.02, 2pi-0.02) (60% uniform, 25% pi +- 10^U(-4,-0.5), 15% next to the two ends), "
    "end points by Rodrigues rotation. Angle(theta, n); Origin(centre) [intended = the arc shorter than pi]; Arc(point at "
    "0.1..0.9 of the sector, so exterior arcs for |theta| > pi]; 15% of those through Loft + Mesh.write (edge on side 0/1/2 "
    "of the bottom face). Chord bound additionally on Origin with flatness 0.5..3 and/or off-centre origin, Spline / "
    "PolyLine (2..7 points: on arc, wiggling, overshooting, on the chord), Line, Project, Arc(point on the chord), OnCurve(CircleCurve | LineCurve | Linear- | "
    "SplineInterpolatedCurve | AnalyticCurve helix | DiscreteCurve) with both parameter orders. fixed part: 3 kinds x "
    "2 signs x 8 octants x (6 axis-aligned + 2 generic normals). non-trivial: every curved edge; distinct by (kind, sign "
    "theta, octant of |theta|, orientation class of n [axis-aligned +-xyz | dominant component +-xyz]) resp. (kind, style)"
)
ASSUMPTIONS = [
    "Angle(theta, axis): end points lie in one plane perpendicular to the axis (no helical offset); theta in radians; "
    "the arc runs from vertex 1 to vertex 2 counter-clockwise about the axis for theta > 0 (OpenFOAM-dev arcEdge)",
    "Origin(centre), flatness 1, centre equidistant to 1e-13 R: intended arc = the one shorter than pi (OpenFOAM.com arcEdge)",
    "|theta - pi| >= 1e-4 (at pi the origin specification is ambiguous and the construction is singular); "
    "0.02 <= |theta| <= 2pi - 0.02; 0.1 <= R <= 100; Arc point between 10% and 90% of the sector",
    "third point: abs 1e-7*R (library TOL = 1e-7 at unit scale; measured noise < 2e-10 R, next to pi); length: rel 1e-7 (measured noise "
    "< 2e-12); written point vs third_point: 1e-8 per component (8 printed decimals); three-point consistency: rel 1e-6",
    "an arc whose third point is more than 1e-6 (10 TOL) off the chord is a real arc: dropping it (is_valid False, no "
    "'arc' entry) violates 'is written as the three-point arc'; the smallest such height in the domain is 1.8e-6 "
    "(Arc point at 10% of a 0.02 rad sector of R = 0.1), the smallest sagitta 5e-6",
    "Arc(point exactly on the chord) is the library's 'collinear, silently dropped' case: only the chord bound is judged",
    "chord bound: length >= chord*(1 - 1e-9); for OnCurve edges >= chord*(1 - 1e-3) because vertex parameters come from "
    "the library's numerical closest-point search (its accuracy is C16's subject), vertices lie on the curve >= 0.1 of "
    "its extent apart and away from the seam of the closed circle",
    "OnCurve vertices on interpolated curves are produced by the library's own curve evaluation (workload, not oracle)",
]

TWO_PI = 2 * math.pi
NEAR_PI = 0.05


# ------------------------------------------------------------------------------------------------ generation
def _vec(v):
    return [float(x) for x in v]


def _circle(rng):
    R = 10 ** rng.uniform(-1, 2)
    c = [0.0, 0.0, 0.0] if rng.random() < 0.15 else [rng.uniform(-10, 10) for _ in range(3)]
    if rng.random() < 0.08:
        # a small feature of a geo-referenced model: radius of decimetres, coordinates of kilometres
        R = 10 ** rng.uniform(-1.0, -0.5)  # (not below the 0.1 of the ordinary class: arc_length_3point has an absolute 1e-18 guard)
        c = [rng.choice([-1, 1]) * rng.uniform(5000, 9000) for _ in range(3)]
    if rng.random() < 0.2:
        n = [0.0, 0.0, 0.0]
        n[rng.randrange(3)] = rng.choice([-1, 1]) * rng.choice([1.0, 1.0, 0.25, 3.0])
    else:
        n = _vec(geom.rand_unit(rng) * 10 ** rng.uniform(-0.7, 0.7))
    while True:
        u = np.cross(n, geom.rand_unit(rng))
        if np.linalg.norm(u) > 0.3 * np.linalg.norm(n):
            break
    return R, c, n, _vec(geom.unit(u))


def _theta(rng, lo=0.02, excl=1e-4):
    while True:
        v = rng.random()
        if v < 0.6:
            a = rng.uniform(lo, TWO_PI - lo)
        elif v < 0.85:
            a = math.pi + rng.choice([-1, 1]) * 10 ** rng.uniform(-4, -0.5)
        elif v < 0.93:
            a = lo + 10 ** rng.uniform(-4, -0.7)
        else:
            a = TWO_PI - lo - 10 ** rng.uniform(-4, -0.7)
        if abs(a - math.pi) >= excl and lo <= a <= TWO_PI - lo:
            return a * rng.choice([-1, 1])


def _base(kind, R, c, n, u, theta):
    if max(abs(x) for x in c) > 1000 and abs(abs(theta) - math.pi) < 0.05:
        # far from the origin the end points carry a rounding error of ~1e-12; next to a half circle that error, divided by
        # the tiny deviation from pi, decides the arc's plane - ill-conditioned input, kept out of the far class
        theta = math.copysign(2.0 + 0.9 * (abs(theta) - math.pi) / 0.05, theta)
    p1 = geom.arr(c) + R * geom.arr(u)
    p2 = geom.rotate(p1, n, theta, c)
    return {"kind": kind, "route": "direct", "R": R, "c": _vec(c), "n": _vec(n), "u": _vec(u), "theta": theta,
            "p1": _vec(p1), "p2": _vec(p2)}


def fixed_cases(tier):
    """enumerated: kind x sign x octant of |theta| x (6 axis-aligned normals + 2 generic), unit circle about 0"""
    normals = [[1, 0, 0], [-1, 0, 0], [0, 1, 0], [0, -1, 0], [0, 0, 1], [0, 0, -1], [1, 2, 3], [-2, 0.5, -1]]
    out = []
    for kind in KINDS:
        for sign in (1, -1):
            for octant in range(8):
                for i, n in enumerate(normals):
                    theta = sign * (octant + 0.5 + 0.03 * i) * math.pi / 4
                    u = geom.unit(np.cross(n, [0.3, -0.5, 0.8] if i != 6 else [1, 0, 0]))
                    case = _base(kind, 1.0, [0.0, 0.0, 0.0], [float(x) for x in n], _vec(u), theta)
                    if kind == "arc":
                        case["t"] = 0.25 + 0.07 * octant
                        case["point"] = _vec(geom.rotate(case["p1"], n, theta * case["t"], case["c"]))
                    out.append(case)
    return out


def gen_case(ctx):
    rng = ctx.rng
    R, c, n, u = _circle(rng)
    v = rng.random()
    if v < 0.30:
        kind = "angle"
    elif v < 0.52:
        kind = "origin"
    elif v < 0.78:
        kind = "arc"
    elif v < 0.86:
        kind = "origin-flat"
    elif v < 0.91:
        kind = "spline"
    elif v < 0.955:
        kind = "polyLine"
    elif v < 0.968:
        kind = "line"
    elif v < 0.979:
        kind = "project"
    elif v < 0.988:
        kind = "arc-collinear"
    else:
        kind = "curve"

    if kind in KINDS:
        case = _base(kind, R, c, n, u, _theta(rng))
        if kind == "arc":
            case["t"] = rng.choice([0.5, rng.uniform(0.1, 0.9), rng.uniform(0.1, 0.9)])
            case["point"] = _vec(geom.rotate(case["p1"], n, case["theta"] * case["t"], c))
        if rng.random() < 0.15:
            case["route"] = "mesh"
            case["corner"] = rng.randrange(3)
        return case

    if kind == "origin-flat":
        while True:
            theta = rng.uniform(0.1, TWO_PI - 0.1) * rng.choice([-1, 1])
            if abs(abs(theta) - math.pi) > NEAR_PI:
                break
        case = _base(kind, R, c, n, u, theta)
        mode = rng.choice(["flat", "off-centre", "both"])
        case["flatness"] = 1 if mode == "off-centre" else rng.choice([rng.uniform(0.5, 0.98), rng.uniform(1.02, 3.0)])
        origin = geom.arr(c)
        if mode != "flat":
            p1, p2 = geom.arr(case["p1"]), geom.arr(case["p2"])
            while True:
                origin = geom.arr(c) + geom.arr(geom.rand_vec(rng)) * 0.4 * R * rng.choice([1.0, 0.1, 1e-3])
                # keep the origin well off the chord line (there the specification is meaningless)
                d = np.linalg.norm(np.cross(origin - p1, p2 - p1)) / np.linalg.norm(p2 - p1)
                if d > 0.1 * R:
                    break
        case["mode"] = mode
        case["origin"] = _vec(origin)
        return case

    if kind in ("spline", "polyLine"):
        theta = rng.uniform(0.05, TWO_PI - 0.05) * rng.choice([-1, 1])
        case = _base(kind, R, c, n, u, theta)
        m = rng.randint(2, 7)  # the library's point arrays need >= 2 points
        style = rng.choice(["on-arc", "wiggle", "overshoot", "straight"])
        p1, p2 = geom.arr(case["p1"]), geom.arr(case["p2"])
        chord = float(np.linalg.norm(p2 - p1))
        pts = []
        for i in range(m):
            s = (i + 1) / (m + 1)
            if style == "on-arc":
                pts.append(geom.rotate(p1, n, theta * s, c))
            elif style == "straight":  # on the chord itself: the bound is attained
                pts.append(p1 + (p2 - p1) * s)
            elif style == "wiggle":
                pts.append(p1 + (p2 - p1) * s + geom.arr(geom.rand_vec(rng)) * chord * 0.3)
            else:
                pts.append(p1 + (p2 - p1) * rng.uniform(-0.5, 1.5) + geom.arr(geom.rand_vec(rng)) * chord * 0.1)
        case["style"] = style
        case["points"] = [_vec(p) for p in pts]
        return case

    if kind == "arc-collinear":
        case = _base(kind, R, c, n, u, rng.uniform(0.05, TWO_PI - 0.05) * rng.choice([-1, 1]))
        p1, p2 = geom.arr(case["p1"]), geom.arr(case["p2"])
        case["s"] = rng.choice([0.5, rng.uniform(0.1, 0.9)])
        case["point"] = _vec(p1 + (p2 - p1) * case["s"])
        return case

    if kind in ("line", "project"):
        return _base(kind, R, c, n, u, rng.uniform(0.05, TWO_PI - 0.05) * rng.choice([-1, 1]))

    # OnCurve
    sub = rng.choice(["circle", "line", "line", "linear", "linear", "spline", "spline", "helix", "discrete", "discrete"])
    case = _base("curve", R, c, n, u, 1.0)
    case["curve"] = sub
    case["n_points"] = rng.choice([10, 3, 25])

    def two(lo, hi, gap):
        while True:
            a, b = rng.uniform(lo, hi), rng.uniform(lo, hi)
            if abs(a - b) >= gap:
                return a, b

    if sub == "circle":
        case["ta"], case["tb"] = two(0.35, TWO_PI - 0.35, 0.6)
    elif sub == "line":
        case["q"] = _vec(geom.arr(c) + geom.arr(geom.rand_vec(rng)) * R + geom.arr(u) * 0.2 * R)
        case["ta"], case["tb"] = two(0.0, 1.0, 0.1)
    elif sub in ("linear", "spline", "discrete"):
        m = rng.randint(4, 9)
        nh = geom.unit(n)
        pitch = rng.uniform(-0.3, 0.3)
        pts = [geom.rotate(case["p1"], n, 0.4 * i + rng.uniform(-0.1, 0.1), c) + nh * R * pitch * i for i in range(m)]
        case["points"] = [_vec(p) for p in pts]
        if sub == "discrete":
            ia, ib = rng.sample(range(m), 2)
            case["ta"], case["tb"] = ia, ib
        else:
            case["ta"], case["tb"] = two(0.02, 0.98, 0.1)
    else:  # helix
        case["pitch"] = rng.uniform(-0.5, 0.5)
        case["ta"], case["tb"] = two(0.1, 4.9, 0.5)
    return case


# ------------------------------------------------------------------------------------------------ helpers
def orientation_class(n):
    n = geom.arr(n)
    k = int(np.argmax(np.abs(n)))
    sign = "+" if n[k] > 0 else "-"
    aligned = all(n[j] == 0 for j in range(3) if j != k)
    return ("axis" if aligned else "dom") + sign + "xyz"[k]


def _arc_class(theta):
    return "major" if abs(theta) > math.pi else "minor"


def _finite(a):
    return bool(np.all(np.isfinite(np.asarray(a, dtype=float))))


def _parse_description(text):
    """-> list of (a, b, point) for the 'arc a b (x y z)' entries of an edge description (comment lines dropped)"""
    toks = foamdict.tokenize(text)
    out = []
    i = 0
    while i < len(toks):
        if toks[i] == "arc" and i + 7 < len(toks) and toks[i + 3] == "(" and toks[i + 7] == ")":
            out.append((int(toks[i + 1]), int(toks[i + 2]), [float(t) for t in toks[i + 4 : i + 7]]))
            i += 8
        else:
            i += 1
    return out


def _expected(case):
    """independent reference: included angle of the intended arc (signed, about n), its mid point, its length"""
    kind, theta = case["kind"], case["theta"]
    if kind == "origin" and abs(theta) > math.pi:
        ang = theta - math.copysign(TWO_PI, theta)  # the arc shorter than pi, i.e. the other way round
    else:
        ang = theta
    mid = geom.rotate(case["p1"], case["n"], ang / 2, case["c"])
    return ang, mid, case["R"] * abs(ang)


def _make_data(case):
    from classy_blocks.construct import edges as E

    kind = case["kind"]
    if kind == "angle":
        return E.Angle(case["theta"], list(case["n"]))
    if kind == "origin":
        return E.Origin(list(case["c"]))
    if kind in ("arc", "arc-collinear"):
        return E.Arc(list(case["point"]))
    if kind == "origin-flat":
        return E.Origin(list(case["origin"]), case["flatness"])
    if kind == "spline":
        return E.Spline([list(p) for p in case["points"]])
    if kind == "polyLine":
        return E.PolyLine([list(p) for p in case["points"]])
    if kind == "line":
        return E.Line()
    if kind == "project":
        return E.Project("terrain")
    raise ValueError(kind)


def _direct_edge(case, p1, p2, data):
    from classy_blocks.items.edges.factory import factory
    from classy_blocks.items.vertex import Vertex

    return factory.create(Vertex(list(p1), 0), Vertex(list(p2), 1), data)


def _mesh_edge(ctx, case, data):
    """the real pipeline: Face.add_edge -> Loft -> Mesh.write; -> (edge object on the block's wire, wire, parsed file)"""
    import classy_blocks as cb

    p1, p2 = geom.arr(case["p1"]), geom.arr(case["p2"])
    nh = geom.unit(case["n"])
    chord = float(np.linalg.norm(p2 - p1))
    w = geom.unit(np.cross(nh, p2 - p1)) * chord
    k = case["corner"]
    quad = [p1, p2, p2 + w, p1 + w]
    quad = quad[-k:] + quad[:-k] if k else quad  # quad[k] = p1, quad[k + 1] = p2
    bottom = cb.Face([list(p) for p in quad])
    bottom.add_edge(k, data)
    top = cb.Face([list(p + nh * chord) for p in quad])
    loft = cb.Loft(bottom, top)
    for axis in range(3):
        loft.chop(axis, count=2)
    mesh = cb.Mesh()
    mesh.add(loft)
    path = util.tmpfile("c08")
    try:
        mesh.write(path)
        parsed = foamdict.read_blockmesh(path)
    finally:
        util.rm(path)
    wire = mesh.blocks[0].wires[k][k + 1]
    return wire.edge, wire, parsed, (k, k + 1)


# ------------------------------------------------------------------------------------------------ judging
def _judge_chord(ctx, label, mech, length, p1, p2, rel=1e-9):
    chord = geom.dist(p1, p2)
    ctx.count(f"judged:chord:{label}")
    if not (_finite(length) and float(length) >= chord * (1 - rel)):
        ctx.violation(f"shorter-than-chord:{mech}", f"reported length {float(length)!r} < distance of the end points {chord!r}")
        return False
    return True


def _run_arc(ctx, case):
    kind, theta, R = case["kind"], case["theta"], case["R"]
    p1, p2, c, n = geom.arr(case["p1"]), geom.arr(case["p2"]), geom.arr(case["c"]), geom.arr(case["n"])
    cls = _arc_class(theta)
    tag = f"{kind}:{cls}"
    if kind == "arc" and cls == "major":
        # structural: is the given point more than half a turn away from the first end point?
        tag += ":point-past-pi-from-start" if abs(theta) * case["t"] > math.pi else ":point-within-pi-of-start"
    ang, mid, want_len = _expected(case)
    data = _make_data(case)
    parsed = wire = None
    if case["route"] == "mesh":
        edge, wire, parsed, idx = _mesh_edge(ctx, case, data)
    else:
        edge = _direct_edge(case, p1, p2, data)
        idx = (0, 1)
    tp = np.asarray(edge.third_point.position, dtype=float)
    length = float(edge.length)
    valid = bool(edge.is_valid)
    text = edge.description

    ctx.evaluated()
    ctx.count(f"class:{kind}:{cls}")
    if kind == "arc" and cls == "major":
        ctx.count(f"class:{tag}")
    ctx.count(f"route:{case['route']}")
    if abs(abs(theta) - math.pi) < NEAR_PI:
        ctx.count(f"class:{kind}:near-pi")
    octant = min(7, int(abs(theta) / (math.pi / 4)))
    ctx.key([kind, "+" if theta > 0 else "-", octant, orientation_class(n)])
    if len(ctx.samples) < 4:
        ctx.sample({"kind": kind, "route": case["route"], "R": R, "c": case["c"], "n": case["n"], "theta": theta,
                    "p1": case["p1"], "p2": case["p2"], "third_point": _vec(tp) if _finite(tp) else str(tp),
                    "expected_mid": _vec(mid), "length": length, "R*angle": want_len})

    where = (f"{kind} edge, R={R!r} theta={theta!r} centre={case['c']} normal={case['n']} p1={case['p1']} p2={case['p2']}"
             + (f" point={case['point']}" if kind == "arc" else ""))
    tol_p = 1e-7 * R

    # ---- (a) third point
    ctx.count(f"judged:third-point:{kind}")
    a_ok = True
    if not _finite(tp):
        a_ok = False
        ctx.violation(f"third-point-not-finite:{tag}", f"{where}: third_point = {tp}")
    elif kind == "arc":
        if not (geom.dist(tp, case["point"]) <= 1e-9 * R):
            a_ok = False
            ctx.violation(f"third-point-is-not-the-given-point:{tag}", f"{where}: third_point = {_vec(tp)}")
    else:
        err = geom.dist(tp, mid)
        if not (err <= tol_p):
            a_ok = False
            nh = geom.unit(n)
            radial = abs(geom.dist(tp, c) - R)
            plane = abs(float(np.dot(tp - c, nh)))
            anti = 2 * c - mid
            if not (radial <= tol_p and plane <= tol_p):
                clause = "third-point-off-circle"
            elif geom.dist(tp, anti) <= tol_p:
                clause = "third-point-on-complementary-arc"
            else:
                clause = "third-point-not-at-mid-angle"
            ctx.violation(
                f"{clause}:{tag}",
                f"{where}: third_point = {_vec(tp)}, expected centre + Rot(n, {ang / 2!r})(p1 - centre) = {_vec(mid)} "
                f"(off by {err:.3g}; distance from circle {radial:.3g}, from its plane {plane:.3g}; intended included "
                f"angle {abs(ang)!r})",
            )

    # ---- (w) written as a three-point arc
    want_tp = geom.arr(case["point"]) if kind == "arc" else mid
    sagitta = float(np.linalg.norm(np.cross(want_tp - p1, p2 - p1))) / geom.dist(p1, p2)  # height over the chord
    real_arc = sagitta > 1e-6
    dropped = False
    if not valid:
        if not a_ok:
            ctx.count("skipped:validity-of-an-arc-with-wrong-third-point")
        elif real_arc:
            dropped = True
            ctx.violation(
                f"arc-dropped-as-collinear:{kind}",
                f"{where}: is_valid = False although the arc's third point is {sagitta:.3g} off the chord (chord "
                f"{geom.dist(p1, p2):.6g}); no 'arc' entry is written and length {length!r} is the chord instead of "
                f"R*angle = {want_len!r}",
            )
        else:
            ctx.count("degenerate:flat-arc")
    if _finite(tp):
        entries = _parse_description(text)
        ctx.count("judged:written-arc:description")
        if len(entries) != 1 or (entries[0][0], entries[0][1]) != idx:
            ctx.violation(f"description-not-one-arc-entry:{kind}", f"{where}: description {text!r}")
        elif max(abs(entries[0][2][j] - tp[j]) for j in range(3)) > 1e-8:
            ctx.violation(f"description-differs-from-third-point:{kind}", f"{where}: {text!r} vs third_point {_vec(tp)}")
    if parsed is not None:
        arcs = [e for e in parsed["edges"] if e["kind"] == "arc"]
        others = [e for e in parsed["edges"] if e["kind"] != "arc"]
        ctx.count("judged:written-arc:file")
        if others or len(arcs) > 1:
            ctx.violation(f"file-has-unexpected-edges:{kind}", f"{where}: edges in file {parsed['edges']}")
        elif valid and not arcs:
            ctx.violation(f"arc-missing-in-file:{kind}", f"{where}: edge is valid but the file has no arc entry")
        elif arcs and not valid:
            ctx.violation(f"invalid-arc-written:{kind}", f"{where}: is_valid False but file has {arcs}")
        elif arcs:
            e = arcs[0]
            va, vb = geom.arr(parsed["vertices"][e["a"]]["pos"]), geom.arr(parsed["vertices"][e["b"]]["pos"])
            ends_fwd = max(geom.dist(va, p1), geom.dist(vb, p2))
            ends_rev = max(geom.dist(va, p2), geom.dist(vb, p1))
            if min(ends_fwd, ends_rev) > 2e-8:
                ctx.violation(f"file-arc-on-other-vertices:{kind}", f"{where}: file arc {e} between {_vec(va)} and {_vec(vb)}")
            elif _finite(tp) and max(abs(e["point"][j] - tp[j]) for j in range(3)) > 1e-8:
                ctx.violation(f"file-arc-differs-from-third-point:{kind}", f"{where}: file {e['point']} vs third_point {_vec(tp)}")
            elif a_ok and kind != "arc" and geom.dist(e["point"], mid) > tol_p + 2e-8:
                ctx.violation(f"file-arc-off-mid-point:{tag}", f"{where}: file {e['point']} vs expected {_vec(mid)}")
        # the length the grading machinery sees
        ctx.count("judged:wire-length")
        if not (_finite(wire.length) and abs(float(wire.length) - length) <= 1e-12 * max(1.0, abs(length))):
            ctx.violation(f"wire-length-differs-from-edge-length:{kind}", f"{where}: wire {wire.length!r} edge {length!r}")

    # ---- (b) / (c) length
    if not _finite(length):
        ctx.violation(f"length-not-finite:{tag}", f"{where}: length = {length!r}")
        return
    if a_ok and not dropped and valid:
        ctx.count(f"judged:length:{kind}")
        if not (abs(length - want_len) <= 1e-7 * want_len):
            comp = R * (TWO_PI - abs(ang))
            chord = geom.dist(p1, p2)
            if abs(length - comp) <= 1e-7 * comp:
                clause = "length-of-complementary-arc"
            elif abs(length - chord) <= 1e-9 * chord:
                clause = "length-is-chord"
            else:
                clause = "length-not-radius-times-angle"
            ctx.violation(f"{clause}:{tag}", f"{where}: length = {length!r}, R*|angle| = {want_len!r} (complementary arc "
                                            f"{comp!r}, chord {chord!r})")
    elif not a_ok and valid and _finite(tp):
        _judge_consistency(ctx, kind, kind, where, p1, tp, p2, length)
    _judge_chord(ctx, kind, kind, length, p1, p2)

    # ---- history: both end vertices are moved along the same circle (as a modification / optimisation would do) and
    # the edge is read again - nothing of the first reading may be remembered. (origin / angle edges keep describing the
    # same circle when both ends are rotated about its axis by the same angle.)
    if kind in ("origin", "angle") and a_ok and valid and int(R * 1e6) % 3 == 0:
        delta = 0.37 if int(R * 1e6) % 2 == 0 else -0.81
        q1, q2 = geom.rotate(p1, n, delta, c), geom.rotate(p2, n, delta, c)
        edge.vertex_1.move_to(list(q1))
        edge.vertex_2.move_to(list(q2))
        mid2 = geom.rotate(mid, n, delta, c)
        tp2 = np.asarray(edge.third_point.position, dtype=float)
        len2 = float(edge.length)
        ctx.count("judged:after-moving-both-vertices")
        if not _finite(tp2) or geom.dist(tp2, mid2) > 1e-7 * R:
            ctx.violation(f"third-point-not-updated-after-vertex-move:{kind}",
                          f"{where}: both ends rotated by {delta} about the circle's axis: third_point {tp2.tolist()}, expected {mid2.tolist()}")
            return
        if not (abs(len2 - want_len) <= 1e-7 * want_len):
            ctx.violation(f"length-not-updated-after-vertex-move:{kind}", f"{where}: length {len2!r} after the move, R*|angle| = {want_len!r}")
    elif kind in ("origin", "angle") and a_ok and valid and int(R * 1e6) % 3 == 1:
        _history_item_moved(ctx, kind, where, edge, R, c, p1, p2, mid, want_len)


def _history_item_moved(ctx, kind, where, edge, R, c, p1, p2, mid, want_len):
    """history: the assembled edge item itself is translated / rotated about a foreign axis / scaled through its own methods
    and read again: it has to describe the moved circle"""
    sel = int(R * 1e7) % 3
    d = np.array([0.7, -1.3, 0.4]) * R
    ax = geom.unit([0.3, -0.5, 0.8])
    org = np.asarray(c, dtype=float) + np.array([1.1, 0.2, -0.6]) * R
    if sel == 0:
        edge.translate(list(d))
        T, s, what = (lambda x: np.asarray(x, dtype=float) + d), 1.0, "translate"
    elif sel == 1:
        edge.rotate(0.9, list(ax), list(org))
        T, s, what = (lambda x: geom.rotate(x, ax, 0.9, org)), 1.0, "rotate"
    else:
        edge.scale(1.7, list(org))
        T, s, what = (lambda x: org + (np.asarray(x, dtype=float) - org) * 1.7), 1.7, "scale"
    ctx.count("judged:after-transforming-the-edge-item")
    ends = [np.asarray(edge.vertex_1.position, dtype=float), np.asarray(edge.vertex_2.position, dtype=float)]
    if not (geom.dist(ends[0], T(p1)) <= 1e-9 * R * s and geom.dist(ends[1], T(p2)) <= 1e-9 * R * s):
        ctx.violation(f"edge-item-{what}:end-points-did-not-follow:{kind}", f"{where}: {ends} vs {[T(p1).tolist(), T(p2).tolist()]}")
        return
    tp2 = np.asarray(edge.third_point.position, dtype=float)
    len2 = float(edge.length)
    if not _finite(tp2) or geom.dist(tp2, T(mid)) > 1e-7 * R * s:
        ctx.violation(f"edge-item-{what}:third-point-off-the-moved-circle:{kind}",
                      f"{where}: after edge.{what}(...) third_point {tp2.tolist()}, expected {T(mid).tolist()}")
        return
    if not (abs(len2 - want_len * s) <= 1e-7 * want_len * s):
        ctx.violation(f"edge-item-{what}:length:{kind}", f"{where}: after edge.{what}(...) length {len2!r}, R*|angle| = {want_len * s!r}")


def _judge_consistency(ctx, label, mech, where, p1, tp, p2, length):
    """clause (c): the reported length is that of the circle through the three points, on the third point's side"""
    try:
        ref = geom.arc_length_through(p1, tp, p2)
    except ValueError:
        return
    ctx.count(f"judged:three-point-consistency:{label}")
    if not (abs(length - ref) <= 1e-6 * ref):
        centre, r, _, angle = geom.arc_through(p1, tp, p2)
        clause = "three-point-length-of-other-side" if abs(length - r * (TWO_PI - angle)) <= 1e-6 * r * TWO_PI else \
            "three-point-length-wrong"
        ctx.violation(f"{clause}:{mech}", f"{where}: length = {length!r} but the arc p1 -> {_vec(tp)} -> p2 has radius {r!r}, "
                                          f"angle {angle!r}, length {ref!r}")


def _run_origin_flat(ctx, case):
    p1, p2 = geom.arr(case["p1"]), geom.arr(case["p2"])
    data = _make_data(case)
    edge = _direct_edge(case, p1, p2, data)
    mode = case["mode"]
    where = (f"Origin({case['origin']}, flatness={case['flatness']!r}) between p1={case['p1']} p2={case['p2']} "
             f"(circle centre {case['c']}, R={case['R']!r}, theta={case['theta']!r})")
    with warnings.catch_warnings(record=True) as rec:
        warnings.simplefilter("always")
        try:
            tp = np.asarray(edge.third_point.position, dtype=float)
            length = float(edge.length)
            valid = bool(edge.is_valid)
        except ValueError:
            # "Invalid edge specification": the library's own rejection of an unusable origin
            ctx.evaluated()
            ctx.count("origin-flat:rejected")
            ctx.key(["origin-flat", mode, "rejected"], nontrivial=False)
            return
    ctx.evaluated()
    if any("Adjusting center" in str(w.message) for w in rec):
        ctx.count("origin-flat:centre-adjusted")
    ctx.key(["origin-flat", mode, "flatter" if case["flatness"] > 1 else "rounder" if case["flatness"] < 1 else "1",
             _arc_class(case["theta"]), orientation_class(case["n"])])
    if not (_finite(tp) and _finite(length)):
        ctx.violation("third-point-or-length-not-finite:origin-flat", f"{where}: third_point {tp}, length {length!r}")
        return
    if valid:
        _judge_consistency(ctx, "origin-flat", "origin-flat", where, p1, tp, p2, length)
    _judge_chord(ctx, "origin-flat", "origin-flat", length, p1, p2)


def _run_simple(ctx, case):
    kind = case["kind"]
    p1, p2 = geom.arr(case["p1"]), geom.arr(case["p2"])
    edge = _direct_edge(case, p1, p2, _make_data(case))
    length = edge.length
    ctx.evaluated()
    if kind in ("spline", "polyLine"):
        ctx.key([kind, case["style"], len(case["points"]), orientation_class(case["n"])])
        mech = f"{kind}:{case['style']}"
    elif kind == "arc-collinear":
        ctx.key([kind, "valid" if edge.is_valid else "dropped"], nontrivial=False)
        ctx.count("arc-collinear:" + ("kept" if edge.is_valid else "dropped"))
        mech = kind
    else:
        ctx.key([kind], nontrivial=False)
        mech = kind
    _judge_chord(ctx, kind, mech, length, p1, p2)


def _run_curve(ctx, case):
    from classy_blocks.construct import edges as E
    from classy_blocks.construct.curves.analytic import AnalyticCurve, CircleCurve, LineCurve
    from classy_blocks.construct.curves.discrete import DiscreteCurve
    from classy_blocks.construct.curves.interpolated import LinearInterpolatedCurve, SplineInterpolatedCurve

    sub, R = case["curve"], case["R"]
    c, n, rim = geom.arr(case["c"]), geom.arr(case["n"]), geom.arr(case["p1"])
    ta, tb = case["ta"], case["tb"]
    if sub == "circle":
        curve = CircleCurve(list(c), list(rim), list(n))
        pa, pb = geom.rotate(rim, n, ta, c), geom.rotate(rim, n, tb, c)
    elif sub == "line":
        q = geom.arr(case["q"])
        curve = LineCurve(list(rim), list(q))
        pa, pb = rim + (q - rim) * ta, rim + (q - rim) * tb
    elif sub == "helix":
        nh = geom.unit(n)
        pitch = case["pitch"]

        def helix(t):
            return geom.rotate(rim, n, t, c) + nh * R * pitch * t

        curve = AnalyticCurve(helix, (0, 5))
        pa, pb = helix(ta), helix(tb)
    elif sub == "discrete":
        curve = DiscreteCurve([list(p) for p in case["points"]])
        pa, pb = geom.arr(case["points"][ta]), geom.arr(case["points"][tb])
    else:
        cls = LinearInterpolatedCurve if sub == "linear" else SplineInterpolatedCurve
        curve = cls([list(p) for p in case["points"]])
        # workload only: the vertices are put ON the curve with the library's own evaluation
        pa, pb = np.array(curve.get_point(ta), dtype=float), np.array(curve.get_point(tb), dtype=float)
    edge = _direct_edge(case, pa, pb, E.OnCurve(curve, n_points=case["n_points"]))
    length = edge.length
    ctx.evaluated()
    if ta > tb:
        ctx.count("class:curve:reversed-parameters")
    ctx.key(["curve", sub, "reversed" if ta > tb else "forward", orientation_class(n)])
    _judge_chord(ctx, f"curve:{sub}", f"curve:{sub}:{'reversed' if ta > tb else 'forward'}", length, pa, pb,
                 rel=1e-9 if sub == "discrete" else 1e-3)


def run_case(ctx, case):
    kind = case["kind"]
    if kind in KINDS:
        _run_arc(ctx, case)
    elif kind == "origin-flat":
        _run_origin_flat(ctx, case)
    elif kind == "curve":
        _run_curve(ctx, case)
    else:
        _run_simple(ctx, case)
