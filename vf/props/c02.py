"""C02 — grading propagation terminates, completes, is order-independent (DESIGN 3/C02).

One physical model is executed under a schedule bundle: insertion orders x corner renumberings x injected
iteration orders of every genuinely unordered neighbour / coincident set, plus fresh interpreters with
shifted heap addresses. Termination is decided on a logical step budget on Block.copy_grading."""

import json
import os
import subprocess
import sys

from vf import core, foamdict, hexconv, lattice, sched, util
from vf.props import c01

ID = "C02"
BUDGET = {"quick": 320, "thorough": 7000}
SOFT = {"quick": 50.0, "thorough": 900.0}
REQUIRED = ["outcome:success", "outcome:UndefinedGradingsError", "executions", "fresh-interpreter-runs",
            "models-with-2+-hops", "bundle:order-or-numbering-variants", "models-with-a-multigraded-direction", "history:write-stretch-write"]
MIN_KEYS = 30
RULE = (
    "one physical lattice model (<=18 blocks, non-conflicting chops: well-posed, under-specified, or equal counts "
    "with different expansions) executed under a bundle of insertion orders x 24-rotation renumberings x injected "
    "iteration orders of Axis.neighbours / Wire.coincidents (only when they are plain sets) x fresh interpreters with "
    "heap padding. non-trivial: some block direction receives its count through >=2 hops or has all four wires "
    "shared; distinct by (contact summary, family sizes, chop pattern, max hops, predicted outcome)"
)
ASSUMPTIONS = [
    "admissible schedules = iteration orders of containers whose type is exactly `set`; ordered containers are not permuted",
    "step budget (4B+2)B+10 calls of Block.copy_grading for B blocks bounds every terminating propagation",
]


def gen_case(ctx):
    rng = ctx.rng
    base = lattice.gen_assembly(rng, rotate=False, long_rows=0.3)
    mode = rng.choices(["well", "missing"], [0.75, 0.25])[0]
    c01.place_chops(rng, base, mode)
    # families holding two chops of equal count but different expansion
    if rng.random() < 0.3:
        fid, fam, _ = lattice.families(base)
        for r, members in fam.items():
            if len({m[0] for m in members}) >= 3 and rng.random() < 0.5:
                chopped = [(b, a) for b, a in members if any(ax == a for ax, _ in base["blocks"][b]["chops"])]
                if len(chopped) == 1:
                    b0, a0 = chopped[0]
                    kw0 = [kw for ax, kw in base["blocks"][b0]["chops"] if ax == a0][0]
                    if set(kw0) == {"count"} and kw0["count"] >= 2:
                        others = [m for m in members if m[0] != b0]
                        b1, a1 = rng.choice(others)
                        kw0["c2c_expansion"] = rng.choice([1.1, 1.25])
                        base["blocks"][b1]["chops"].append([a1, {"count": kw0["count"], "c2c_expansion": rng.choice([0.8, 1.0])}])
    nb = len(base["blocks"])
    k = 3 if ctx.tier == "quick" else 5
    variants = [{"order": list(range(nb)), "perms": [rng.randrange(24) for _ in range(nb)]}]
    for _ in range(k - 1):
        order = list(range(nb))
        rng.shuffle(order)
        variants.append({"order": order, "perms": [rng.randrange(24) for _ in range(nb)]})
    return {
        "base": base,
        "variants": variants,
        "sched_seeds": [rng.randrange(10**9) for _ in range(2 if ctx.tier == "quick" else 4)],
        "fresh": (2 if ctx.tier == "quick" else 4) if rng.random() < 0.08 else 0,
        # history on the long-lived mesh: write, stretch the assembled vertices (size-based chops now give other counts), write again
        "rewrite": {"factor": rng.choice([1.7, 0.55, 2.4]), "axis": rng.randrange(3)} if rng.random() < 0.35 else None,
    }


def max_hops(case):
    """largest number of hops a count has to travel (BFS over the family graph from chopped directions)"""
    fid, fam, by_pair = lattice.families(case)
    adj = {}
    for users in by_pair.values():
        for x in users:
            for y in users:
                if (x[0], x[1]) != (y[0], y[1]):
                    adj.setdefault((x[0], x[1]), set()).add((y[0], y[1]))
    src = {(b, a) for b, blk in enumerate(case["blocks"]) for a, _ in blk["chops"]}
    dist = {s: 0 for s in src}
    frontier = list(src)
    while frontier:
        nxt = []
        for u in frontier:
            for v in adj.get(u, ()):
                if v not in dist:
                    dist[v] = dist[u] + 1
                    nxt.append(v)
        frontier = nxt
    all_shared = False
    shared_pairs = {pr for pr, us in by_pair.items() if len({u[0] for u in us}) >= 2}
    for b, blk in enumerate(case["blocks"]):
        for a, prs in lattice.block_axis_pairs(blk).items():
            if all(p in shared_pairs for p in prs):
                all_shared = True
    return (max(dist.values()) if dist else 0), all_shared


def execute(case, schedule_seed, cb):
    """one execution of the real code -> (outcome, edge->count map in lattice-node terms, file bytes, info)"""
    import random

    mesh, _ = lattice.build_mesh(case, cb)
    info = {"sets": 0, "multi": 0, "sig": None}
    if schedule_seed is not None:
        mesh.assemble()
        mode = "desc" if schedule_seed == "desc" else "random"
        info["sets"], info["multi"], info["sig"] = sched.permute_sets(mesh, random.Random(schedule_seed), mode)
    path = util.tmpfile("c02")
    got, err = util.write_outcome(mesh, path, nblocks=len(case["blocks"]))
    data, counts = None, None
    leftover = os.path.exists(path)
    if got == "success":
        data = util.read_text(path)
        parsed = foamdict.parse_blockmesh(data)
        counts = {}
        for blk, cblk in zip(parsed["blocks"], case["blocks"]):
            for a in range(3):
                for e in hexconv.AXIS_EDGES[a]:
                    pr = tuple(sorted((cblk["nodes"][e[0]], cblk["nodes"][e[1]])))
                    counts.setdefault(pr, set()).add(blk["counts"][a])
    util.rm(path)
    return got, counts, data, info, leftover, err


def run_case(ctx, case):
    import classy_blocks as cb

    base = case["base"]
    ref_case = lattice.realise(base)
    outcome, fid, fam, fam_counts, by_pair = c01.predict(ref_case)
    hops, all_shared = max_hops(ref_case)
    if hops >= 2:
        ctx.count("models-with-2+-hops")
    if c01.has_multigrading(ref_case):
        ctx.count("models-with-a-multigraded-direction")
    nb, nface, nedge, nvert = lattice.contact_summary(ref_case)
    pattern = sorted(
        ("none" if c is None else c if isinstance(c, str) else "count") + f"x{len(fam[r])}" for r, c in fam_counts.items()
    )
    ctx.key([nb, nface, nedge, nvert, pattern, hops, all_shared, outcome], nontrivial=(hops >= 2 or all_shared))
    # expected per lattice edge
    want = {}
    for pr, users in by_pair.items():
        c = fam_counts[fid[(users[0][0], users[0][1])]]
        want[tuple(sorted(pr))] = c
    outcomes = set()
    sigs = set()
    first_counts = None
    for vi, var in enumerate(case["variants"]):
        vcase = lattice.realise(base, var["order"], var["perms"])
        ref_bytes = None
        scheds = [None] + list(case["sched_seeds"]) + ["desc"]
        for sseed in scheds:
            got, counts, data, info, leftover, err = execute(vcase, sseed, cb)
            ctx.evaluated()
            ctx.count("executions")
            ctx.count(f"outcome:{got}")
            outcomes.add(got)
            if sseed is not None:
                ctx.count("sets-permuted", info["sets"])
                ctx.count("sets-permuted-with-2+-elements", info["multi"])
                sigs.add(info["sig"])
            tag = f"variant={vi} schedule={sseed}"
            if got == "Budget":
                ctx.violation("propagation-does-not-terminate", f"{tag}: step budget on Block.copy_grading exceeded ({err}); predicted {outcome}")
                return
            if got != "success" and leftover:
                ctx.violation("partial-file-after-failed-write", f"{tag}: {got} but a file was left behind")
            if got != outcome and not (outcome == "either"):
                ctx.violation(f"outcome:{outcome}->{got}", f"{tag}: model predicts {outcome}, run ended with {got}: {err}")
                return
            if got == "success":
                for pr, cs in counts.items():
                    if len(cs) != 1:
                        ctx.violation("edge-with-two-counts", f"{tag}: lattice edge {pr} written with counts {sorted(cs)}")
                        return
                    w = want.get(pr)
                    if isinstance(w, int) and cs != {w}:
                        ctx.violation("count-differs-from-chop", f"{tag}: lattice edge {pr}: chop count {w}, written {sorted(cs)}")
                        return
                flat = {pr: next(iter(cs)) for pr, cs in counts.items()}
                if first_counts is None:
                    first_counts = flat
                elif flat != first_counts:
                    diff = {k: (first_counts.get(k), v) for k, v in flat.items() if first_counts.get(k) != v}
                    ctx.violation("counts-depend-on-order-or-numbering", f"{tag}: {dict(list(diff.items())[:4])}")
                    return
                if ref_bytes is None:
                    ref_bytes = data
                elif data != ref_bytes:
                    ctx.violation("schedule-dependent-bytes", f"{tag}: same script, different set iteration order -> different file; "
                                  + _first_diff(ref_bytes, data))
                    return
        if vi > 0:
            ctx.count("bundle:order-or-numbering-variants")
    ctx.count("distinct-schedule-signatures", len(sigs))
    ctx.sample({"blocks": [{"cell": b["cell"], "chops": b["chops"]} for b in base["blocks"]], "variants": case["variants"][:2],
                "predicted": outcome, "observed": sorted(outcomes), "max_hops": hops})

    if case.get("rewrite") and outcome == "success":
        rewrite_history(ctx, case, want, cb)

    # fresh interpreters: the same script, other heap addresses
    if case.get("fresh"):
        vcase = lattice.realise(base, case["variants"][0]["order"], case["variants"][0]["perms"])
        results = []
        for k in range(case["fresh"]):
            results.append(fresh_run(vcase, pad=k * 1237))
            ctx.count("fresh-interpreter-runs")
        if any(r is None for r in results):
            ctx.count("fresh-interpreter-watchdog")
            return
        if len({json.dumps(r) for r in results}) != 1:
            ctx.violation("schedule-dependent-bytes", "the same script run in fresh interpreters ended differently: "
                          + str([(r["outcome"], r["sha"]) for r in results]))


def rewrite_history(ctx, case, want, cb):
    """write; stretch the assembled mesh along one axis through its vertices; write again: the second propagation starts
    from scratch - it terminates, completes, and every lattice edge still has one count (the chop's, where a count was given)"""
    var = case["variants"][-1]
    vcase = lattice.realise(case["base"], var["order"], var["perms"])
    mesh, _ = lattice.build_mesh(vcase, cb)
    path = util.tmpfile("c02r")
    got, err = util.write_outcome(mesh, path, nblocks=len(vcase["blocks"]))
    if got != "success":
        util.rm(path)
        return  # judged by the bundle above
    rw = case["rewrite"]
    for v in mesh.vertices:
        p = [float(x) for x in v.position]
        p[rw["axis"]] *= rw["factor"]
        v.move_to(p)
    got, err = util.write_outcome(mesh, path, nblocks=len(vcase["blocks"]))
    ctx.evaluated()
    ctx.count("history:write-stretch-write")
    if got != "success":
        util.rm(path)
        mech = "propagation-does-not-terminate" if got == "Budget" else f"outcome:success->{got}"
        ctx.violation(mech + ":second-write-after-vertices-moved", f"first write succeeded; after stretching axis {rw['axis']} by {rw['factor']} the second write ended with {got}: {err}")
        return
    parsed = foamdict.parse_blockmesh(util.read_text(path))
    util.rm(path)
    counts = {}
    for blk, cblk in zip(parsed["blocks"], vcase["blocks"]):
        for a in range(3):
            for e in hexconv.AXIS_EDGES[a]:
                pr = tuple(sorted((cblk["nodes"][e[0]], cblk["nodes"][e[1]])))
                counts.setdefault(pr, set()).add(blk["counts"][a])
    for pr, cs in counts.items():
        w = want.get(pr)
        if len(cs) != 1:
            ctx.violation("edge-with-two-counts:second-write-after-vertices-moved", f"lattice edge {pr} written with counts {sorted(cs)}")
            return
        if isinstance(w, int) and cs != {w}:
            ctx.violation("count-differs-from-chop:second-write-after-vertices-moved", f"lattice edge {pr}: chop count {w}, written {sorted(cs)}")
            return
    # the counts are those of a mesh built on the stretched geometry right away (size-based chops see the new lengths)
    import copy

    fcase = copy.deepcopy(vcase)
    for blk in fcase["blocks"]:
        for p in blk["pts"]:
            p[rw["axis"]] *= rw["factor"]
    fmesh, _ = lattice.build_mesh(fcase, cb)
    got, err = util.write_outcome(fmesh, path, nblocks=len(fcase["blocks"]))
    if got != "success":
        util.rm(path)
        return
    fparsed = foamdict.parse_blockmesh(util.read_text(path))
    util.rm(path)
    ctx.count("judged:second-write-vs-fresh-mesh-of-the-moved-geometry")
    for bi, (b1, b2) in enumerate(zip(parsed["blocks"], fparsed["blocks"])):
        if list(b1["counts"]) != list(b2["counts"]):
            ctx.violation("stale-counts:second-write-after-vertices-moved",
                          f"block {bi}: the second write (after stretching axis {rw['axis']} by {rw['factor']}) has counts {b1['counts']}, "
                          f"a fresh mesh of the stretched geometry {b2['counts']}; chops {vcase['blocks'][bi]['chops']}")
            return


def _first_diff(a, b):
    la, lb = a.splitlines(), b.splitlines()
    for x, y in zip(la, lb):
        if x != y:
            return f"first differing line: {x.strip()!r} vs {y.strip()!r}"
    return "length differs"


def fresh_run(case, pad):
    path = util.tmpfile("c02case", ".json")
    with open(path, "w") as fh:
        json.dump(case, fh)
    env = dict(os.environ, PYTHONPATH=core.ROOT, PYTHONHASHSEED=str(pad % 7))
    try:
        r = subprocess.run([sys.executable, "-m", "vf.fresh", path, str(pad)], capture_output=True, text=True,
                           timeout=120, env=env, cwd=core.ROOT)
    except subprocess.TimeoutExpired:
        return None
    finally:
        util.rm(path)
    if r.returncode != 0:
        raise RuntimeError("fresh interpreter failed: " + r.stderr[-800:])
    return json.loads(r.stdout.strip().splitlines()[-1])
