"""C13 — optimisation never worsens quality; only clamped vertices move, on their constraints (DESIGN 3/C13).

The REAL MeshOptimizer / SketchOptimizer run on generated assemblies and mapped sketches. Monitors attached from
the harness for the duration of optimize(): a call wrapper around OptimizerBase.optimize_clamp (state snapshots
per clamp step), recorders on ClampOptimizationData.rollback / .skip (which path the library says it took) and a
one-shot failpoint that makes the k-th cell-quality evaluation inside one step's minimisation raise the library's
own ValueError("Degenerate Cell"). The oracle for manifolds, bounds and link relations is vf.xc13_model (textbook
geometry on the numbers of the case); the quality measure is the library's own, by definition of the property."""

import contextlib
import io
import random

import numpy as np

from vf import geom
from vf import xc13_model as M

ID = "C13"
BUDGET = {"quick": 150, "thorough": 4000}
SOFT = {"quick": 90.0, "thorough": 1500.0}  # soft deadline per shard (only a cap: the machine may be loaded)
MIN_KEYS = 30
REQUIRED = (
    ["judged:quality:mesh", "judged:quality:sketch", "links-built-from-live-vertex-arrays", "history:mesh-backported-between-two-optimize-calls", "size:0.0001", "judged:unclamped-bits", "judged:backport:mesh",
     "judged:backport:sketch", "path:rollback", "path:skip-injected", "judged:step-restored:rollback",
     "judged:step-restored:skip", "judged:never-accepted-clamp-in-place", "moved:clamp", "failpoint:fired", "judged:auto-clamp"]
    + [f"judged:manifold:{t}" for t in M.CLAMP_TYPES]
    + [f"moved:{t}" for t in M.CLAMP_TYPES]
    + [f"judged:link:{t}" for t in M.LINK_TYPES]
    + [f"moved:leader-of:{t}" for t in M.LINK_TYPES]
    + [f"method:{m}" for m in M.METHODS]
)
RULE = (
    "jittered (5-20 %) hexahedral assemblies 2x2x1 / 2x2x2 / 2x1x1 / 2x1x2 (any of the 24 numberings, general position, "
    "sizes 0.1 / 1 / 10, optionally mirror-symmetric) and mapped sketches 2x2 / 2x3 / 3x3 / o-grid / 5-fan; 1..5 clamps of "
    "13 kinds (Free, Line +- bounds, Curve on line / circle / linear- / spline-interpolated / analytic, Radial +- bounds, "
    "Plane, parametric surface +- bounds), 0..2 Translation / Rotation / Symmetry links, 4 methods, 1..3 iterations, 30 % of the "
    "unlinked sketches through auto_optimize() (interior points clamped to the sketch plane by the library, manual clamps on the boundary), "
    "30 % with an injected degenerate-cell error, a third of the cases with a second judged optimize() call on the optimised grid. non-trivial: >= 1 clamped vertex moved (> 1e-6 size) or a rollback / skip "
    "path was taken; distinct by (kind, topology, clamp kinds, link kinds, method, iterations, failpoint, paths taken)"
)
ASSUMPTIONS = [
    "the quality measure is the library's own (GridBase.quality on a fresh grid before / after): the property is about that measure",
    "quality: after <= max(before, before-with-clamped-vertices-snapped-to-their-clamp) * (1 + 1e-9) + 1e-9; a clamp may "
    "legitimately snap its vertex by < TOL = 1e-7 (GridBase.add_clamp accepts that distance); the state the library itself "
    "starts its first clamp step from counts as a third reference when it equals the snapped state within 1e-9 * scale "
    "(1e-6 * scale for followers of rotation links)",
    "on-manifold: distance <= 1e-7 * size (1e-6 * size for the spline-interpolated curve, judged against an independently "
    "rebuilt chord-length cubic spline by dense sampling + golden section); bounds: parameter recovered from the position, "
    "slack 1e-9 * max(1, size); angles compared modulo a full turn",
    "link relation: 1e-9 * scale for translation / mirror; 1e-6 * scale for rotation (the library measures the angle with "
    "arccos, conditioned ~1e-8 near 0)",
    "rotation links only with a leader moving on a circle about the link's axis (documented restriction); followers carry "
    "no clamp and follow one leader; clamped vertices start strictly inside their bounds (a LineClamp may start at its first point)",
    "rolled back / skipped step: state after == state before that step (1e-12 * scale); a clamp none of whose steps was "
    "accepted ends where its clamp put it initially (1e-9 * scale)",
    "an injected error is the library's own ValueError('Degenerate Cell') raised once from CellBase.quality inside the "
    "scipy minimisation of one optimize_clamp step (where a real degenerate cell would raise it)",
    "unclamped, unlinked vertices: bit-identical; mesh vertices / sketch face points vs optimizer.grid.points: bit-identical",
]

_FIXED = None


def desc_of(case):
    return f"{case['kind']} {case['topo']} size={case['size']} method={case['method']}"


def evidence_extra(counters, keys):
    return {"clamp_steps_observed": counters.get("steps", 0), "rollbacks_observed": counters.get("path:rollback", 0),
            "skips_observed_injected": counters.get("path:skip-injected", 0),
            "skips_observed_natural": counters.get("path:skip-natural", 0),
            "steps_accepted": counters.get("path:accepted", 0),
            "optimize_calls_aborted_by_exception": counters.get("optimize-aborted", 0)}


def fixed_cases(tier):
    """coverage-guaranteeing deterministic cases: every clamp kind, link kind and method, with and without failpoint"""
    global _FIXED
    if _FIXED is None:
        rng = random.Random("C13-fixed")
        out = []
        for i, ct in enumerate(M.CLAMP_TYPES):
            out.append(M.gen(rng, {"kind": "mesh" if i % 2 == 0 else "sketch", "ctypes": [ct, "free"], "ltype": None,
                                   "method": M.METHODS[i % 4], "failpoint": False}))
        for i, (lt, sym) in enumerate([("translation", None), ("rotation", None), ("symmetry", "zero"), ("symmetry", "general")]):
            for kind in ("mesh", "sketch"):
                out.append(M.gen(rng, {"kind": kind, "ctypes": ["free" if lt != "rotation" else "radial", "plane"], "ltype": lt,
                                       "sym": sym, "method": M.METHODS[(i + (kind == "mesh")) % 4], "failpoint": False}))
        for i, m in enumerate(M.METHODS):
            out.append(M.gen(rng, {"kind": "mesh" if i % 2 else "sketch", "ctypes": ["free", "line", "plane"], "ltype": None,
                                   "method": m, "failpoint": True}))
        for i in range(3):
            out.append(M.gen(rng, {"kind": "sketch", "ctypes": ["line"] if i else [], "ltype": None, "auto": True,
                                   "method": M.METHODS[i], "failpoint": i == 2}))
        for i in range(2):
            out.append(M.gen(rng, {"kind": ["mesh", "sketch"][i], "ctypes": ["free", "line", "plane"], "ltype": "translation",
                                   "calls": 2, "method": M.METHODS[3 - i], "failpoint": False}))
        # multi-step use of a long-lived optimizer: links holding the live vertex arrays, the mesh re-assembled between calls
        for i, lt in enumerate(["rotation", "rotation", "translation", "symmetry"]):
            out.append(M.gen(rng, {"kind": "mesh", "ctypes": ["radial" if lt == "rotation" else "free", "plane"], "ltype": lt,
                                   "sym": "general" if lt == "symmetry" else None, "calls": 2, "method": M.METHODS[i % 4],
                                   "failpoint": False, "link_args": "vertex-arrays", "between_calls": "mesh.backport" if i % 2 else None}))
        for i in range(3):
            out.append(M.gen(rng, {"kind": "mesh", "ctypes": ["free", "line", "plane"], "ltype": None, "calls": 2,
                                   "method": M.METHODS[i], "failpoint": False, "between_calls": "mesh.backport"}))
        # an L-shaped sketch through auto_optimize(): the re-entrant corner is on the boundary and gets no clamp
        for i in range(3):
            out.append(M.gen(rng, {"kind": "sketch", "ctypes": [], "ltype": None, "auto": True, "shape": "lshape",
                                   "method": M.METHODS[i], "failpoint": False}))
        # a 0.1 mm model in metres: vertex spacing far below sqrt(TOL)
        for i in range(4):
            out.append(M.gen(rng, {"kind": ["mesh", "sketch"][i % 2], "ctypes": ["free", "plane", "line"], "ltype": None,
                                   "method": M.METHODS[i], "failpoint": False, "size": 1e-4}))
        _FIXED = out
    return _FIXED


def gen_case(ctx):
    return M.gen(ctx.rng)


# ================================================================================================
# building the real objects
# ================================================================================================
def build_clamp(spec, position):
    from classy_blocks.construct.curves.analytic import AnalyticCurve, CircleCurve, LineCurve
    from classy_blocks.construct.curves.interpolated import LinearInterpolatedCurve, SplineInterpolatedCurve
    from classy_blocks.optimize.clamps.curve import CurveClamp, LineClamp, RadialClamp
    from classy_blocks.optimize.clamps.free import FreeClamp
    from classy_blocks.optimize.clamps.surface import ParametricSurfaceClamp, PlaneClamp

    t = spec["type"]
    if t == "free":
        return FreeClamp(position)
    if t == "line":
        return LineClamp(position, spec["p1"], spec["p2"])
    if t == "line-bounds":
        return LineClamp(position, spec["p1"], spec["p2"], tuple(spec["bounds"]))
    if t == "curve-line":
        return CurveClamp(position, LineCurve(spec["p1"], spec["p2"], tuple(spec["bounds"])))
    if t == "curve-circle":
        return CurveClamp(position, CircleCurve(np.array(spec["origin"]), np.array(spec["rim"]), np.array(spec["normal"]),
                                                tuple(spec["bounds"])))
    if t == "curve-linear":
        return CurveClamp(position, LinearInterpolatedCurve(spec["points"]))
    if t == "curve-spline":
        return CurveClamp(position, SplineInterpolatedCurve(spec["points"]))
    if t == "curve-analytic":
        return CurveClamp(position, AnalyticCurve(lambda s: M.analytic_curve(spec, s), tuple(spec["bounds"])))
    if t == "radial":
        return RadialClamp(position, spec["center"], spec["normal"])
    if t == "radial-bounds":
        return RadialClamp(position, spec["center"], spec["normal"], list(spec["bounds"]))
    if t == "plane":
        return PlaneClamp(position, spec["point"], spec["normal"])
    if t in ("surface", "surface-bounds"):
        return ParametricSurfaceClamp(position, lambda p: M.surface_point(spec, p[0], p[1]),
                                      [list(b) for b in spec["bounds"]] if spec.get("bounds") else None, spec.get("initial"))
    raise AssertionError(t)


def build_link(spec, leader, follower):
    from classy_blocks.optimize.links import RotationLink, SymmetryLink, TranslationLink

    if spec["type"] == "translation":
        return TranslationLink(leader, follower)
    if spec["type"] == "rotation":
        return RotationLink(leader, follower, spec["axis"], spec["origin"])
    return SymmetryLink(leader, follower, spec["normal"], spec["origin"])


class Monitor:
    """call wrappers installed on the real classes while optimize() runs"""

    def __init__(self, clamp_vertex, failpoint):
        self.clamp_vertex = clamp_vertex  # id(clamp) -> grid index
        self.failpoint = failpoint
        self.steps = []
        self.current = None
        self.armed = False
        self.evals = 0
        self.fired = False
        self.minimize_calls = 0

    @contextlib.contextmanager
    def installed(self):
        import scipy.optimize
        from classy_blocks.optimize.cell import CellBase
        from classy_blocks.optimize.iteration import ClampOptimizationData
        from classy_blocks.optimize.optimizer import OptimizerBase

        mon = self
        o_step, o_rb, o_skip = OptimizerBase.optimize_clamp, ClampOptimizationData.rollback, ClampOptimizationData.skip
        o_min, o_q = scipy.optimize.minimize, CellBase.__dict__.get("quality")

        def q_or_none(grid):
            try:
                return float(grid.quality)
            except Exception:  # noqa: BLE001
                return None

        def step(self_, clamp, method, *a, **kw):
            v = mon.clamp_vertex.get(id(clamp))
            if v is None:  # a clamp the library created itself (auto_optimize): find its junction
                v = next((j.index for j in self_.grid.junctions if j.clamp is clamp), None)
            rec = {"v": v, "before": np.array(self_.grid.points, dtype=float, copy=True),
                   "q0": q_or_none(self_.grid), "rolled": False, "skipped": False, "index": len(mon.steps), "fired": False}
            mon.current = rec
            try:
                return o_step(self_, clamp, method, *a, **kw)
            finally:
                mon.current = None
                mon.armed = False
                rec["after"] = np.array(self_.grid.points, dtype=float, copy=True)
                rec["q1"] = q_or_none(self_.grid)
                mon.steps.append(rec)

        def rollback(self_):
            if mon.current is not None:
                mon.current["rolled"] = True
            return o_rb(self_)

        def skip(self_):
            if mon.current is not None:
                mon.current["skipped"] = True
            return o_skip(self_)

        def minimize(fun, *a, **kw):
            inside = mon.current is not None and getattr(fun, "__qualname__", "").endswith("optimize_clamp.<locals>.fquality")
            if inside:
                mon.minimize_calls += 1
                if mon.failpoint and mon.current["index"] == mon.failpoint["step"] and not mon.fired:
                    mon.armed, mon.evals = True, 0
            try:
                return o_min(fun, *a, **kw)
            finally:
                if inside:
                    mon.armed = False

        def quality(self_):
            if mon.armed:
                mon.evals += 1
                if mon.evals >= mon.failpoint["eval"]:
                    mon.armed, mon.fired = False, True
                    mon.current["fired"] = True
                    raise ValueError(f"Degenerate Cell: {self_}")
            return o_q.fget(self_)

        OptimizerBase.optimize_clamp = step
        ClampOptimizationData.rollback = rollback
        ClampOptimizationData.skip = skip
        scipy.optimize.minimize = minimize
        if self.failpoint and o_q is not None:
            CellBase.quality = property(quality)
        try:
            yield self
        finally:
            OptimizerBase.optimize_clamp = o_step
            ClampOptimizationData.rollback = o_rb
            ClampOptimizationData.skip = o_skip
            scipy.optimize.minimize = o_min
            if self.failpoint and o_q is not None:
                CellBase.quality = o_q


def _repo_frame(err):
    """'file.py:function' of the innermost library frame of the traceback, None if the library is not involved"""
    import os
    import traceback

    from vf import core

    tb = traceback.extract_tb(err.__traceback__)
    if tb and os.path.abspath(tb[-1].filename).startswith(os.path.join(core.ROOT, "vf")):
        return None
    for fr in reversed(tb):
        if core.REPO_SRC in os.path.abspath(fr.filename):
            return f"{os.path.basename(fr.filename)}:{fr.name}"
    return None


def _at_upper_bound(spec, x, size):
    """is the vertex within 2e-6 (the optimizer's finite-difference step is 1e-6) of the upper end of its bounds?"""
    import copy

    if not spec.get("bounds") and spec["type"] not in ("line", "curve-linear", "curve-spline"):
        return False
    if spec["type"] in ("curve-linear", "curve-spline"):
        return geom.dist(x, spec["points"][-1]) < 1e-5 * size
    probe = copy.deepcopy(spec)
    b = probe.get("bounds")
    if spec["type"] == "line":
        b = [0.0, geom.dist(spec["p1"], spec["p2"])]
        probe["bounds"] = b
    if spec["type"].startswith("surface"):
        probe["bounds"] = [[lo, hi - 2e-6] for lo, hi in b]
    else:
        probe["bounds"] = [b[0], b[1] - 2e-6]
    return M.manifold_check(probe, x)[1] > 0 and M.manifold_check(dict(probe, bounds=b), x)[1] <= 1e-9


def _fmt(a):
    return np.array2string(np.asarray(a, dtype=float), precision=12, separator=",").replace("\n", "")


def run_case(ctx, case):
    from classy_blocks.construct.flat.face import Face
    from classy_blocks.construct.flat.sketches.mapped import MappedSketch
    from classy_blocks.construct.operations.loft import Loft
    from classy_blocks.mesh import Mesh
    from classy_blocks.optimize.grid import HexGrid, InvalidLinkError, NoJunctionError, QuadGrid
    from classy_blocks.optimize.optimizer import MeshOptimizer, SketchOptimizer

    kind, size = case["kind"], case["size"]
    ctx.count(f"size:{size:g}")
    pts = np.array(case["points"], dtype=float)
    nv = len(pts)
    scale = 1.0 + float(np.max(np.abs(pts)))
    sink = io.StringIO()

    # ---- the real objects ---------------------------------------------------------------------------------
    if kind == "mesh":
        mesh = Mesh()
        for c in case["cells"]:
            mesh.add(Loft(Face(pts[c[:4]]), Face(pts[c[4:]])))
        mesh.assemble()
        vpos = np.array([v.position for v in mesh.vertices])
        if len(vpos) != nv:
            raise AssertionError(f"harness: {len(vpos)} mesh vertices for {nv} nodes")
        # node -> mesh vertex (nodes are >= 0.3 size apart; positions are copied verbatim)
        vmap = [int(np.argmin(np.linalg.norm(vpos - p, axis=1))) for p in pts]
        if sorted(vmap) != list(range(nv)) or float(np.max(np.abs(vpos[vmap] - pts))) != 0.0:
            raise AssertionError("harness: node / vertex matching failed")
        addressing = [list(b.indexes) for b in mesh.blocks]
        grid_cls = HexGrid

        def current():
            return np.array([v.position for v in mesh.vertices])[vmap]
    else:
        sketch = MappedSketch(pts, [list(c) for c in case["cells"]])
        vmap = list(range(nv))
        addressing = [list(c) for c in case["cells"]]
        grid_cls = QuadGrid

        def current():
            return np.array(sketch.positions)
    before = current()
    if not np.array_equal(before, pts):
        raise AssertionError("harness: initial positions differ from the case")
    try:
        with contextlib.redirect_stdout(sink):
            q_before = float(grid_cls(np.array(before[np.argsort(vmap)] if kind == "mesh" else before), addressing).quality)
    except ValueError:
        ctx.count("skipped:degenerate-initial-grid")
        return
    with contextlib.redirect_stdout(sink):
        report = bool(case.get("report"))  # only adds a printed summary
        optimizer = MeshOptimizer(mesh, report=report) if kind == "mesh" else SketchOptimizer(sketch, report=report)

    # ---- clamps and links -----------------------------------------------------------------------------------
    clamp_of, clamp_obj, clamp_vertex = {}, {}, {}
    for spec in case["clamps"]:
        v = spec["v"]
        clamp = build_clamp(spec, before[v])
        try:
            optimizer.add_clamp(clamp)
        except NoJunctionError:
            # the clamp's own parameter search ended >= TOL away from the vertex: the optimizer refused it and the
            # vertex stays unclamped (how exactly a clamp finds its parameters is C17's subject)
            ctx.count(f"clamp-not-accepted:{spec['type']}")
            continue
        clamp_of[v], clamp_obj[v], clamp_vertex[id(clamp)] = spec, clamp, vmap[v]
    followers = {}  # follower -> (link spec, leader)
    for link in case["links"]:
        a, b = link["leader"], link["follower"]
        try:
            if kind == "mesh" and case.get("link_args") == "vertex-arrays":
                obj = build_link(link, mesh.vertices[vmap[a]].position, mesh.vertices[vmap[b]].position)
                ctx.count("links-built-from-live-vertex-arrays")
            else:
                obj = build_link(link, before[a], before[b])
            optimizer.add_link(obj)
        except InvalidLinkError as err:
            ctx.evaluated()
            ctx.count(f"link-rejected:{link['type']}")
            zero = "origin=0" if not np.any(np.array(link.get("origin", [0, 0, 0]), dtype=float)) else "origin!=0"
            ctx.violation(f"valid-link-rejected:{link['type']}:{zero}",
                          f"{kind} {case['topo']}: {link['type']} link between vertex {a} at {_fmt(before[a])} and vertex {b} at "
                          f"{_fmt(before[b])} ({ {k: link[k] for k in link if k not in ('leader', 'follower', 'type')} }) refused by "
                          f"add_link: {err}")
            return
        if a in clamp_of:
            followers[b] = (link, a)
    if not clamp_of and not case.get("auto"):
        ctx.count("skipped:no-clamp-accepted")
        return
    orig = before.copy()
    ncalls = 1 if case.get("auto") else int(case.get("calls", 1))

    def one_call(call, last):
        """one judged execution of optimize(); every clause is relative to the state right before this call"""
        before = current()
        try:
            with contextlib.redirect_stdout(sink):
                q_before = float(grid_cls(np.array(before[np.argsort(vmap)] if kind == "mesh" else before), addressing).quality)
        except ValueError:
            ctx.count("skipped:degenerate-grid-before-later-call")
            return False
        clamp_init = {v: np.array(c.position, dtype=float, copy=True) for v, c in clamp_obj.items()}
        fp = case.get("failpoint") if last else None
        nauto = len(set(range(nv)) - M.quad_boundary(case["cells"])) if case.get("auto") else 0
        if fp and fp["step"] >= (len(clamp_of) + nauto) * case["iterations"]:
            fp = dict(fp, step=fp["step"] % (len(clamp_of) + nauto))

        # ---- the independent "snapped" start state: clamped vertices where their clamp put them, followers related -----
        s0 = before.copy()
        for v, p in clamp_init.items():
            s0[v] = p
        for b, (link, a) in followers.items():
            s0[b] = M.link_expected(link, orig[a], orig[b], s0[a])
        snap = float(np.max(np.linalg.norm(s0 - before, axis=1)))
        try:
            with contextlib.redirect_stdout(sink):
                q_s0 = float(grid_cls(np.array(s0[np.argsort(vmap)] if kind == "mesh" else s0), addressing).quality)
        except ValueError:
            q_s0 = q_before

        # ---- run ------------------------------------------------------------------------------------------------------
        mon = Monitor(clamp_vertex, fp)
        raised = None
        with mon.installed(), contextlib.redirect_stdout(sink):
            try:
                run = optimizer.auto_optimize if case.get("auto") else optimizer.optimize
                run(max_iterations=case["iterations"], tolerance=case["tolerance"], method=case["method"])
            except Exception as err:  # noqa: BLE001
                where = _repo_frame(err)
                if where is None:
                    raise  # not from the library: a harness error, reported as such by core
                raised = err
        ctx.evaluated()
        auto_vs = set()
        if case.get("auto"):
            # clamps the library added itself: a PlaneClamp through the point, normal = the sketch's normal (docstring of
            # auto_optimize). Which points got one is observed; that they are the interior ones is counted, not judged.
            ctx.count("auto_optimize")
            normal = M.quad_normal(before, case["cells"])
            for j in optimizer.grid.junctions:
                if j.clamp is not None and j.index not in clamp_of:
                    auto_vs.add(j.index)
                    clamp_of[j.index] = {"v": j.index, "type": "plane", "point": [float(x) for x in before[j.index]],
                                         "normal": [float(x) for x in normal], "auto": True}
            interior = set(range(nv)) - M.quad_boundary(case["cells"])
            want_auto = interior - set(c["v"] for c in case["clamps"])
            ctx.count("auto-clamped-set==interior" if auto_vs == want_auto else "auto-clamped-set!=interior")
            ctx.count("judged:auto-clamp", len(auto_vs))
            if auto_vs != want_auto:
                # auto_optimize() documents: a PlaneClamp on all non-boundary points; a boundary point the user gave no clamp
                # is a vertex without a clamp (it must not move), an interior one without is not optimised at all
                ctx.violation("auto_optimize:clamps-not-on-exactly-the-interior-points",
                              f"{desc_of(case)}: auto_optimize() clamped points {sorted(auto_vs)}; the points not on the boundary of the quad "
                              f"map (minus the user's clamps) are {sorted(want_auto)}")
                return False
        ctx.count(f"method:{case['method']}")
        ctx.count(f"kind:{kind}")
        after = current()
        inv = np.argsort(vmap)  # mesh vertex index -> node
        gridpts = np.array(optimizer.grid.points, dtype=float)
        gridpts = gridpts[vmap] if kind == "mesh" else gridpts
        for s in mon.steps:
            if kind == "mesh":
                s["before"], s["after"] = s["before"][vmap], s["after"][vmap]
            s["node"] = int(inv[s["v"]]) if s["v"] is not None else None

        n_roll = sum(1 for s in mon.steps if s["rolled"])
        n_skip = sum(1 for s in mon.steps if s["skipped"])
        n_skip_inj = sum(1 for s in mon.steps if s["skipped"] and s["fired"])
        ctx.count("steps", len(mon.steps))
        ctx.count("path:rollback", n_roll)
        ctx.count("path:skip-injected", n_skip_inj)
        ctx.count("path:skip-natural", n_skip - n_skip_inj)
        ctx.count("path:accepted", len(mon.steps) - n_roll - n_skip)
        if fp:
            ctx.count("failpoint:fired" if mon.fired else "failpoint:not-reached")
        moved = {v: float(np.linalg.norm(after[v] - before[v])) for v in clamp_of}
        any_moved = any(d > 1e-6 * size for d in moved.values())
        ltypes = sorted({l["type"] for l in case["links"]})
        ctag = ",".join(sorted({c["type"] + ("(auto)" if c.get("auto") else "") for c in clamp_of.values()}))
        desc = f"{kind} {case['topo']} call={call + 1}/{ncalls} size={size} method={case['method']} iterations={case['iterations']} clamps=[{ctag}] links={ltypes}"
        ctx.key([kind, case["topo"], sorted(c["type"] for c in clamp_of.values()), sorted(l["type"] for l in case["links"]),
                 case["method"], case["iterations"], bool(fp), bool(case.get("auto")), call, any_moved, n_roll > 0, n_skip > 0],
                nontrivial=any_moved or n_roll > 0 or n_skip > 0)
        ctx.sample({"kind": kind, "topo": case["topo"], "size": size, "method": case["method"], "iterations": case["iterations"],
                    "clamps": [{k: c[k] for k in c} for c in case["clamps"]][:3], "links": case["links"], "failpoint": fp,
                    "observed": {"quality_before": q_before, "steps": len(mon.steps), "rollbacks": n_roll, "skips": n_skip,
                                 "moved": {str(v): d for v, d in moved.items()}}})

        if raised is not None:
            if isinstance(raised, ValueError) and "Degenerate Cell" in str(raised):
                # a degenerate-cell error left optimize() (met outside a clamp step): nothing may have been applied
                ctx.count("optimize-raised-degenerate")
                if not np.array_equal(after, before):
                    ctx.violation(f"half-applied-after-escaping-error:{kind}", f"{desc}: optimize() raised {raised!r} and the "
                                  f"{kind} was left modified")
                return False
            # any other exception: the run was aborted on an input inside the domain; the optimizer's positions and the
            # mesh / sketch are left apart (nothing is backported) - "afterwards mesh vertices equal the optimizer's positions"
            ctx.count("optimize-aborted")
            at_bound = sorted({clamp_of[s["node"]]["type"] for s in mon.steps if s["node"] in clamp_of
                               and _at_upper_bound(clamp_of[s["node"]], s["after"][s["node"]], size)})
            apart = float(np.max(np.linalg.norm(after - gridpts, axis=1)))
            ctx.violation(
                f"optimize-aborted:{type(raised).__name__}@{where}",
                f"{desc}: optimize() raised {raised!r} after {len(mon.steps)} clamp steps; {kind} points and optimizer.grid.points are "
                f"left {apart:.3e} apart (nothing backported). Clamps sitting on their upper parameter bound at that moment: {at_bound}. "
                f"clamps: {[c for c in case['clamps'] if c['type'] in at_bound][:2]}")
            return False

        # ---- (1) mesh vertices / sketch points equal the optimizer's final positions ---------------------------------------
        ctx.count(f"judged:backport:{kind}")
        if not np.array_equal(after, gridpts):
            bad = [int(i) for i in np.nonzero(np.any(after != gridpts, axis=1))[0]]
            ctx.violation(f"backport-mismatch:{kind}", f"{desc}: after optimize() {kind} points {bad[:4]} are {_fmt(after[bad[:2]])} "
                          f"but optimizer.grid.points has {_fmt(gridpts[bad[:2]])} (indices in {'mesh.vertices' if kind == 'mesh' else 'sketch'} "
                          f"order: {[vmap[i] for i in bad[:4]]})")
        if kind == "sketch":
            for fi, quad in enumerate(case["cells"]):
                fpts = np.array(sketch.faces[fi].point_array, dtype=float)
                if not np.array_equal(fpts, np.array(optimizer.grid.points)[quad]):
                    ctx.violation("backport-mismatch:sketch-face", f"{desc}: face {fi} {quad} holds {_fmt(fpts)} but the optimizer's "
                                  f"points are {_fmt(np.array(optimizer.grid.points)[quad])}")
                    break

        # ---- (2) unclamped, unlinked vertices do not move at all -------------------------------------------------------------
        fixed = [v for v in range(nv) if v not in clamp_of and v not in followers]
        ctx.count("judged:unclamped-bits", len(fixed))
        for v in fixed:
            if not np.array_equal(after[v], before[v]):
                role = "inert-link-follower" if any(l["follower"] == v for l in case["links"]) else (
                    "clamp-not-accepted" if any(c["v"] == v for c in case["clamps"]) else "plain")
                ctx.violation(f"unclamped-vertex-moved:{kind}:{role}", f"{desc}: vertex {v} has no clamp and no active link but moved from "
                              f"{_fmt(before[v])} to {_fmt(after[v])} (|d| = {np.linalg.norm(after[v] - before[v]):.3e})")
                break

        # ---- (3) quality no worse ----------------------------------------------------------------------------------------
        try:
            with contextlib.redirect_stdout(sink):
                q_after = float(grid_cls(np.array(after[inv] if kind == "mesh" else after), addressing).quality)
        except ValueError as err:
            q_after = None
            ctx.violation(f"degenerate-after:{kind}", f"{desc}: quality before {q_before}, after optimize() the grid is degenerate: {err}")
        if q_after is not None:
            ctx.count(f"judged:quality:{kind}")
            ref = max(q_before, q_s0)
            # the library's own start state (first clamp step) is an equally good reference as long as it is the snapped
            # start state up to numerical noise (a rotation link places its follower through arccos: ~2e-8 rad near 0)
            if mon.steps and mon.steps[0]["q0"] is not None:
                p1 = mon.steps[0]["before"]
                noise = np.array([(1e-6 if (v in followers and followers[v][0]["type"] == "rotation") else 1e-9) * scale
                                  + (1.5e-7 if v in auto_vs else 0.0) for v in range(nv)])
                if np.all(np.linalg.norm(p1 - s0, axis=1) <= noise):
                    ref = max(ref, mon.steps[0]["q0"])
                    ctx.count("quality-reference:library-start-state-agrees")
                else:
                    ctx.count("quality-reference:library-start-state-differs")
            if not (q_after <= ref * (1 + 1e-9) + 1e-9):
                worst = max((s for s in mon.steps if s["q0"] is not None and s["q1"] is not None), key=lambda s: s["q1"] - s["q0"],
                            default=None)
                ctx.violation(
                    f"quality-worse:{kind}:links={'+'.join(ltypes) or 'none'}",
                    f"{desc}: summed quality {q_before!r} before (with clamped vertices snapped by <= {snap:.1e}: {q_s0!r}), {q_after!r} "
                    f"after optimize(); steps: {[(s['node'], 'skip' if s['skipped'] else 'rollback' if s['rolled'] else 'accept', s['q0'], s['q1']) for s in mon.steps][:8]}"
                    + (f"; worst step: clamp at vertex {worst['node']} {worst['q0']} -> {worst['q1']}" if worst else ""))
            if q_after < q_before:
                ctx.count("improved")

        # ---- (4) clamped vertices on their manifold, inside their bounds -----------------------------------------------------
        for v, spec in clamp_of.items():
            t = spec["type"]
            dist, exc, cls = M.manifold_check(spec, after[v])
            ctx.count(f"judged:manifold:{t}")
            if moved[v] > 1e-6 * size:
                ctx.count(f"moved:{t}")
                ctx.count("moved:clamp")
            extent = size
            if t in ("radial", "radial-bounds"):
                # relative to the circle, not to the cell size: the library rotates by parameter / radius, an unbounded
                # parameter may wind up ~1e6 rad on a 0.1 mm model, and expm() is good to ~3e-14 * angle of the radius
                extent = max(size, float(np.linalg.norm(np.array(spec["p0"], dtype=float) - np.array(spec["center"], dtype=float))))
            tol = (1e-6 if cls == "sampled" else 1e-7) * extent
            if t in ("radial", "radial-bounds"):
                try:
                    wind = abs(float(clamp_obj[v].params[0])) / max(extent, 1e-300)  # ~ the angle the library rotated by
                except Exception:  # noqa: BLE001
                    wind = 0.0
                tol += 3e-13 * wind * extent  # measured: expm() rotations are off the circle by <= 3e-14 * angle * radius
            if not (dist <= tol):
                ctx.violation(f"off-manifold:{t}", f"{desc}: vertex {v} clamped by {spec} started at {_fmt(before[v])} and ended at "
                              f"{_fmt(after[v])}, {dist:.3e} off its manifold (tolerance {tol:.1e})")
            elif exc > 1e-9 * max(1.0, size):
                ctx.violation(f"out-of-bounds:{t}", f"{desc}: vertex {v} clamped by {spec} ended at {_fmt(after[v])}, outside the bounds "
                              f"by {exc:.3e} (parameter units)")

        # ---- (5) followers keep their relation ---------------------------------------------------------------------------------
        for b, (link, a) in followers.items():
            want = M.link_expected(link, orig[a], orig[b], after[a])
            err = float(np.linalg.norm(after[b] - want))
            ctx.count(f"judged:link:{link['type']}")
            if moved[a] > 1e-6 * size:
                ctx.count(f"moved:leader-of:{link['type']}")
            tol = (1e-6 if link["type"] == "rotation" else 1e-9) * scale
            if not (err <= tol):
                ctx.violation(f"link-relation-broken:{link['type']}:leader={clamp_of[a]['type']}",
                              f"{desc}: {link} leader {a} went {_fmt(before[a])} -> {_fmt(after[a])}, follower {b} went {_fmt(before[b])} -> "
                              f"{_fmt(after[b])} but the relation puts it at {_fmt(want)} (off by {err:.3e})")

        # ---- (6) rolled back / skipped steps restore the state; never-accepted clamps stay where they were ------------------------
        tol_r = 1e-12 * scale
        for s in mon.steps:
            if not (s["rolled"] or s["skipped"]):
                continue
            path = "skip" if s["skipped"] else "rollback"
            ctx.count(f"judged:step-restored:{path}")
            d = np.linalg.norm(s["after"] - s["before"], axis=1)
            bad = [int(i) for i in np.nonzero(d > tol_r)[0]]
            # tolerated alternative for the step's own vertex and its followers: the snapped start state
            bad = [i for i in bad if not ((i == s["node"] or (i in followers and followers[i][1] == s["node"]))
                                          and np.linalg.norm(s["after"][i] - s0[i]) <= 1e-9 * scale)]
            if bad:
                i = bad[0]
                who = "own-vertex" if i == s["node"] else ("follower" if i in followers else "other-vertex")
                spec = clamp_of.get(s["node"], {"type": "?"})
                ctx.violation(
                    f"{path}-does-not-restore:{kind}:{spec['type']}:{who}" + (":injected" if s["fired"] else ""),
                    f"{desc}: step {s['index']} (clamp {spec['type']} at vertex {s['node']}) was {'skipped after ' + ('an injected' if s['fired'] else 'a') + ' degenerate-cell error' if s['skipped'] else 'rolled back'}"
                    f" but vertex {i} is at {_fmt(s['after'][i])}, before the step it was at {_fmt(s['before'][i])} (|d| = {d[i]:.3e}); "
                    f"failpoint={fp}")
                break
        by_clamp = {}
        for s in mon.steps:
            by_clamp.setdefault(s["node"], []).append(s)
        for v, steps in by_clamp.items():
            if v is None or v not in clamp_of or not all(s["rolled"] or s["skipped"] for s in steps):
                continue
            ctx.count("judged:never-accepted-clamp-in-place")
            d = float(np.linalg.norm(after[v] - s0[v]))
            if not (d <= 1e-9 * scale + (1.5e-7 if v in auto_vs else 0.0)):  # an auto clamp's own snap (< TOL) is not observable
                ctx.violation(f"never-accepted-clamp-displaced:{kind}:{clamp_of[v]['type']}",
                              f"{desc}: every step of the {clamp_of[v]['type']} clamp at vertex {v} was rolled back or skipped "
                              f"({[('skip' if s['skipped'] else 'rollback') for s in steps]}) but the vertex ended at {_fmt(after[v])}, "
                              f"{d:.3e} away from where it was ({_fmt(s0[v])})")
        return True

    for call in range(ncalls):
        if call and kind == "mesh" and case.get("between_calls") == "mesh.backport":
            with contextlib.redirect_stdout(sink):
                mesh.backport()
            ctx.count("history:mesh-backported-between-two-optimize-calls")
            if len(mesh.vertices) != nv:
                raise AssertionError("harness: vertex count changed by backport")
        if not one_call(call, call == ncalls - 1):
            break
