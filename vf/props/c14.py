"""C14 — the block quality measure depends only on the cell's shape (DESIGN 3/C14).

Metamorphic-relation monitor on the REAL HexCell / QuadCell / Junction / Grid quality:

  renumbering   q(X) == q(X renumbered by an orientation-preserving symmetry)   (24 hex / 4 quad, exhaustive per single cell)
  motion        q(X) == q(g X) for g a translation, rotation, uniform scaling or a composition of the three
  stretch       q(cube stretched along d) >= q(cube)  and equal for d = 0, 1, 2

The oracle is the relation itself; the maps g are built with vf.geom (Rodrigues) and the renumberings with
vf.hexconv.ROTATIONS (written from the OpenFOAM guide). Nothing of classy_blocks.util is imported here. Cells are
observed one by one (cell.quality), through Junction.quality (selected junctions) and through Grid.quality, on grids
built directly (HexGrid / QuadGrid), through Mesh.assemble() + HexGrid.from_mesh and MappedSketch + QuadGrid.from_sketch.
"""

import math

import numpy as np

from vf import geom, hexconv

ID = "C14"
BUDGET = {"quick": 2400, "thorough": 60000}
MIN_KEYS = 200
REQUIRED = ["judged:history:value-after-smoothing-vs-fresh-grid", "judged:history:value-after-update-vs-fresh-grid", "history-update:nested-list",
    "judged:renumbering:hex:single", "judged:renumbering:hex:neighbours",
    "judged:renumbering:quad:single", "judged:renumbering:quad:neighbours",
    "exhaustive:24-renumberings-of-one-hex", "exhaustive:4-renumberings-of-one-quad",
    "judged:translate:hex", "judged:rotate:hex", "judged:scale:hex", "judged:similarity:hex",
    "judged:translate:quad", "judged:rotate:quad", "judged:scale:quad", "judged:similarity:quad",
    "judged:motion:hex:neighbours", "judged:motion:quad:neighbours",
    "judged:stretch:single", "judged:stretch:neighbours", "judged:stretch:not-lower", "judged:stretch:same-rise",
    "reach:c2c-to-neighbour-centre", "reach:c2c-to-boundary-side", "reach:junction.quality", "reach:grid.quality",
    "via:grid", "via:mesh", "via:sketch",
    "shape:regular", "shape:irregular",
]
RULE = (
    "hexahedra / planar quadrilaterals from a cube (square) lattice of 1..9 cells: per-axis pre-stretch 1..10, optional "
    "shear / taper, node jitter 0 / <=5 / <=15 / <=25 % of the shortest edge (all corner Jacobians > 0, scaled Jacobian "
    ">= 0.25); base edge 5e3..2e4, every edge of the generated base >= 2500, so that every size reached by the scale factors 0.1..100 stays >= 250 (guard noise "
    "< 1e-3 per cell). Per single cell ALL 24 (4) rotational renumberings; per assembly 6 rounds of independent "
    "per-cell renumberings; 4-5 maps g (translate, rotate, scale, similarity, similarity of a renumbered assembly); cube -> box "
    "stretch 1.05..10 along each direction for 1 and 2x2x2 cells. non-trivial: renumbering != identity on a cell that is "
    "not a perfect cube/square, g != identity, stretch factor >= 1.05; distinct by (kind, assembly, shape class, jitter "
    "class, clause, renumbering id | map kind | factor class)"
)
ASSUMPTIONS = [
    "tolerance per compared cell value: 2e-3 + 1e-6*|q| (n cells: n*2e-3 + 1e-6*|q|): the library's VSMALL = 1e-6 "
    "guard adds <= 0.172/size to a perfect cell (measured: 1.7e-3 at size 100) and every size used is >= 250",
    "quadrilaterals are planar and convex (sketch faces); hexahedra have 8 positive corner Jacobians",
    "translations are <= 10 (one case in ten <= 100) times the assembly's extent, so that float64 round-off of the "
    "shifted coordinates stays far below the tolerance",
    "a ValueError('Degenerate Cell') on one side of a relation and a number on the other is a change of the value; "
    "on both sides it is no observation (counted, not judged)",
    "with neighbours the stretched assembly is a cubic 2x2x2 lattice, so the three directions are related by a symmetry",
]

ABS_TOL = 2e-3
REL_TOL = 1e-6


def evidence_extra(counters, keys):
    return {
        "exhaustive_subspaces": {
            "all 24 rotational renumberings of one hexahedron (cases)": counters.get("exhaustive:24-renumberings-of-one-hex", 0),
            "all 4 rotational renumberings of one quadrilateral (cases)": counters.get("exhaustive:4-renumberings-of-one-quad", 0),
        },
        "largest_share_of_tolerance_used_by_a_passing_comparison": (
            ">50%" if counters.get("tolerance-used:>50%") else ">10%" if counters.get("tolerance-used:>10%") else "<=10%"),
    }

HEX_ROT = [tuple(p) for p in hexconv.ROTATIONS]
QUAD_ROT = [tuple((i + k) % 4 for i in range(4)) for k in range(4)]
ROT = {"hex": HEX_ROT, "quad": QUAD_ROT}
IDENT = {"hex": HEX_ROT.index(tuple(range(8))), "quad": 0}


def _axis_order(p):
    """which physical direction each local direction of the renumbered hexahedron runs along"""
    return tuple(hexconv.EDGE_AXIS[frozenset((p[0], p[k]))] for k in (1, 3, 4))


AXIS_ORDER = {"hex": [_axis_order(p) for p in HEX_ROT], "quad": [k % 2 for k in range(4)]}
SAME_AXES = {"hex": [r for r, a in enumerate(AXIS_ORDER["hex"]) if a == (0, 1, 2)], "quad": [0, 2]}

# harness self-check: the 24 renumberings keep a right-handed cell right-handed
for _p in HEX_ROT:
    assert min(hexconv.jacobians(hexconv.renumber([list(map(float, c)) for c in hexconv.CORNER], _p))) > 0
assert len(set(HEX_ROT)) == 24 and len(SAME_AXES["hex"]) == 4


# ---- topology ---------------------------------------------------------------------------------------
def hex_lattice(dims):
    n1, n2, n3 = dims

    def nid(i, j, k):
        return (i * (n2 + 1) + j) * (n3 + 1) + k

    nodes = [[i, j, k] for i in range(n1 + 1) for j in range(n2 + 1) for k in range(n3 + 1)]
    cells = [[nid(i + c[0], j + c[1], k + c[2]) for c in hexconv.CORNER]
             for i in range(n1) for j in range(n2) for k in range(n3)]
    return np.array(nodes, dtype=float), cells


def quad_lattice(dims):
    n1, n2 = dims

    def nid(i, j):
        return i * (n2 + 1) + j

    nodes = [[i, j, 0] for i in range(n1 + 1) for j in range(n2 + 1)]
    cells = [[nid(i, j), nid(i + 1, j), nid(i + 1, j + 1), nid(i, j + 1)] for i in range(n1) for j in range(n2)]
    return np.array(nodes, dtype=float), cells


def renumbered(kind, cells, rots):
    table = ROT[kind]
    return [[c[table[r][i]] for i in range(len(c))] for c, r in zip(cells, rots)]


# ---- independent validity of generated cells ----------------------------------------------------------
def hex_scaled_jacobian(pts):
    """min over corners of (triple product) / (product of the three edge lengths); 1 for a box"""
    pts = np.asarray(pts, dtype=float)
    jac = hexconv.jacobians(pts)
    worst = 1.0
    for i in range(8):
        den = 1.0
        for nb in hexconv.corner_neighbours(i):
            den *= float(np.linalg.norm(pts[nb] - pts[i]))
        if den <= 0:
            return -1.0
        worst = min(worst, jac[i] / den)
    return worst


def quad_scaled_jacobian(pts):
    """min over corners of sin(inner angle), signed with respect to the normal of corner 0; plus planarity defect"""
    pts = np.asarray(pts, dtype=float)
    n0 = np.cross(pts[1] - pts[0], pts[3] - pts[0])
    n0 = n0 / np.linalg.norm(n0)
    worst = 1.0
    for i in range(4):
        a, b = pts[(i + 1) % 4] - pts[i], pts[(i - 1) % 4] - pts[i]
        worst = min(worst, float(np.dot(np.cross(a, b), n0)) / float(np.linalg.norm(a) * np.linalg.norm(b)))
    return worst


def min_edge(kind, pts, cells):
    pts = np.asarray(pts, dtype=float)
    out = math.inf
    for c in cells:
        if kind == "hex":
            pairs = hexconv.EDGES
        else:
            pairs = [(0, 1), (1, 2), (2, 3), (3, 0)]
        for a, b in pairs:
            out = min(out, float(np.linalg.norm(pts[c[a]] - pts[c[b]])))
    return out


def valid(kind, pts, cells):
    fn = hex_scaled_jacobian if kind == "hex" else quad_scaled_jacobian
    return all(fn([pts[i] for i in c]) >= 0.25 for c in cells)


# ---- generators ------------------------------------------------------------------------------------------
MIN_BASE_EDGE = 2500.0  # x 0.1 (smallest scale factor) = 250: the size floor the tolerance is derived for
JITTER = {"none": (0.0, 0.0), "j05": (0.01, 0.05), "j15": (0.05, 0.15), "j25": (0.15, 0.25)}


def _shape(rng, kind, dims, shape, jitter):
    """explicit node coordinates of one assembly (base size), or None if the draw is not a valid convex cell set"""
    d = 3 if kind == "hex" else 2
    nodes, cells = (hex_lattice if kind == "hex" else quad_lattice)(dims)
    base = 10 ** rng.uniform(math.log10(5e3), math.log10(2e4))
    if kind == "quad":
        # the quadrilateral measure has no size-dependent guard worth mentioning (1.7e-5 absolute between sizes 0.5 and 1e4,
        # measured): quads are also judged at ordinary sizes, where a term that silently depends on the size is not saturated
        base = 10 ** rng.uniform(0.5, 4.3)
    if shape == "cube":
        sizes = [base] * d
    else:
        sizes = [base * 10 ** rng.uniform(0, 1) if rng.random() < 0.7 else base for _ in range(d)]
        if max(sizes) / min(sizes) < 1.2:
            sizes[rng.randrange(d)] *= rng.uniform(1.5, 10)
    pts = nodes.copy()
    for a in range(d):
        pts[:, a] *= sizes[a]
    ext = [sizes[a] * dims[a] for a in range(d)]
    if shape == "sheared":
        for a in range(d):
            for b in range(a + 1, d):
                pts[:, a] += rng.uniform(-0.6, 0.6) * pts[:, b]
    elif shape == "tapered":
        ax = rng.randrange(d)
        t = rng.uniform(0.1, 0.6)
        w = pts[:, ax] / ext[ax]
        for a in range(d):
            if a != ax:
                mid = ext[a] / 2
                pts[:, a] = mid + (pts[:, a] - mid) * (1 - t * w)
    lo, hi = JITTER[jitter]
    if hi > 0:
        amp = rng.uniform(lo, hi) * min(sizes)
        for row in pts:
            for a in range(d):
                row[a] += rng.uniform(-amp, amp)
    if not valid(kind, pts, cells) or min_edge(kind, pts, cells) < (MIN_BASE_EDGE if kind == "hex" else 2.0):
        return None
    return pts, cells


def _embed(rng, kind, pts):
    """quads: usually a sketch in a plane z = const, sometimes in a tilted plane; hexes: as generated (the maps g
    supply the general position)"""
    pts = pts.copy()
    if kind == "quad":
        pts[:, 2] = rng.choice([0.0, rng.uniform(-1e4, 1e4)])
        if rng.random() < 0.4:
            pts = geom.rotate(pts, geom.rand_unit(rng), rng.uniform(-math.pi, math.pi), geom.rand_vec(rng, -1e4, 1e4))
    return pts


def _maps(rng, pts, ncells, kind):
    lo, hi = pts.min(axis=0), pts.max(axis=0)
    ext = float(np.max(hi - lo))
    centre = (lo + hi) / 2
    out = []
    for mk in ["translate", "rotate", "scale", "similarity", "similarity+renumbering"]:
        if mk == "similarity+renumbering" and rng.random() < 0.5:
            continue
        far = 100.0 if rng.random() < 0.1 else 10.0
        g = {"kind": mk, "axis": [0.0, 0.0, 1.0], "angle": 0.0, "factor": 1.0, "shift": [0.0, 0.0, 0.0],
             "origin": [float(c + rng.uniform(-3, 3) * ext) for c in centre]}
        if mk in ("translate", "similarity", "similarity+renumbering"):
            g["shift"] = [rng.uniform(-far, far) * ext for _ in range(3)]
        if mk in ("rotate", "similarity", "similarity+renumbering"):
            g["axis"] = [float(v) for v in geom.rand_unit(rng)]
            g["angle"] = rng.choice([rng.uniform(-math.pi, math.pi), rng.uniform(-math.pi, math.pi), math.pi / 2, math.pi])
        if mk in ("scale", "similarity", "similarity+renumbering"):
            g["factor"] = rng.choice([0.1, 100.0, 10 ** rng.uniform(-1, 2), 10 ** rng.uniform(-1, 2)])
        if mk == "similarity+renumbering":
            g["renum"] = [rng.randrange(len(ROT[kind])) for _ in range(ncells)]
        out.append(g)
    return out


def apply_map(g, pts):
    """p -> origin + factor * R(p - origin) + shift, R by Rodrigues' formula (vf.geom)"""
    out = np.asarray(pts, dtype=float)
    if g["angle"] != 0.0:
        out = geom.rotate(out, g["axis"], g["angle"], g["origin"])
    if g["factor"] != 1.0:
        out = geom.scale(out, g["factor"], g["origin"])
    return out + np.array(g["shift"], dtype=float)


HEX_DIMS = [(2, 2, 2), (2, 2, 2), (2, 2, 1), (2, 1, 1), (1, 2, 2), (1, 1, 2), (3, 1, 1)]
QUAD_DIMS = [(2, 2), (2, 2), (3, 2), (2, 1), (1, 3), (3, 3)]


def gen_case(ctx):
    rng = ctx.rng
    u = rng.random()
    if u > 0.97:
        # history: the value read from a long-lived grid after its points were moved by the smoother must be the value
        # of the new shape (= what a freshly built grid of the same points reports)
        dims = rng.choice([[2, 2, 2], [3, 2, 2], [3, 3, 2]])
        side = 10 ** rng.uniform(math.log10(2500), 5)
        pts, cells = hex_lattice(dims)
        pts = [[(p[a] + rng.uniform(-0.2, 0.2)) * side for a in range(3)] for p in pts]
        return {"mode": "history", "kind": "hex", "points": pts, "cells": [list(c) for c in cells], "iterations": rng.randint(1, 4)}
    if u > 0.94:
        # history: a grid built directly from points (float array / nested list) whose vertices are then moved one by one
        # through GridBase.update() reports what a fresh grid of the final positions reports
        kind = rng.choice(["hex", "quad"])
        side = 10 ** rng.uniform(math.log10(2500), 5)
        if kind == "hex":
            pts, cells = hex_lattice(rng.choice([[2, 1, 1], [2, 2, 1], [2, 2, 2]]))
        else:
            pts, cells = quad_lattice(rng.choice([(2, 2), (3, 2)]))
        pts = [[(p[a] + (rng.uniform(-0.15, 0.15) if (kind == "hex" or a < 2) else 0.0)) * side for a in range(3)] for p in pts]
        moves = []
        for _ in range(rng.randint(1, 4)):
            i = rng.randrange(len(pts))
            moves.append([i, [pts[i][a] + (rng.uniform(-0.2, 0.2) * side if (kind == "hex" or a < 2) else 0.0) for a in range(3)]])
        if kind == "quad" and rng.random() < 0.5:
            # the whole (planar) grid is turned out of its plane, junction by junction
            cur = {i: list(p) for i, p in enumerate(pts)}
            for i, p in moves:
                cur[i] = p
            c0 = np.mean(np.array(list(cur.values())), axis=0)
            ax, ang = geom.rand_unit(rng), rng.uniform(0.4, 2.6)
            moves = moves + [[i, [float(x) for x in geom.rotate(cur[i], ax, ang, c0)]] for i in sorted(cur)]
        return {"mode": "history-update", "kind": kind, "points": pts, "cells": [list(c) for c in cells], "moves": moves,
                "container": rng.choice(["float-array", "nested-list"])}
    if u < 0.12:
        n = rng.choice([1, 1, 2])
        side = 10 ** rng.uniform(math.log10(250), 6)
        far = 100.0 if rng.random() < 0.1 else 10.0
        return {
            "mode": "stretch", "kind": "hex", "n": n, "side": side,
            "factor": rng.choice([1.05, 2.0, 10.0, rng.uniform(1.05, 1.5), rng.uniform(1.5, 3), rng.uniform(3, 10)]),
            "axis": [float(v) for v in geom.rand_unit(rng)],
            "angle": rng.choice([0.0, rng.uniform(-math.pi, math.pi), rng.uniform(-math.pi, math.pi)]),
            "shift": [rng.choice([0.0, rng.uniform(-far, far) * side * n]) for _ in range(3)],
            "renum": [rng.choice([IDENT["hex"], rng.randrange(24)]) for _ in range(n**3)],
            "via": "mesh" if rng.random() < 0.1 else "grid",
        }
    kind = "hex" if rng.random() < 0.6 else "quad"
    mode = "single" if rng.random() < (0.7 if kind == "hex" else 0.55) else "grid"
    dims = ((1, 1, 1) if kind == "hex" else (1, 1)) if mode == "single" else rng.choice(HEX_DIMS if kind == "hex" else QUAD_DIMS)
    for attempt in range(200):
        shape = rng.choice(["cube", "box", "box", "sheared", "tapered"])
        jitter = rng.choice(["none", "j05", "j15", "j25"])
        if attempt > 50:
            jitter = rng.choice(["none", "j05"])
        made = _shape(rng, kind, dims, shape, jitter)
        if made is not None:
            break
    else:
        return None
    pts, cells = made
    pts = _embed(rng, kind, pts)
    ncells = len(cells)
    nrot = len(ROT[kind])
    case = {
        "mode": mode, "kind": kind, "dims": list(dims), "shape": shape, "jitter": jitter,
        "points": [[float(v) for v in p] for p in pts], "cells": cells,
        "maps": _maps(rng, pts, ncells, kind),
    }
    if mode == "single":
        case["via"] = rng.choices(["grid", "mesh" if kind == "hex" else "sketch"], [0.9, 0.1])[0]
    else:
        case["via"] = rng.choices(["grid", "mesh" if kind == "hex" else "sketch"], [0.85, 0.15])[0]
        rounds = [[rng.choice(SAME_AXES[kind]) for _ in range(ncells)]]  # same axis order, flipped
        same = rng.randrange(nrot)
        rounds.append([same] * ncells)  # every cell renumbered the same way
        for _ in range(4):
            rounds.append([rng.randrange(nrot) for _ in range(ncells)])
        case["renum"] = rounds
        npts = len(case["points"])
        case["junctions"] = sorted(set([npts // 2] + [rng.randrange(npts) for _ in range(2)]))
    return case


def fixed_cases(tier):
    """a handful of deterministic geometries that every run sees: perfect cube and square, the 1:2:3 box, the
    elongated jittered block of the reconnaissance, a 2x2x2 box lattice; all 24 / 4 renumberings each"""
    out = []
    ident_maps = [
        {"kind": "translate", "axis": [0.0, 0.0, 1.0], "angle": 0.0, "factor": 1.0, "shift": [12345.0, -6789.0, 4321.0], "origin": [0.0, 0.0, 0.0]},
        {"kind": "rotate", "axis": [0.6, 0.0, 0.8], "angle": 1.1, "factor": 1.0, "shift": [0.0, 0.0, 0.0], "origin": [100.0, 200.0, -300.0]},
        {"kind": "scale", "axis": [0.0, 0.0, 1.0], "angle": 0.0, "factor": 0.1, "shift": [0.0, 0.0, 0.0], "origin": [0.0, 0.0, 0.0]},
        {"kind": "scale", "axis": [0.0, 0.0, 1.0], "angle": 0.0, "factor": 100.0, "shift": [0.0, 0.0, 0.0], "origin": [50.0, 0.0, 0.0]},
    ]
    nodes, cells = hex_lattice((1, 1, 1))
    for name, sizes, jit in (("cube", (5000.0, 5000.0, 5000.0), 0), ("box", (5000.0, 10000.0, 15000.0), 0),
                             ("box", (4000.0, 20000.0, 6000.0), 1)):
        pts = nodes * np.array(sizes)
        if jit:
            wob = np.array([[0.11, -0.07, 0.05], [-0.09, 0.1, 0.02], [0.04, 0.08, -0.1], [-0.03, -0.11, 0.07],
                            [0.1, 0.02, -0.06], [-0.05, 0.09, 0.11], [0.07, -0.1, -0.02], [-0.12, 0.03, 0.08]])
            pts = pts + wob * 4000.0
        out.append({"mode": "single", "kind": "hex", "dims": [1, 1, 1], "shape": name, "jitter": "j15" if jit else "none",
                    "points": pts.tolist(), "cells": cells, "maps": ident_maps, "via": "grid"})
    qn, qc = quad_lattice((1, 1))
    for name, sizes in (("cube", (5000.0, 5000.0)), ("box", (5000.0, 20000.0))):
        pts = qn * np.array(list(sizes) + [1.0])
        out.append({"mode": "single", "kind": "quad", "dims": [1, 1], "shape": name, "jitter": "none",
                    "points": pts.tolist(), "cells": qc, "maps": ident_maps, "via": "grid"})
    nodes, cells = hex_lattice((2, 2, 2))
    pts = nodes * np.array([5000.0, 9000.0, 14000.0])
    out.append({"mode": "grid", "kind": "hex", "dims": [2, 2, 2], "shape": "box", "jitter": "none", "points": pts.tolist(),
                "cells": cells, "maps": ident_maps, "via": "grid", "junctions": [13, 0, 4],
                "renum": [[(3 * c + r) % 24 for c in range(8)] for r in range(6)]})
    for n in (1, 2):
        for f in (1.05, 3.0):
            out.append({"mode": "stretch", "kind": "hex", "n": n, "side": 1000.0, "factor": f, "axis": [0.0, 0.0, 1.0],
                        "angle": 0.0, "shift": [0.0, 0.0, 0.0], "renum": [IDENT["hex"]] * n**3, "via": "grid"})
    return out


# ---- observation of the real code ----------------------------------------------------------------------
class Observation:
    def __init__(self):
        self.cells = []  # float or None (ValueError 'Degenerate Cell')
        self.junctions = {}  # point index -> float or None
        self.grid = None
        self.grid_failed = False

    @property
    def degenerate(self):
        return any(q is None for q in self.cells)


def _quality(ctx, obj):
    """obj.quality of the real object; the library's own 'Degenerate Cell' ValueError is an outcome, not a crash"""
    try:
        return float(obj.quality)
    except ValueError as err:
        if "Degenerate Cell" not in str(err):
            raise
        ctx.count("outcome:ValueError(Degenerate Cell)")
        return None


def observe(ctx, kind, via, pts, cells, junctions=()):
    from classy_blocks.optimize.grid import HexGrid, QuadGrid

    pts = np.array(pts, dtype=float)
    where = None
    if via == "grid":
        grid = (HexGrid if kind == "hex" else QuadGrid)(pts.copy(), [list(c) for c in cells])
    elif via == "mesh":
        import classy_blocks as cb

        mesh = cb.Mesh()
        for c in cells:
            p = [pts[i] for i in c]
            mesh.add(cb.Loft(cb.Face(p[:4]), cb.Face(p[4:])))
        mesh.assemble()
        grid = HexGrid.from_mesh(mesh)
    else:
        from classy_blocks.construct.flat.sketches.mapped import MappedSketch

        grid = QuadGrid.from_sketch(MappedSketch(pts.copy(), [list(c) for c in cells]))
    ctx.count(f"via:{via}")
    if via != "grid" and junctions:
        gp = np.asarray(grid.points, dtype=float)
        where = {}
        for j in junctions:
            d = np.linalg.norm(gp - pts[j], axis=1)
            where[j] = int(np.argmin(d))
    obs = Observation()
    if len(grid.cells) != len(cells):
        raise AssertionError(f"{len(grid.cells)} cells for {len(cells)} requested")
    for cell in grid.cells:
        nb = sum(1 for v in cell.neighbours.values() if v is not None)
        ctx.count("reach:c2c-to-neighbour-centre", nb)
        ctx.count("reach:c2c-to-boundary-side", len(cell.neighbours) - nb)
        obs.cells.append(_quality(ctx, cell))
    for j in junctions:
        ctx.count("reach:junction.quality")
        obs.junctions[j] = _quality(ctx, grid.junctions[j if where is None else where[j]])
    ctx.count("reach:grid.quality")
    obs.grid = _quality(ctx, grid)
    obs.neighbour_links = sum(1 for cell in grid.cells for v in cell.neighbours.values() if v is not None)
    return obs


# ---- judging ----------------------------------------------------------------------------------------------
def tol(a, b, n=1):
    return n * ABS_TOL + REL_TOL * max(abs(a), abs(b))


def differs(a, b, n=1):
    return not (abs(a - b) <= tol(a, b, n))  # (nan differs from everything)


def _margin(ctx, a, b, n=1):
    """evidence of how much of the tolerance is used by differences that pass"""
    r = abs(a - b) / tol(a, b, n)
    if r > 0.1:
        ctx.count("tolerance-used:>10%" if r <= 0.5 else "tolerance-used:>50%" if r <= 1 else "tolerance-used:exceeded")


def regular(case):
    return case.get("mode") == "stretch" or (case["jitter"] == "none" and case["shape"] in ("cube", "box"))


def compare(ctx, case, clause, label, base, other, ncells):
    """-> list of (level, index, q_base, q_other) that differ; degenerate outcomes handled here.
    Returns None when there is nothing to compare (both sides raised)."""
    kind = case["kind"]
    reg = "unjittered" if case.get("mode") == "stretch" or case["jitter"] == "none" else "jittered"
    if base.degenerate or other.degenerate:
        if base.degenerate and other.degenerate:
            ctx.count("unjudged:degenerate-error-on-both-sides")
            return None
        ctx.evaluated(ncells)
        side = "transformed" if other.degenerate else "reference"
        ctx.violation(
            f"degenerate-error:{kind}:{reg}",
            f"[{clause}] {label}: cell.quality is a number for one numbering/position of a valid convex cell and raises "
            f"ValueError('Degenerate Cell') for the other ({side} side raised). reference={base.cells} other={other.cells} "
            f"shape={case.get('shape')}/{case.get('jitter')}",
        )
        return None
    ctx.evaluated(ncells)
    bad = []
    for i, (a, b) in enumerate(zip(base.cells, other.cells)):
        _margin(ctx, a, b)
        if differs(a, b):
            bad.append(("cell", i, a, b))
    for j, a in base.junctions.items():
        b = other.junctions.get(j)
        if a is None or b is None:
            continue
        if differs(a, b):
            bad.append(("junction", j, a, b))
    if base.grid is not None and other.grid is not None and differs(base.grid, other.grid, ncells):
        bad.append(("grid", 0, base.grid, other.grid))
    return bad


def _level(bad):
    levels = {b[0] for b in bad}
    return "cell" if "cell" in levels else "+".join(sorted(levels))


def run_history(ctx, case):
    import classy_blocks as cb
    from classy_blocks.optimize.grid import HexGrid

    pts = np.array(case["points"], dtype=float)
    mesh = cb.Mesh()
    for cell in case["cells"]:
        p = pts[list(cell)]
        mesh.add(cb.Loft(cb.Face(p[:4]), cb.Face(p[4:])))
    mesh.assemble()
    smoother = cb.MeshSmoother(mesh)
    ctx.evaluated()
    ctx.key(["history", len(case["cells"]), case["iterations"]])
    try:
        q0 = float(smoother.grid.quality)
        smoother.smooth(case["iterations"])
        q1 = float(smoother.grid.quality)
        q2 = float(HexGrid.from_mesh(mesh).quality)
    except ValueError as err:
        if "Degenerate" in str(err):
            ctx.count("history:degenerate-skipped")
            return
        raise
    ctx.count("judged:history:value-after-smoothing-vs-fresh-grid")
    n = len(case["cells"])
    if differs(q1, q2, n):
        ctx.violation("history:stale-value-after-points-moved",
                      f"grid quality read before smoothing {q0!r}, after {case['iterations']} smoothing iterations the same grid reports "
                      f"{q1!r} but a fresh grid of the moved points reports {q2!r}")


def run_history_update(ctx, case):
    from classy_blocks.optimize.grid import HexGrid, QuadGrid

    cls = HexGrid if case["kind"] == "hex" else QuadGrid
    pts = [list(p) for p in case["points"]]
    given = np.array(pts, dtype=float) if case["container"] == "float-array" else [list(p) for p in pts]
    ctx.evaluated()
    ctx.key(["history-update", case["kind"], len(case["cells"]), len(case["moves"]), case["container"]])
    try:
        grid = cls(given, [list(c) for c in case["cells"]])
        float(grid.quality)
        for i, pos in case["moves"]:
            grid.update(i, np.array(pos, dtype=float))
            pts[i] = list(pos)
        q1 = float(grid.quality)
        cq1 = [float(c.quality) for c in grid.cells]
        fresh = cls(np.array(pts, dtype=float), [list(c) for c in case["cells"]])
        q2 = float(fresh.quality)
        cq2 = [float(c.quality) for c in fresh.cells]
    except ValueError as err:
        if "Degenerate" in str(err):
            ctx.count("history:degenerate-skipped")
            return
        raise
    ctx.count("judged:history:value-after-update-vs-fresh-grid")
    ctx.count(f"history-update:{case['container']}")
    n = len(case["cells"])
    if differs(q1, q2, n) or any(differs(a, b) for a, b in zip(cq1, cq2)):
        ctx.violation(f"history:stale-value-after-update:{case['container']}",
                      f"{case['kind']} grid built from a {case['container']}, {len(case['moves'])} vertices moved through update(): the grid reports "
                      f"{q1!r} (cells {cq1}), a fresh grid of the same positions {q2!r} (cells {cq2})")


def run_case(ctx, case):
    if case["mode"] == "history-update":
        return run_history_update(ctx, case)
    if case["mode"] == "history":
        return run_history(ctx, case)
    if case["mode"] == "stretch":
        return run_stretch(ctx, case)
    kind, mode, via = case["kind"], case["mode"], case["via"]
    pts = np.array(case["points"], dtype=float)
    cells = case["cells"]
    ncells = len(cells)
    nrot = len(ROT[kind])
    junctions = case.get("junctions", [])
    nbr = "single" if mode == "single" else "neighbours"
    ctx.count("shape:regular" if regular(case) else "shape:irregular")
    perfect = case["shape"] == "cube" and case["jitter"] == "none"
    keybase = [kind, case["dims"], case["shape"], case["jitter"], via]

    base = observe(ctx, kind, via, pts, cells, junctions)
    if mode == "grid" and base.neighbour_links == 0:
        # the library bound no neighbours in an assembly whose cells share whole sides: nothing "with neighbours" can
        # be judged here (REQUIRED judged:*:neighbours counters then make the run INCONCLUSIVE, never silently held)
        ctx.count("unjudged:library-bound-no-neighbours")
        return

    # ---- renumbering -----------------------------------------------------------------------------------
    if mode == "single":
        rounds = [[r] for r in range(nrot) if r != IDENT[kind]]
    else:
        rounds = case["renum"]
    table = {}  # per cell: axis order -> list of (rotation id, q)
    for c in range(ncells):
        if base.cells[c] is not None:
            table.setdefault(c, {}).setdefault(AXIS_ORDER[kind][IDENT[kind]], []).append((IDENT[kind], base.cells[c]))
    bad_all, judged_rounds = [], 0
    for rots in rounds:
        obs = observe(ctx, kind, via, pts, renumbered(kind, cells, rots), junctions)
        label = f"renumbering {rots} ({kind}, {nbr}, via {via})"
        bad = compare(ctx, case, "renumbering", label, base, obs, ncells)
        if bad is None:
            continue
        judged_rounds += 1
        ctx.count(f"judged:renumbering:{kind}:{nbr}", ncells)
        for c in range(ncells):
            table.setdefault(c, {}).setdefault(AXIS_ORDER[kind][rots[c]], []).append((rots[c], obs.cells[c]))
        if mode == "single":
            ctx.key(keybase + ["renumbering", rots[0]], nontrivial=not perfect)
        bad_all += [(rots,) + b for b in bad]
    if mode == "single" and judged_rounds == nrot - 1:
        ctx.count(f"exhaustive:{nrot}-renumberings-of-one-{kind}")
    if mode == "grid":
        ctx.key(keybase + ["renumbering", "per-cell"], nontrivial=not perfect)
    if bad_all:
        # structural sub-class: does the value only depend on which physical direction is local x1/x2/x3?
        within = False
        for c, groups in table.items():
            for members in groups.values():
                vals = [q for _, q in members]
                if len(vals) > 1 and differs(min(vals), max(vals)):
                    within = True
        level = _level([b[1:] for b in bad_all])
        note = ("values differ even between renumberings that keep the order of the three directions" if within else
                "values depend only on which physical direction becomes local x1/x2/x3")
        worst = max(bad_all, key=lambda b: abs(b[3] - b[4]))
        per_rot = ""
        if mode == "single":
            per_rot = " values by renumbering id: " + ", ".join(
                f"{r}:{q:.6g}" for grp in table.get(0, {}).values() for r, q in grp)
        ctx.violation(
            f"renumbering:{kind}:{nbr}" + ("" if level == "cell" else f":{level}-only"),
            f"quality changes under an orientation-preserving renumbering of the corners ({kind}, {nbr}, via {via}, shape "
            f"{case['shape']}/{case['jitter']}): {len(bad_all)} differing values ({note}); worst: renumbering {worst[0]} {worst[1]} "
            f"{worst[2]}: {worst[3]!r} -> {worst[4]!r} (tolerance {tol(worst[3], worst[4]):.3g});{per_rot} points={case['points']}",
        )

    # ---- rigid motions / uniform scaling ----------------------------------------------------------------
    for g in case["maps"]:
        moved = apply_map(g, pts)
        rots = g.get("renum")
        mcells = renumbered(kind, cells, rots) if rots else cells
        obs = observe(ctx, kind, via, moved, mcells, junctions)
        ref = observe(ctx, kind, via, pts, mcells, junctions) if rots else base  # isolates the map from the renumbering
        mk = "similarity" if rots else g["kind"]
        label = (f"map {g['kind']} angle={g['angle']} axis={g['axis']} origin={g['origin']} factor={g['factor']} "
                 f"shift={g['shift']}" + (f" on the assembly renumbered by {rots}" if rots else ""))
        bad = compare(ctx, case, mk, label, ref, obs, ncells)
        if bad is None:
            continue
        ctx.count(f"judged:{mk}:{kind}", ncells)
        if mode == "grid":
            ctx.count(f"judged:motion:{kind}:neighbours", ncells)
        ctx.key(keybase + [g["kind"]])
        if bad:
            worst = max(bad, key=lambda b: abs(b[2] - b[3]))
            level = _level(bad)
            ctx.violation(
                f"{mk}:{kind}:{nbr}" + ("" if level == "cell" else f":{level}-only"),
                f"quality changes under {label} ({kind}, {nbr}, via {via}, shape {case['shape']}/{case['jitter']}): "
                f"{len(bad)} differing values; worst: {worst[0]} {worst[1]}: {worst[2]!r} -> {worst[3]!r} "
                f"(tolerance {tol(worst[2], worst[3]):.3g}); points={case['points']}",
            )
    ctx.sample({"mode": mode, "kind": kind, "dims": case["dims"], "shape": case["shape"], "jitter": case["jitter"], "via": via,
                "points": case["points"][:8], "reference_cell_qualities": base.cells[:8],
                "maps": [g["kind"] for g in case["maps"]]})


def run_stretch(ctx, case):
    n, side, f, via = case["n"], case["side"], case["factor"], case["via"]
    nodes, cells = hex_lattice((n, n, n))
    cells = renumbered("hex", cells, case["renum"])
    ncells = len(cells)
    nbr = "single" if n == 1 else "neighbours"
    ctx.count("shape:regular")
    g = {"axis": case["axis"], "angle": case["angle"], "origin": [0.0, 0.0, 0.0], "factor": 1.0, "shift": case["shift"]}
    obs = {}
    for d in (None, 0, 1, 2):
        pts = nodes * side
        if d is not None:
            pts[:, d] *= f
        obs[d] = observe(ctx, "hex", via, apply_map(g, pts), cells)
    if n > 1 and obs[None].neighbour_links == 0:
        ctx.count("unjudged:library-bound-no-neighbours")
        return
    if any(o.degenerate or o.grid is None for o in obs.values()):
        if all(o.degenerate for o in obs.values()):
            ctx.count("unjudged:degenerate-error-on-both-sides")
            return
        ctx.evaluated(4 * ncells)
        ctx.violation(
            "degenerate-error:hex:unjittered",
            f"[stretch] cell.quality raises ValueError('Degenerate Cell') for some of cube / box-x / box-y / box-z but not all: "
            f"{ {str(d): o.cells for d, o in obs.items()} }; side={side} factor={f} n={n} axis={case['axis']} angle={case['angle']} "
            f"shift={case['shift']}",
        )
        return
    ctx.evaluated(4 * ncells)
    ctx.count(f"judged:stretch:{nbr}")
    fcls = "<1.5" if f < 1.5 else "<3" if f < 3 else "<=10"
    ctx.key(["stretch", n, fcls, "rotated" if case["angle"] else "aligned", via,
             "renumbered" if any(r != IDENT["hex"] for r in case["renum"]) else "identity"], nontrivial=f >= 1.05)
    q0 = obs[None].grid
    qd = [obs[d].grid for d in (0, 1, 2)]
    desc = (f"n={n} side={side} factor={f} renum={case['renum']} axis={case['axis']} angle={case['angle']} shift={case['shift']} "
            f"via {via}: q(cube)={q0!r}, q(stretched along 0,1,2)={qd!r}")
    ctx.count("judged:stretch:not-lower", 3)
    ctx.count("observed:stretch-raised-the-value", sum(1 for q in qd if q > q0 + tol(q, q0, ncells)))
    if any(q < q0 - tol(q, q0, ncells) for q in qd):
        ctx.violation(f"stretch-lowers:hex:{nbr}", f"stretching a cube lowers the quality value: {desc}")
    ctx.count("judged:stretch:same-rise", 3)
    if differs(min(qd), max(qd), ncells):
        ctx.violation(f"stretch-direction-dependent:hex:{nbr}", f"the rise depends on the stretched direction: {desc}")
    else:
        # per cell as well: the sorted cell values of the three boxes agree
        s = [sorted(obs[d].cells) for d in (0, 1, 2)]
        for k in range(ncells):
            vals = [s[d][k] for d in range(3)]
            if differs(min(vals), max(vals)):
                ctx.violation(f"stretch-direction-dependent:hex:{nbr}:cell-level",
                              f"sorted per-cell values differ between directions: {s}; {desc}")
                break
    ctx.sample({"mode": "stretch", "n": n, "side": side, "factor": f, "q_cube": q0, "q_stretched_0_1_2": qd})
