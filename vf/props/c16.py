"""C16 — curve points, lengths and closest-parameter queries are mutually consistent (DESIGN 3/C16).

Monitor: the REAL curve classes (DiscreteCurve, Linear/SplineInterpolatedCurve, AnalyticCurve, LineCurve,
CircleCurve) and the REAL OnCurve edge written by Mesh.write are executed on generated curves; an independent
reference curve (vf.xc16_ref: textbook line / circle / helix formulae, exact polyline projection, dense sampling)
judges discretize / get_point / get_length / get_closest_param and the parsed `spline a b (...)` entry."""

import math

import numpy as np

from vf import foamdict, geom, hexconv, util
from vf import xc16_ref as xr

ID = "C16"
BUDGET = {"quick": 7000, "thorough": 250000}
SOFT = {"quick": 40.0, "thorough": 900.0}
REQUIRED = [
    "kind:discrete", "kind:linear", "kind:spline", "kind:analytic", "kind:line", "kind:circle",
    "judged:point-on-definition", "judged:through-defining-points", "judged:discretize-ends", "judged:discretize-interior",
    "judged:length-exact", "judged:length-vs-dense", "judged:additive-exact", "judged:additive-approx",
    "pair:partial-fwd", "pair:partial-rev", "pair:full", "pair:knot-aligned",
    "judged:closest:on-curve", "judged:closest:near", "closest:multimodal-judged", "closest:far-weak",
    "judged:edge-points", "judged:edge-length-exact", "judged:edge-length-approx", "edge:against-curve-direction",
    "judged:edge-after-vertex-move", "pair:start-parameter-exactly-zero-inside-nonzero-bounds",
    "edge:along-curve-direction", "spacing:uneven", "history:curve-sheared-or-stretched-before-judging", "history:caller-edited-the-array-the-curve-was-built-from",
]
MIN_KEYS = 150
RULE = (
    "curves: Discrete / LinearInterpolated / SplineInterpolated (equalize on/off) through 4-12 points placed on helices "
    "(0.1-1.4 turns), sines, cubics and closed loops with even, 2-4x or 5-10x uneven spacing, random pose and scale "
    "10^U(-1,1.3); AnalyticCurve (helix / polynomial / sine formulae, random bounds); LineCurve (default or custom "
    "bounds); CircleCurve (full circle or arc, non-unit normal). Per curve: 3 parameter triples (full / partial / "
    "knot-aligned, forwards or reversed) with an interior split point, 2 discretisations, 4 closest-point queries "
    "(on the curve, within 0.2 size, farther). 12% of the cases put OnCurve(curve) on one of the 12 edges of a Loft "
    "(either direction), write the mesh and judge the parsed edge entry and Edge.length. non-trivial: uneven spacing "
    "(max/min chord >= 2) or a partial range or a reversed pair; distinct by (mode, kind, equalize, family, spacing "
    "class, point-count bucket, pair classes, query classes | edge slot, direction, representation)"
)
ASSUMPTIONS = [
    "exact kinds (Discrete, LinearInterpolated, LineCurve): lengths / additivity judged to 1e-9 * curve length; "
    "points to 1e-9 * (size + |coordinates|)",
    "approximate kinds (SplineInterpolated, Analytic, Circle): length and additivity judged to 2% of the reference "
    "length of the range (4001-point dense chord sum; r*|dtheta| for circles) plus 1.1x the chord deficit D of the "
    "defining points (dense length minus the polygon through them: what a sum of chords between knots may lose by "
    "design); point sets with D > 2% of the length are too coarse and skipped for these two clauses only",
    "closest parameter: judged strictly only when the query is within 0.2 * size (bounding-box diagonal) of the curve and "
    "resolvable: with B* the maximal parameter interval around the dense arg-min on which the distance decreases "
    "monotonically towards it and m the smallest distance outside B*, the part of B* closer than m covers >= 1/8 "
    "of the parameter range. Any coarse search finer than that followed by a descent that never accepts a worse "
    "point must end at the global minimum; queries near the seam of a closed curve or equidistant to two stretches "
    "are not resolvable by this rule and only judged for a finite, in-bounds answer. Tolerance on the returned "
    "point's distance: dense minimum (2001 samples) + 1e-4 * size (termination of a numerical optimiser).",
    "a DiscreteCurve takes integer parameters (indices) only; zero-length ranges (a == b) are outside the workload",
    "written edge points carry 8 decimals: on-curve tolerance 1e-7 * max(1, size) (the library's TOL); 'between the "
    "parameters' is read as: vertex a, the listed points, vertex b advance strictly along the curve (a listed point that "
    "repeats a vertex or a list in reverse order does not); the block edge is >= 15% of the parameter range long",
    "vertices of the snapped edge are the curve's own points for two parameters away from the seam of closed curves "
    "(a vertex that is not resolvable in the sense above is skipped)",
    "edge length: 1e-6 * length for exact kinds (the vertex parameters come from a numerical optimiser), 2% + 1.1 D otherwise",
    "the parametrisation of interpolated curves is the documented one (normalised cumulative chord length when "
    "equalize, uniform otherwise); a defining point reached at another parameter is accepted",
]

RES_WIDTH = 0.125
NEAR = 0.2


# ================================================================================================
# generation
# ================================================================================================
def _gen_pairs(rng, spec, nknots):
    kind = spec["kind"]
    pairs = []
    if kind == "discrete":
        n = len(spec["points"])
        for _ in range(3):
            a, c = rng.sample(range(n), 2)
            u = rng.random()
            if u < 0.2:
                a, c = 0, n - 1
            if rng.random() < 0.5:
                a, c = max(a, c), min(a, c)
            else:
                a, c = min(a, c), max(a, c)
            m = rng.randint(min(a, c) + 1, max(a, c) - 1) if abs(a - c) >= 2 else None
            pairs.append({"a": a, "c": c, "m": m, "none_args": bool(u < 0.1 and a == 0 and c == n - 1)})
        return pairs
    for _ in range(3):
        u = rng.random()
        none_args = False
        if u < 0.18:
            fa, fc = 0.0, 1.0
            none_args = rng.random() < 0.5
        elif u < 0.36 and nknots:
            # knot-aligned: one or both ends exactly on i/segments (where the library truncates with int())
            seg = nknots - 1
            i, j = sorted(rng.sample(range(seg + 1), 2))
            grid = [x / seg for x in range(seg + 1)]
            if spec.get("equalize") and rng.random() < 0.5:
                # the documented knots: normalised cumulative chord length (printed with full precision)
                grid = [float(x) for x in xr.chord_params(np.array(spec["points"], dtype=float), True)]
            fa = grid[i]
            fc = grid[j] if rng.random() < 0.5 else rng.uniform(fa + 0.02, 1.0) if fa < 0.97 else 1.0
        else:
            fa, fc = sorted([rng.random(), rng.random()])
            if fc - fa < 0.02:
                fa, fc = 0.1 * rng.random(), 1 - 0.1 * rng.random()
        if rng.random() < 0.45 and not none_args:
            fa, fc = fc, fa
        fm = fa + (fc - fa) * rng.uniform(0.1, 0.9)
        pairs.append({"a": fa, "c": fc, "m": fm, "none_args": none_args, "zero_a": (not none_args) and rng.random() < 0.25})
    return pairs


def gen_case(ctx):
    rng = ctx.rng
    mode = "edge" if rng.random() < 0.12 else "curve"
    spec = xr.gen_curve(rng)
    kind = spec["kind"]
    case = {"mode": mode, "curve": spec}
    if kind in xr.POINT_KINDS and rng.random() < 0.2:
        case["caller_array"] = True
    if kind in xr.POINT_KINDS and mode == "curve" and rng.random() < 0.25:
        pre = []
        for _ in range(rng.randint(1, 2)):
            what = rng.choice(["shear", "shear", "translate", "scale"])
            if what == "shear":
                n = [float(x) for x in geom.rand_unit(rng)]
                d = np.cross(n, geom.rand_unit(rng))
                d = [float(x) for x in d / np.linalg.norm(d)]
                pre.append(["shear", n, [rng.uniform(-1, 1) for _ in range(3)], d, rng.choice([0.5, 0.9, 1.2, 2.2])])
            elif what == "translate":
                pre.append(["translate", [rng.uniform(-2, 2) for _ in range(3)]])
            else:
                pre.append(["scale", rng.choice([0.3, 2.5]), [rng.uniform(-1, 1) for _ in range(3)]])
        case["pre"] = pre
    npts = len(spec["points"]) if kind in xr.POINT_KINDS else 0
    if mode == "curve":
        # parameters of non-discrete curves are given as fractions of the bounds
        case["pairs"] = _gen_pairs(rng, spec, npts if kind in ("linear", "spline") else 0)
        disc = []
        for _ in range(2):
            if kind == "discrete":
                a, c = rng.sample(range(npts), 2)
            else:
                a, c = rng.random(), rng.random()
                if rng.random() < 0.2:
                    a, c = 0.0, 1.0
                if rng.random() < 0.3:
                    a, c = max(a, c), min(a, c)
            disc.append({"a": a, "c": c, "count": rng.randint(2, 20), "none_args": False})
        if rng.random() < 0.3:
            disc[0] = {"a": 0 if kind == "discrete" else 0.0, "c": npts - 1 if kind == "discrete" else 1.0,
                       "count": 0, "none_args": True}
        case["discretize"] = disc
        queries = []
        for _ in range(4):
            u = rng.random()
            dist = 0.0 if u < 0.3 else (rng.uniform(0, NEAR) if u < 0.8 else rng.uniform(NEAR, 1.5))
            t = rng.uniform(0.12, 0.88) if rng.random() < 0.85 else rng.choice([0.0, 1.0, rng.random()])
            queries.append({"t": t, "dir": [float(x) for x in geom.rand_unit(rng)], "dist": dist})
        case["queries"] = queries
    else:
        if kind == "discrete":
            i, j = rng.sample(range(npts), 2)
            while abs(i - j) < 2:
                i, j = rng.sample(range(npts), 2)
            t1, t2 = i, j
        else:
            t1 = rng.uniform(0.06, 0.94)
            t2 = rng.uniform(0.06, 0.94)
            while abs(t1 - t2) < 0.15:
                t2 = rng.uniform(0.06, 0.94)
            if rng.random() < 0.15:
                t1, t2 = rng.choice([(0.0, 1.0), (1.0, 0.0), (0.0, t2), (t1, 1.0)])
        case["edge"] = {
            "k": rng.randrange(12), "swap": rng.random() < 0.5, "t1": t1, "t2": t2,
            "seed": [float(x) for x in geom.rand_unit(rng)], "w": rng.uniform(0.5, 1.5), "h": rng.uniform(0.5, 1.5),
            "n_points": rng.randint(1, 12), "repr": rng.choice(["spline", "spline", "polyLine"]),
            "counts": [rng.randint(1, 6) for _ in range(3)],
        }
    return case


def fixed_cases(tier):
    """the reconnaissance witness (DESIGN section 8) and the repository's own fixture shapes, as regression anchors"""
    ts = [0.0, 0.05, 0.33, 0.41, 0.45, 0.6, 0.93, 1.0]
    pts = [[3 * x, math.sin(3 * x), 0.5 * x * x] for x in ts]
    out = []
    for kind in ("linear", "spline"):
        for eq in (True, False):
            out.append({
                "mode": "curve", "curve": {"kind": kind, "points": pts, "family": "fixed", "equalize": eq},
                "pairs": [{"a": 0.13, "c": 0.77, "m": 0.4, "none_args": False}, {"a": 0.77, "c": 0.13, "m": 0.4, "none_args": False},
                          {"a": 0.0, "c": 1.0, "m": 0.5, "none_args": True}],
                "discretize": [{"a": 0.8, "c": 0.2, "count": 7, "none_args": False}],
                "queries": [{"t": 0.5, "dir": [0.0, 0.0, 1.0], "dist": 0.02}],
            })
    # closest point = a defining point of a polyline seen from its convex side (a kink of the distance function)
    out.append({
        "mode": "curve",
        "curve": {"kind": "linear", "family": "fixed", "equalize": False,
                  "points": [[2.3164637568353412, 0.058009947750730984, -1.8715452336475455],
                             [-1.510220658662356, -0.7130637490892946, 1.2783055944848103],
                             [-1.4362457920349234, -0.7116277326823975, 1.9379079963881805],
                             [-1.1453971363774262, -0.5218791703557348, 2.8608068377961304]]},
        "pairs": [{"a": 0.2, "c": 0.9, "m": 0.5, "none_args": False}],
        "discretize": [{"a": 0.0, "c": 1.0, "count": 5, "none_args": False}],
        "queries": [{"t": 0.3333, "dir": [0.0, 0.0, 1.0], "dist": 0.1,
                     "point": [-2.1440824223352264, -0.8260743733798642, 1.0131209804942993]}],
    })
    return out


# ================================================================================================
# judging
# ================================================================================================
def _spacing(ref):
    if ref.kind not in xr.POINT_KINDS:
        return "n/a", 1.0
    seg = ref.seg[ref.seg > 0]
    ratio = float(seg.max() / seg.min())
    return ("even" if ratio < 2 else "uneven" if ratio < 5 else "very-uneven"), ratio


def _par(ref, frac):
    """fraction of the bounds -> parameter (discrete: the integer itself)"""
    if ref.kind == "discrete":
        return int(frac)
    if frac == 0.0:
        return ref.lo
    if frac == 1.0:
        return ref.hi
    return ref.lo + frac * (ref.hi - ref.lo)


def run_case(ctx, case):
    import classy_blocks as cb

    spec = case["curve"]
    kind = spec["kind"]
    if kind in xr.POINT_KINDS and case.get("caller_array"):
        # history: the curve is built from a float array the caller goes on using (rows of a bigger table, the output of
        # another curve's discretize()); the caller then edits that array in place - the curve keeps ITS defining points
        arr = np.array(spec["points"], dtype=float)
        lib = xr.build_curve(dict(spec, points=arr), cb)
        arr += 7.7 * (1.0 + float(np.max(np.abs(arr))))
        ctx.count("history:caller-edited-the-array-the-curve-was-built-from")
    else:
        lib = xr.build_curve(spec, cb)
    pre = case.get("pre") if kind in xr.POINT_KINDS else None
    if pre:
        # history: the long-lived curve is queried once, then sheared / stretched through its own methods; every clause
        # is then judged against the defining points the curve holds NOW (nothing derived at construction may survive)
        try:
            lib.get_length()
        except Exception:  # noqa: BLE001
            pass
        size0 = float(np.linalg.norm(np.ptp(np.array(spec["points"], dtype=float), axis=0)))
        for step in pre:
            if step[0] == "shear":
                lib.shear(step[1], [x * size0 for x in step[2]], step[3], step[4])
            elif step[0] == "translate":
                lib.translate([x * size0 for x in step[1]])
            elif step[0] == "scale":
                lib.scale(step[1], [x * size0 for x in step[2]])
        now = np.array(lib.array.points if hasattr(lib.array, "points") else lib.array, dtype=float)
        if now.shape != np.array(spec["points"]).shape or not np.all(np.isfinite(now)):
            ctx.violation(f"transformed-curve-lost-its-points:{kind}", f"{pre}: points now {now.tolist()}")
            return
        seg = np.linalg.norm(now[1:] - now[:-1], axis=1)
        if float(seg.min()) < 1e-3 * float(seg.max()):
            ctx.count("skipped:pre-transform-collapsed-a-segment")
            return
        spec = dict(spec, points=[[float(x) for x in p] for p in now])
        ctx.count("history:curve-sheared-or-stretched-before-judging")
    ref = xr.Ref(spec, lib)
    ctx.count(f"kind:{kind}")
    if kind == "circle" and float(np.linalg.norm(np.array(spec["origin"], dtype=float) - ref.o)) > 1e-9 * (1 + ref.radius):
        ctx.count("circle:origin-elsewhere-on-the-axis")
    spacing, ratio = _spacing(ref)
    if spacing != "even" and kind in xr.POINT_KINDS:
        ctx.count("spacing:uneven")
    tolp = 1e-9 * (ref.size + float(np.abs(ref.dense).max()))
    env = {"cb": cb, "lib": lib, "ref": ref, "kind": kind, "tolp": tolp, "eq": spec.get("equalize"),
           "tag": kind + (":equalized" if spec.get("equalize") else ":uniform" if kind in ("linear", "spline") else "")}
    env["deficit"] = max(0.0, ref.L - geom.polyline_length(ref.pts)) if kind == "spline" else 0.0

    if not _judge_points(ctx, env):
        return
    if case["mode"] == "curve":
        pair_classes = _judge_lengths(ctx, env, case["pairs"])
        _judge_discretize(ctx, env, case["discretize"])
        query_classes = _judge_closest(ctx, env, case["queries"])
        nontrivial = spacing != "even" or any(c != "full-fwd" for c in pair_classes)
        ctx.key(["curve", env["tag"], spec.get("family") or (spec.get("fn") or {}).get("name") or bool(spec.get("bounds")),
                 spacing, len(spec.get("points", [])) // 3, sorted(pair_classes), sorted(query_classes)], nontrivial=nontrivial)
        ctx.sample({"curve": spec, "pairs": case["pairs"], "queries": case["queries"][:2]})
    else:
        _judge_edge(ctx, env, case["edge"], spacing)


# ---- points: the definition, the defining points -----------------------------------------------------------
def _judge_points(ctx, env):
    lib, ref, kind, tolp = env["lib"], env["ref"], env["kind"], env["tolp"]
    ctx.evaluated()
    if kind == "discrete":
        for i in range(len(ref.pts)):
            if not (geom.dist(lib.get_point(i), ref.pts[i]) <= tolp):
                ctx.violation("point-off-definition:discrete", f"get_point({i}) = {lib.get_point(i)} but point {i} is {ref.pts[i]}")
                return False
        ctx.count("judged:point-on-definition")
        return True
    fr = [0.0, 1.0, 0.5, 0.2113, 0.7887, 0.0391, 0.9609]
    for f in fr:
        t = _par(ref, f)
        p = np.asarray(lib.get_point(t), dtype=float)
        if kind == "linear":
            d = xr.polyline_project(ref.pts, ref.cum, p)[1]
        else:
            d = geom.dist(p, ref.point(t))
        if not d <= tolp:
            what = "lies off the polyline through the defining points" if kind == "linear" else \
                "differs from the interpolant's own value" if kind == "spline" else "differs from the defining formula"
            ctx.violation(f"point-off-definition:{kind}", f"{_desc(env)}: get_point({t}) = {p} {what} by {d:.3e}")
            return False
    ctx.count("judged:point-on-definition")
    if kind not in ("linear", "spline"):
        return True
    # an interpolated curve passes through its defining points
    ctx.evaluated()
    for i, pt in enumerate(ref.pts):
        t = float(ref.knots[i])
        d = geom.dist(lib.get_point(min(max(t, 0.0), 1.0)), pt)
        if d <= tolp:
            continue
        # perhaps at another parameter: dense search on the REAL get_point, refined
        ts = np.linspace(0, 1, 801)
        dd = [geom.dist(lib.get_point(x), pt) for x in ts]
        j = int(np.argmin(dd))
        _, best = xr._golden(lambda x: geom.dist(lib.get_point(x), pt), ts[max(j - 1, 0)], ts[min(j + 1, 800)])
        best = min(best, dd[j])
        if best > 1e-6 * ref.size:
            ctx.violation(f"misses-defining-point:{env['tag']}",
                          f"{_desc(env)}: defining point {i} {pt.tolist()} is {best:.3e} away from the curve (documented parameter "
                          f"{t}: get_point gives {np.asarray(lib.get_point(t)).tolist()})")
            return False
        ctx.count("through:passes-at-other-parameter")
    ctx.count("judged:through-defining-points")
    return True


def _desc(env):
    spec = env["ref"].spec
    if env["kind"] in xr.POINT_KINDS:
        return f"{env['tag']} curve through {[[round(x, 6) for x in p] for p in spec['points']]}"
    return f"{env['kind']} curve {({k: v for k, v in spec.items() if k != 'kind'})}"


# ---- lengths -----------------------------------------------------------------------------------------------
def _ref_length(env, a, c):
    """reference length between the parameters; for the linear-interpolated curve independent of the parametrisation:
    arc distance on the polyline between the REAL curve's points for a and c (both verified to lie on it)"""
    ref, lib = env["ref"], env["lib"]
    if env["kind"] == "linear":
        return abs(ref.coord(a, lib.get_point(a)) - ref.coord(c, lib.get_point(c)))
    return ref.length(a, c)


def _call_length(ctx, env, a, c, none_args=False):
    try:
        if none_args:
            return float(env["lib"].get_length())
        return float(env["lib"].get_length(a, c))
    except (ValueError, IndexError) as err:
        ctx.violation(f"length-raises:{env['kind']}:{type(err).__name__}", f"{_desc(env)}: get_length({a}, {c}) raised {err!r}")
        return None


def _judge_lengths(ctx, env, pairs):
    ref, kind = env["ref"], env["kind"]
    exact = kind in xr.EXACT_KINDS
    classes = []
    coarse = env["deficit"] > 0.02 * ref.L
    for pr in pairs:
        a, c = _par(ref, pr["a"]), _par(ref, pr["c"])
        m = None if pr["m"] is None else _par(ref, pr["m"])
        if pr.get("zero_a") and kind != "discrete" and ref.lo < -1e-9 and ref.hi > 1e-9 and abs(c) > 0.02 * (ref.hi - ref.lo):
            # the parameter value 0.0 itself, inside bounds that do not start at 0
            a = 0.0
            if m is not None:
                m = c * 0.4
            ctx.count("pair:start-parameter-exactly-zero-inside-nonzero-bounds")
        rev = (a > c)
        full = {a, c} == {ref.lo, ref.hi}
        aligned = False
        if kind in ("linear", "spline"):
            seg = len(ref.pts) - 1
            aligned = any(abs(x * seg - round(x * seg)) < 1e-12 or float(np.abs(ref.knots - x).min()) < 1e-12 for x in (a, c)) and not full
        cls = ("full" if full else "knot-aligned" if aligned else "partial") + ("-rev" if rev else "-fwd")
        classes.append(cls)
        ctx.count("pair:" + ("full" if full else "knot-aligned" if aligned else cls))
        direction = "reversed" if rev else "forward"
        ctx.evaluated()
        lac = _call_length(ctx, env, a, c, pr.get("none_args"))
        if lac is None:
            continue
        lref = _ref_length(env, a, c)
        if exact:
            tol = 1e-9 * ref.L
            ctx.count("judged:length-exact")
            if not (abs(lac - lref) <= tol):
                ctx.violation(f"length-not-polyline:{env['kind']}:{direction}",
                              f"{_desc(env)}: get_length({a}, {c}) = {lac!r} but the polyline between the two curve points measures {lref!r}")
                continue
        elif not coarse:
            tol = 0.02 * lref + 1.1 * env["deficit"] + 1e-9 * ref.L
            ctx.count("judged:length-vs-dense")
            if not (abs(lac - lref) <= tol):
                ctx.violation(f"length-vs-dense:{env['kind']}:{direction}",
                              f"{_desc(env)}: get_length({a}, {c}) = {lac!r}, dense reference {lref!r} (tolerance {tol:.3e}, "
                              f"chord deficit of the defining points {env['deficit']:.3e})")
                continue
        else:
            ctx.count("length:skipped-coarse-point-set")
        if pr.get("none_args"):
            # bounds are the default arguments; the `length` property is the same number
            l2, l3 = _call_length(ctx, env, ref.lo, ref.hi), float(env["lib"].length)
            if l2 is not None and not (abs(l2 - lac) <= 1e-12 * ref.L and abs(l3 - lac) <= 1e-12 * ref.L):
                ctx.violation(f"length-defaults:{env['kind']}", f"{_desc(env)}: get_length()={lac!r}, get_length(bounds)={l2!r}, .length={l3!r}")
        if m is None:
            continue
        lam, lmc = _call_length(ctx, env, a, m), _call_length(ctx, env, m, c)
        if lam is None or lmc is None:
            continue
        if exact:
            ctx.count("judged:additive-exact")
            bad = abs(lac - lam - lmc) > 1e-9 * ref.L
        elif not coarse:
            ctx.count("judged:additive-approx")
            bad = abs(lac - lam - lmc) > 0.02 * lref + 1.1 * env["deficit"] + 1e-9 * ref.L
        else:
            bad = False
        if bad:
            ctx.violation(f"length-not-additive:{env['kind']}:{direction}",
                          f"{_desc(env)}: L({a},{c}) = {lac!r} but L({a},{m}) + L({m},{c}) = {lam!r} + {lmc!r} = {lam + lmc!r}")
    return classes


# ---- discretize --------------------------------------------------------------------------------------------
def _judge_discretize(ctx, env, probes):
    lib, ref, kind, tolp = env["lib"], env["ref"], env["kind"], env["tolp"]
    for pr in probes:
        a, c = _par(ref, pr["a"]), _par(ref, pr["c"])
        ctx.evaluated()
        if pr.get("none_args"):
            pts = np.asarray(lib.discretize(), dtype=float)
            call = "discretize()"
        else:
            pts = np.asarray(lib.discretize(a, c, pr["count"]), dtype=float)
            call = f"discretize({a}, {c}, {pr['count']})"
        if pts.ndim != 2 or pts.shape[1] != 3 or len(pts) < 2:
            ctx.violation(f"discretize-shape:{kind}", f"{_desc(env)}: {call} returned an array of shape {pts.shape}")
            continue
        pa, pc = np.asarray(lib.get_point(a), dtype=float), np.asarray(lib.get_point(c), dtype=float)
        ctx.count("judged:discretize-ends")
        if not (geom.dist(pts[0], pa) <= tolp and geom.dist(pts[-1], pc) <= tolp):
            ctx.violation(f"discretize-ends:{kind}:{'reversed' if a > c else 'forward'}",
                          f"{_desc(env)}: {call} runs from {pts[0].tolist()} to {pts[-1].tolist()} but get_point gives "
                          f"{pa.tolist()} and {pc.tolist()}")
            continue
        if kind == "discrete":
            want = ref.pts[a: c + 1] if a <= c else ref.pts[c: a + 1][::-1]
            ctx.count("judged:discretize-interior")
            if len(want) != len(pts) or float(np.abs(want - pts).max()) > tolp:
                ctx.violation("discretize-interior:discrete", f"{_desc(env)}: {call} = {pts.tolist()}")
            continue
        # interior points: on the curve, between the two parameters, in order
        idx = list(range(len(pts))) if len(pts) <= 7 else sorted({0, len(pts) - 1, *np.linspace(1, len(pts) - 2, 5).astype(int).tolist()})
        _on_curve_in_order(ctx, env, [pts[i] for i in idx], a, c, max(tolp, 1e-9 * ref.size), f"discretize-interior:{kind}", call)
        ctx.count("judged:discretize-interior")


def _on_curve_in_order(ctx, env, pts, a, c, tol, mech, what):
    """pts[0] is the curve point of parameter a, pts[-1] that of c (established by the caller); the points in between
    must lie on the part of the reference curve between the two parameters and follow each other from a to c"""
    ref = env["ref"]
    ca, cc = ref.coord(a, pts[0]), ref.coord(c, pts[-1])
    lo, hi = min(ca, cc), max(ca, cc)
    slack = 1e-3 * (hi - lo) + 1e-9 * (abs(lo) + abs(hi) + 1)
    coords = [ca]
    for p in pts[1:-1]:
        s, d = ref.project(p, lo - slack, hi + slack)
        if not d <= tol:
            ctx.violation(mech + ":not-on-curve-between-parameters",
                          f"{_desc(env)}: {what}: point {np.asarray(p).tolist()} is {d:.3e} away from the part of the curve "
                          f"between the two end parameters {a}, {c}")
            return False
        coords.append(s)
    coords.append(cc)
    sign = 1 if cc >= ca else -1
    steps = [sign * (coords[i + 1] - coords[i]) for i in range(len(coords) - 1)]
    if any(st < 1e-6 * (hi - lo) for st in steps):
        # every point lies strictly after its predecessor (a point repeating a vertex, or a reversed list, does not)
        ctx.violation(mech + ":out-of-order", f"{_desc(env)}: {what}: curve coordinates {coords} do not advance from {ca} to {cc}")
        return False
    return True


# ---- closest parameter -------------------------------------------------------------------------------------
def _judge_closest(ctx, env, queries):
    lib, ref, kind = env["lib"], env["ref"], env["kind"]
    classes = []
    for q in queries:
        if kind == "discrete":
            base = ref.pts[min(int(q["t"] * len(ref.pts)), len(ref.pts) - 1)]
        else:
            base = ref.point(_par(ref, q["t"]))
        query = base + np.asarray(q["dir"]) * (q["dist"] * ref.size)
        if q.get("point") is not None:
            query = np.asarray(q["point"], dtype=float)  # fixed cases give the query itself
        ctx.evaluated()
        p = lib.get_closest_param(query)
        try:
            p = float(p)
        except (TypeError, ValueError):
            ctx.violation(f"closest-not-a-number:{kind}", f"{_desc(env)}: get_closest_param({query.tolist()}) = {p!r}")
            continue
        eps = 1e-12 * (abs(ref.lo) + abs(ref.hi) + 1)
        if not (math.isfinite(p) and ref.lo - eps <= p <= ref.hi + eps):
            ctx.violation(f"closest-out-of-bounds:{kind}", f"{_desc(env)}: get_closest_param({query.tolist()}) = {p!r}, bounds {ref.lo}..{ref.hi}")
            continue
        p = min(max(p, ref.lo), ref.hi)
        if kind == "discrete":
            if abs(p - round(p)) > 1e-9:
                ctx.violation("closest-not-an-index:discrete", f"{_desc(env)}: get_closest_param({query.tolist()}) = {p!r}")
                continue
            p = int(round(p))
        dp = geom.dist(lib.get_point(p), query)
        dstar, width, tstar = ref.profile(query)
        near = dstar <= NEAR * ref.size
        if not near:
            ctx.count("closest:far-weak")
            classes.append("far")
            continue
        if kind != "discrete" and width < RES_WIDTH:
            ctx.count("closest:near-but-not-resolvable")
            classes.append("ambiguous")
            continue
        on = q["dist"] == 0.0
        cls = "on-curve" if on else "near"
        classes.append(cls)
        ctx.count(f"judged:closest:{cls}")
        if width < 0.999:
            ctx.count("closest:multimodal-judged")
        tol = 1e-4 * ref.size if kind != "discrete" else 1e-12 * ref.size
        if not (dp <= dstar + tol):
            where = ""
            if kind == "linear":
                # structural feature for the finding key: is the true closest point one of the defining points (where the
                # distance along a polyline has a kink)?
                # (tstar is the best of the dense samples, so "is" means within two sample steps of a knot parameter)
                step = (ref.hi - ref.lo) / 2000.0
                if min(abs(tstar - kn) for kn in ref.knots) <= 2 * step:
                    where = ":closest-point-is-a-defining-point"
            ctx.violation(f"closest-not-closest:{kind}:{cls}{where}",
                          f"{_desc(env)}: get_closest_param({query.tolist()}) = {p!r} whose point is {dp!r} away, but the "
                          f"curve point at parameter {tstar!r} is only {dstar!r} away (size {ref.size:.4g}, resolvable width {width:.3f})")
    return classes


# ---- an edge snapped to the curve --------------------------------------------------------------------------
def _judge_edge(ctx, env, e, spacing):
    cb, lib, ref, kind = env["cb"], env["lib"], env["ref"], env["kind"]
    t1, t2 = _par(ref, e["t1"]), _par(ref, e["t2"])
    # the two vertices: the REAL curve's points for t1, t2 (verified against the definition above)
    pa, pb = np.asarray(lib.get_point(t1), dtype=float), np.asarray(lib.get_point(t2), dtype=float)
    if geom.dist(pa, pb) < 0.02 * ref.size:
        ctx.count("edge:skipped-ends-coincide")  # closed curve from seam to seam: not an edge
        return
    # resolvable vertices only (the closest-parameter clause is judged on its own; here it is a prerequisite)
    for p in (pa, pb):
        if kind == "discrete":
            resolvable = int(np.count_nonzero(np.linalg.norm(ref.pts - p, axis=1) < 1e-6 * ref.size)) == 1
        else:
            resolvable = ref.profile(p)[1] >= RES_WIDTH
        if not resolvable:
            ctx.count("edge:skipped-vertex-not-resolvable")  # e.g. the seam of a closed curve
            return
    corners = xr.place_hex(e["k"], e["swap"], pa, pb, e["seed"], e["w"], e["h"])
    i, j = hexconv.EDGES[e["k"]]
    data = cb.OnCurve(lib, n_points=e["n_points"], representation=e["repr"])
    op = cb.Loft(cb.Face(corners[:4]), cb.Face(corners[4:]))
    lo_c, hi_c = min(i, j), max(i, j)
    # the slot is addressed from whichever corner the API names it by; the closing edges 3-0 / 7-4 from corner 3
    if hi_c < 4:
        op.bottom_face.add_edge(3 if {i, j} == {0, 3} else lo_c, data)
    elif lo_c >= 4:
        op.top_face.add_edge(3 if {i, j} == {4, 7} else lo_c - 4, data)
    else:
        op.add_side_edge(lo_c, data)
    for axis in range(3):
        op.chop(axis, count=e["counts"][axis])
    mesh = cb.Mesh()
    mesh.add(op)
    path = util.tmpfile("c16")
    ctx.evaluated()
    try:
        mesh.write(path)
        parsed = foamdict.read_blockmesh(path)
    except foamdict.ParseError as perr:
        ctx.violation(f"edge-file-unparsable:{kind}", str(perr))
        return
    finally:
        util.rm(path)
    ctx.key(["edge", env["tag"], spacing, e["k"], bool(e["swap"]), t2 > t1, e["repr"], min(e["n_points"], 3)])
    ctx.sample({"curve": ref.spec, "edge": e})

    def vertex_at(p):
        for n, v in enumerate(parsed["vertices"]):
            if geom.dist(v["pos"], p) < 1e-6 * max(1.0, ref.size):
                return n
        return None

    va, vb = vertex_at(pa), vertex_at(pb)
    entry = [x for x in parsed["edges"] if {x["a"], x["b"]} == {va, vb}]
    if va is None or vb is None or len(entry) != 1 or len(parsed["edges"]) != 1:
        ctx.violation(f"edge-entry:{kind}", f"{_desc(env)}: OnCurve edge between {pa.tolist()} and {pb.tolist()} (slot {e['k']}): "
                                            f"written edges {parsed['edges']}")
        return
    entry = entry[0]
    if entry["kind"] != e["repr"]:
        ctx.violation(f"edge-representation:{kind}", f"asked for {e['repr']}, written {entry['kind']}")
        return
    first, last = (pa, pb) if entry["a"] == va else (pb, pa)
    ta, tb = (t1, t2) if entry["a"] == va else (t2, t1)
    pts = [first, *[np.asarray(p, dtype=float) for p in entry["points"]], last]
    along = tb > ta  # does the written entry (vertex a -> vertex b) run along increasing parameter?
    ctx.count("edge:along-curve-direction" if along else "edge:against-curve-direction")
    ctx.count("judged:edge-points")
    if kind != "discrete" and len(entry["points"]) < 1:
        ctx.violation(f"edge-points:{kind}:none-written", f"{_desc(env)}: OnCurve(n_points={e['n_points']}) written without points")
        return
    tol_on = 1e-7 * max(1.0, ref.size)
    if not _on_curve_in_order(ctx, env, pts, ta, tb, tol_on, f"edge-points:{kind}",
                              f"edge written as {entry['kind']} {entry['a']} {entry['b']} with {len(entry['points'])} points for "
                              f"vertices at parameters {ta} -> {tb}"):
        return
    # the Edge object's length = curve length between the two vertices
    edges = [ed for ed in mesh.edge_list.edges if ed.kind == "curve"]
    if len(edges) != 1:
        ctx.violation(f"edge-entry:{kind}", f"{len(edges)} curve edges in the mesh's edge list")
        return
    try:
        length = float(edges[0].length)
    except (ValueError, IndexError) as err:
        ctx.violation(f"edge-length-raises:{env['kind']}:{type(err).__name__}", f"{_desc(env)}: Edge.length raised {err!r} for vertices at parameters {ta}, {tb}")
        return
    lref = _ref_length(env, t1, t2)
    direction = "against" if not along else "along"
    if kind in xr.EXACT_KINDS:
        ctx.count("judged:edge-length-exact")
        tol = 1e-6 * ref.L
    else:
        if env["deficit"] > 0.02 * ref.L:
            ctx.count("length:skipped-coarse-point-set")
            return
        ctx.count("judged:edge-length-approx")
        tol = 0.02 * lref + 1.1 * env["deficit"] + 1e-6 * ref.L
    if not (abs(length - lref) <= tol):
        ctx.violation(f"edge-length:{env['kind']}:{direction}-curve-direction",
                      f"{_desc(env)}: OnCurve edge from parameter {ta} to {tb}: Edge.length = {length!r}, curve length between the "
                      f"vertices {lref!r} (tolerance {tol:.3e})")
        return
    # ---- history: the mesh was written; now the vertex at t2 is moved along the curve and the edge is read again.
    # The points / length must follow the vertex (nothing about the first reading may be remembered).
    if e["n_points"] % 2 == 0 and kind != "discrete":
        t3 = t1 + 0.55 * (t2 - t1)
        p3 = np.asarray(lib.get_point(t3), dtype=float)
        if geom.dist(p3, pa) > 0.02 * ref.size and ref.profile(p3)[1] >= RES_WIDTH:
            edge = edges[0]
            moved = edge.vertex_2 if geom.dist(edge.vertex_2.position, pb) < 1e-9 * max(1.0, ref.size) else edge.vertex_1
            moved.move_to(p3)
            ctx.count("judged:edge-after-vertex-move")
            first2, last2 = np.asarray(edge.vertex_1.position, dtype=float), np.asarray(edge.vertex_2.position, dtype=float)
            ta2, tb2 = (t1, t3) if moved is edge.vertex_2 else (t3, t1)
            pts2 = [first2, *[np.asarray(p, dtype=float) for p in edge.point_array], last2]
            if not _on_curve_in_order(ctx, env, pts2, ta2, tb2, tol_on, f"edge-points-after-vertex-move:{kind}",
                                      f"after moving the vertex from parameter {t2} to {t3}: {len(pts2) - 2} points for vertices at {ta2} -> {tb2}"):
                return
            l2 = float(edge.length)
            lref2 = _ref_length(env, t1, t3)
            tol2 = 1e-6 * ref.L if kind in xr.EXACT_KINDS else 0.02 * lref2 + 1.1 * env["deficit"] + 1e-6 * ref.L
            if not (abs(l2 - lref2) <= tol2):
                ctx.violation(f"edge-length-after-vertex-move:{env['kind']}",
                              f"{_desc(env)}: after moving the vertex from parameter {t2} to {t3}: Edge.length = {l2!r}, curve length "
                              f"between the vertices {lref2!r}")
