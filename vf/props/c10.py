"""C10 — face re-indexing and side / edge / corner addressing hit the intended geometry (DESIGN 3/C10).

Part A: identity-map monitor on Face.invert / shift / reorient (edge signature <-> unordered pair of end
positions must be invariant; first point nearest; normal flips only on invert).
Part B: hexconv-table oracle for every way of addressing a side, an edge or a corner of an operation, observed
in the written file of a single operation (so vertex index == local corner number)."""

import numpy as np

from vf import foamdict, geom, hexconv, util
from vf.props.c07 import make_hex

ID = "C10"
BUDGET = {"quick": 3000, "thorough": 100000}
REQUIRED = ["A:invert", "A:shift", "A:reorient", "A:reorient-nearest-is-corner-1-or-3", "B:set_patch", "B:project_side",
            "B:project_side+edges", "B:project_side+points", "B:get_face", "B:project_edge", "B:face.add_edge", "B:add_side_edge",
            "B:project_corner", "B:sequence", "A:corner-projected-before-the-calls", "B:queried-between-calls",
            "B:probe-operation-after-addressing-calls", "B:project_edge-with-a-reused-label-list", "A:small-or-large-length-unit"]
MIN_KEYS = 150
RULE = (
    "A: quadrilaterals in general position with four distinguishable edges (Arc / Origin / Project / Spline / Line), sequences "
    "of 1-5 calls of invert / shift(-4..4) / reorient(towards each corner + noise). B: exhaustive grid 6 sides x {set_patch, "
    "project_side (+-edges, +-points), get_face}, 12 edges x {project_edge in both corner orders, Face.add_edge / add_side_edge}, "
    "8 corners x project_corner on a hexahedron in general position, plus random sequences of such calls; observed in the "
    "written file. distinct by (part, call kinds / address)"
)
ASSUMPTIONS = [
    "side names follow the blockMesh sketch: bottom/top = x3-/x3+, left/right = x1-/x1+, front/back = x2-/x2+ (hexconv.SIDES)",
    "Face edge i joins point i and i+1; shift and reorient keep the sense of rotation (normal), invert flips it",
]


def newell_normal(pts):
    pts = np.array(pts)
    c = pts.mean(axis=0)
    n = np.zeros(3)
    for i in range(4):
        n += np.cross(pts[i] - c, pts[(i + 1) % 4] - c)
    return n / np.linalg.norm(n)


def gen_quad(rng):
    fr = geom.orthonormal_frame(rng)
    off = np.array(geom.rand_vec(rng, -4, 4))
    base = [(-1, -1), (1, -1), (1, 1), (-1, 1)]
    return [list(off + fr[0] * (x * rng.uniform(0.6, 1.6)) + fr[1] * (y * rng.uniform(0.6, 1.6)) + fr[2] * rng.uniform(-0.15, 0.15)) for x, y in base]


def fixed_cases(tier):
    import random

    out = []
    n = 0
    for side in hexconv.SIDE_NAMES:
        for call in ("set_patch", "project_side", "project_side+edges", "project_side+points", "project_side+edges+points", "get_face"):
            out.append({"part": "B", "pts": make_hex(random.Random(f"c10/{n}")), "calls": [[call, side]]})
            n += 1
    for e in hexconv.EDGES:
        for order in (0, 1):
            c = list(e) if order == 0 else [e[1], e[0]]
            out.append({"part": "B", "pts": make_hex(random.Random(f"c10/{n}")), "calls": [["project_edge", c[0], c[1]]]})
            n += 1
        out.append({"part": "B", "pts": make_hex(random.Random(f"c10/{n}")), "calls": [["add_edge", e[0], e[1]]]})
        n += 1
    for c in range(8):
        out.append({"part": "B", "pts": make_hex(random.Random(f"c10/{n}")), "calls": [["project_corner", c]]})
        n += 1
    # part A: every shift count and every reorient target on seeded quads
    for k in range(-4, 5):
        out.append({"part": "A", "quad": gen_quad(random.Random(f"c10/A/{k}")), "calls": [["shift", k]], "kinds": ["arc", "origin", "project", "spline"]})
    for j in range(4):
        for pre in ([], [["invert"]], [["shift", 1]]):
            out.append({"part": "A", "quad": gen_quad(random.Random(f"c10/A/r{j}")), "calls": pre + [["reorient", j, [0.05, -0.04, 0.03]]],
                        "kinds": ["arc", "origin", "project", "spline"]})
    # projected corners carried through re-indexing; calls interleaved with read-only queries
    for k in (1, 2, 3, -1):
        out.append({"part": "A", "quad": gen_quad(random.Random(f"c10/A/p{k}")), "calls": [["shift", k]], "kinds": ["arc", "origin", "line", "spline"],
                    "corner_labels": ["cgA", None, "cgB", None]})
    for j in (1, 3):
        out.append({"part": "A", "quad": gen_quad(random.Random(f"c10/A/q{j}")), "calls": [["reorient", j, [0.05, -0.04, 0.03]], ["invert"]],
                    "kinds": ["arc", "origin", "line", "spline"], "corner_labels": [None, "cgA", None, None]})
    for e1, e2 in (((0, 1), (2, 3)), ((4, 5), (1, 5)), ((0, 4), (6, 7))):
        out.append({"part": "B", "pts": make_hex(random.Random(f"c10/sl/{e1}")), "query_between": False,
                    "calls": [["project_edge_list", e1[0], e1[1]], ["project_edge_list", e2[0], e2[1]], ["project_edge", e1[0], e1[1]]]})
    for k, unit in enumerate((1e-2, 2e-4, 2e-4, 300.0)):
        out.append({"part": "A", "quad": gen_quad(random.Random(f"c10/A/u{k}")), "calls": [["reorient", (k + 1) % 4, [0.05, -0.04, 0.03]]],
                    "kinds": ["arc", "origin", "polyline", "spline"], "unit": unit})
    out.append({"part": "A", "quad": gen_quad(random.Random("c10/A/pl")), "calls": [["invert"], ["shift", 1], ["invert"]],
                "kinds": ["polyline", "arc", "line", "polyline"]})
    for a, b in (("bottom", "top"), ("left", "front"), ("right", "back")):
        out.append({"part": "B", "pts": make_hex(random.Random(f"c10/q/{a}")), "calls": [["set_patch", a], ["set_patch", b], ["project_side", a]],
                    "query_between": True})
    return out


def gen_case(ctx):
    rng = ctx.rng
    if rng.random() < 0.5:
        calls = []
        for _ in range(rng.randint(1, 5)):
            u = rng.random()
            if u < 0.3:
                calls.append(["invert"])
            elif u < 0.6:
                calls.append(["shift", rng.randint(-4, 4)])
            else:
                calls.append(["reorient", rng.randrange(4), [rng.uniform(-0.12, 0.12) for _ in range(3)]])
        kinds = [rng.choice(["arc", "origin", "project", "spline", "polyline", "line"]) for _ in range(4)]
        if kinds.count("line") > 1:
            kinds = ["arc", "origin", rng.choice(["project", "polyline"]), "line"]
            rng.shuffle(kinds)
        labels = [rng.choice([None, None, f"cg{i}"]) for i in range(4)] if rng.random() < 0.6 else None
        return {"part": "A", "quad": gen_quad(rng), "calls": calls, "kinds": kinds, "corner_labels": labels,
                "unit": rng.choices([1.0, 1e-2, 2e-4, 300.0], [0.55, 0.15, 0.2, 0.1])[0]}
    calls = []
    used_sides, used_corners = set(), set()
    edge_use = {}  # frozenset(edge) -> "arc" | number of projection labels (an edge takes at most 2)

    def side_edges(s):
        return [frozenset(e) for e in hexconv.EDGES if set(e) <= hexconv.SIDES[s]]

    for _ in range(rng.randint(2, 5)):
        u = rng.random()
        if u < 0.4:
            s = rng.choice(hexconv.SIDE_NAMES)
            call = rng.choice(["set_patch", "project_side", "project_side+edges", "project_side+points", "get_face"])
            if (call.split("+")[0], s) in used_sides:
                continue
            if "edges" in call:
                if any(edge_use.get(e) == "arc" or (edge_use.get(e) or 0) >= 2 for e in side_edges(s)):
                    continue
                for e in side_edges(s):
                    edge_use[e] = (edge_use.get(e) or 0) + 1
            used_sides.add((call.split("+")[0], s))
            calls.append([call, s])
        elif u < 0.75:
            e = rng.choice(hexconv.EDGES)
            fe = frozenset(e)
            if rng.random() < 0.5:
                if edge_use.get(fe) == "arc" or (edge_use.get(fe) or 0) >= 2:
                    continue
                edge_use[fe] = (edge_use.get(fe) or 0) + 1
                c = list(e) if rng.random() < 0.5 else [e[1], e[0]]
                calls.append(["project_edge" if rng.random() < 0.7 else "project_edge_list", c[0], c[1]])
            else:
                if fe in edge_use:
                    continue
                edge_use[fe] = "arc"
                calls.append(["add_edge", e[0], e[1]])
        else:
            c = rng.randrange(8)
            if c in used_corners:
                continue
            used_corners.add(c)
            calls.append(["project_corner", c])
    if not calls:
        calls = [["set_patch", "top"]]
    return {"part": "B", "pts": make_hex(rng), "calls": calls, "query_between": rng.random() < 0.5}


# -------------------------------------------------------------------------------------------------
def run_case(ctx, case):
    if case["part"] == "A":
        run_a(ctx, case)
    else:
        run_b(ctx, case)


def edge_sig(e):
    k = e.kind
    if k == "arc":
        return ("arc", tuple(np.round(e.point.position, 9)))
    if k == "origin":
        return ("origin", tuple(np.round(e.origin.position, 9)))
    if k == "project":
        return ("project", tuple(e.label))
    if k in ("spline", "polyLine"):
        pts = e.curve.discretize()
        return (k, tuple(sorted(tuple(np.round(p, 9)) for p in pts)))
    return ("line",)


def run_a(ctx, case):
    import classy_blocks as cb

    unit = float(case.get("unit", 1.0))  # the same face in another length unit (a 0.2 mm channel modelled in metres)
    q = [np.array(p) * unit for p in case["quad"]]
    if unit != 1.0:
        ctx.count("A:small-or-large-length-unit")
    edges = []
    for i, k in enumerate(case["kinds"]):
        a, b = q[i], q[(i + 1) % 4]
        m = (a + b) / 2
        bulge = np.cross(b - a, newell_normal(q)) * 0.2
        if k == "arc":
            edges.append(cb.Arc(list(m + bulge * (1 + 0.1 * i))))
        elif k == "origin":
            edges.append(cb.Origin(list(m - bulge * 6 * (1 + 0.1 * i))))
        elif k == "project":
            edges.append(cb.Project(f"geo{i}"))
        elif k == "spline":
            edges.append(cb.Spline([list(a + (b - a) * 0.2 + bulge), list(a + (b - a) * 0.5 + bulge * 1.3)]))
        elif k == "polyline":
            edges.append(cb.PolyLine([list(a + (b - a) * 0.3 + bulge), list(a + (b - a) * 0.6 + bulge * 0.7)]))
        else:
            edges.append(None)
    face = cb.Face(q, edges)
    if int(abs(float(q[0][0])) * 1e6) % 3 == 0:
        kinds_before = [e.kind for e in face.edges]
        face.remove_edges([])  # a computed list of corners to clear that happens to be empty: nothing changes
        ctx.count("A:remove_edges-with-an-empty-list")
        if [e.kind for e in face.edges] != kinds_before:
            ctx.violation("A:remove_edges([]):edges-changed", f"edge kinds {kinds_before} became {[e.kind for e in face.edges]}")
            return
    # corners projected before the calls: a label belongs to a geometric corner, not to a slot
    for i, lb in enumerate(case.get("corner_labels") or []):
        if lb:
            face.points[i].project(lb)
            ctx.count("A:corner-projected-before-the-calls")

    def corner_labels():
        return {tuple(np.round(p.position / unit, 9)): sorted(p.projected_to) for p in face.points}

    labels0 = corner_labels()

    def state():
        pts = [p.position.copy() for p in face.points]
        m = {}
        for i in range(4):
            pair = frozenset((tuple(np.round(pts[i], 9)), tuple(np.round(pts[(i + 1) % 4], 9))))
            m.setdefault(edge_sig(face.edges[i]), []).append(pair)
        return pts, m

    pts0, map0 = state()
    ctx.evaluated()
    names = []
    for call in case["calls"]:
        before_pts, _ = state()
        n_before = newell_normal(before_pts)
        lib_before = np.array(face.normal, dtype=float)
        name = call[0]
        names.append(name if name != "shift" else f"shift{call[1]}")
        if name == "invert":
            face.invert()
        elif name == "shift":
            face.shift(call[1])
        else:
            target = np.array(before_pts[call[1]]) + np.array(call[2]) * unit
            face.reorient(list(target))
        ctx.count(f"A:{name}")
        pts, m = state()
        if sorted(map(tuple, np.round(pts, 9))) != sorted(map(tuple, np.round(pts0, 9))):
            ctx.violation(f"A:{name}:point-set-changed", f"{case['calls']}: {pts}")
            return
        if m != map0:
            ctx.violation(f"A:{name}:edge-moved-to-other-points", f"calls {case['calls']}: edge -> end-point map changed")
            return
        if corner_labels() != labels0:
            ctx.violation(f"A:{name}:corner-projection-moved-to-another-corner",
                          f"calls {case['calls']}: projections per corner position were {labels0}, now {corner_labels()}")
            return
        n_after = newell_normal(pts)
        dot = float(np.dot(n_before, n_after))
        # the face's own normal property (also of a non-planar face) flips with invert and is untouched by re-indexing
        lib_after = np.array(face.normal, dtype=float)
        ctx.count("A:face.normal-observed")
        ldot = float(np.dot(lib_before, lib_after)) / float(np.linalg.norm(lib_before) * np.linalg.norm(lib_after))
        if not ((ldot <= -1 + 1e-9) if name == "invert" else (ldot >= 1 - 1e-9)):
            ctx.violation(f"A:{name}:face.normal-" + ("not-flipped" if name == "invert" else "changed"),
                          f"calls {case['calls']}: face.normal was {lib_before.tolist()}, is {lib_after.tolist()} (cosine {ldot})")
            return
        if name == "invert" and dot > -0.999:
            ctx.violation("A:invert:normal-not-flipped", f"n.n' = {dot}")
            return
        if name != "invert" and dot < 0.999:
            ctx.violation(f"A:{name}:normal-changed", f"n.n' = {dot}")
            return
        # cyclic order preserved (same sense for shift / reorient, opposite for invert)
        idx = [next(j for j in range(4) if np.allclose(before_pts[j], p, atol=1e-12)) for p in pts]
        step = {(idx[(i + 1) % 4] - idx[i]) % 4 for i in range(4)}
        if step != ({3} if name == "invert" else {1}):
            ctx.violation(f"A:{name}:cyclic-order", f"old indexes in new order: {idx}")
            return
        if name == "reorient":
            d = [float(np.linalg.norm(np.array(p) - target)) for p in pts]
            if call[1] in (1, 3) or True:
                # which corner of the face before the call is nearest decides the class
                nearest_before = int(np.argmin([np.linalg.norm(np.array(p) - target) for p in before_pts]))
                if nearest_before in (1, 3):
                    ctx.count("A:reorient-nearest-is-corner-1-or-3")
            if int(np.argmin(d)) != 0:
                ctx.violation("A:reorient:first-point-not-nearest", f"target {list(target)}: distances of points 0..3 = {[round(x, 4) for x in d]}")
                return
        if name == "shift" and call[1] % 4 != 0 and idx == [0, 1, 2, 3] and False:
            pass
    ctx.key(["A", names[:3], sorted(case["kinds"])])
    ctx.sample({"part": "A", "calls": case["calls"], "kinds": case["kinds"]})


def run_b(ctx, case):
    import classy_blocks as cb

    pts = np.array(case["pts"], dtype=float)
    op = cb.Loft(cb.Face(pts[:4]), cb.Face(pts[4:]))
    for a in range(3):
        op.chop(a, count=1)
    exp_patches, exp_faces, exp_pedges, exp_pverts, exp_arcs = {}, {}, {}, {}, set()
    shared_list = ["gshared"]
    geo = {}
    names = []
    for n, call in enumerate(case["calls"]):
        kind = call[0]
        names.append(kind)
        ctx.count(f"B:{kind}" if not kind.startswith("project_side+") else "B:project_side")
        if kind == "set_patch":
            op.set_patch(call[1], f"p_{call[1]}")
            exp_patches[f"p_{call[1]}"] = hexconv.SIDES[call[1]]
        elif kind.startswith("project_side"):
            lb = f"g{n}"
            geo[lb] = ["type sphere", "origin (0 0 0)", "radius 30"]
            e, p = "edges" in kind, "points" in kind
            op.project_side(call[1], lb, edges=e, points=p)
            exp_faces[hexconv.SIDES[call[1]]] = lb
            if e:
                ctx.count("B:project_side+edges")
                for ed in hexconv.EDGES:
                    if set(ed) <= hexconv.SIDES[call[1]]:
                        exp_pedges.setdefault(frozenset(ed), set()).add(lb)
            if p:
                ctx.count("B:project_side+points")
                for c in hexconv.SIDES[call[1]]:
                    exp_pverts.setdefault(c, set()).add(lb)
        elif kind == "get_face":
            f = op.get_face(call[1])
            got = [tuple(np.round(p.position, 9)) for p in f.points]
            want = [tuple(np.round(pts[c], 9)) for c in hexconv.SIDE_CYCLES[call[1]]]
            if not hexconv.is_cyclic_equal(got, want):
                ctx.violation("B:get_face:wrong-corners", f"get_face({call[1]!r}) -> points {got}, side corners {hexconv.SIDE_CYCLES[call[1]]}")
                return
        elif kind == "project_edge":
            lb = f"g{n}"
            geo[lb] = ["type sphere", "origin (0 0 0)", "radius 30"]
            op.project_edge(call[1], call[2], lb)
            exp_pedges.setdefault(frozenset((call[1], call[2])), set()).add(lb)
        elif kind == "project_edge_list":
            # the caller hands over one and the same list object for several edges
            geo["gshared"] = ["type sphere", "origin (0 0 0)", "radius 30"]
            op.project_edge(call[1], call[2], shared_list)
            ctx.count("B:project_edge-with-a-reused-label-list")
            exp_pedges.setdefault(frozenset((call[1], call[2])), set()).add("gshared")
        elif kind == "add_edge":
            c1, c2 = call[1], call[2]
            mid = (pts[c1] + pts[c2]) / 2 + np.cross(pts[c2] - pts[c1], [0.3, 0.5, 0.7]) * 0.2
            data = cb.Arc(list(mid))
            lo, hi = min(c1, c2), max(c1, c2)
            if hi < 4:
                ctx.count("B:face.add_edge")
                op.bottom_face.add_edge(lo if (lo, hi) != (0, 3) else 3, data)
            elif lo >= 4:
                ctx.count("B:face.add_edge")
                op.top_face.add_edge((lo - 4) if (lo, hi) != (4, 7) else 3, data)
            else:
                ctx.count("B:add_side_edge")
                op.add_side_edge(lo, data)
            exp_arcs.add(frozenset((c1, c2)))
        elif kind == "project_corner":
            lb = f"g{n}"
            geo[lb] = ["type sphere", "origin (0 0 0)", "radius 30"]
            op.project_corner(call[1], lb)
            exp_pverts.setdefault(call[1], set()).add(lb)
        if case.get("query_between"):
            # read-only queries on the long-lived operation between two calls: nothing may be frozen by looking at it
            for attr in ("patch_names", "center", "point_array", "faces", "edges", "parts"):
                try:
                    getattr(op, attr)
                except Exception:  # noqa: BLE001
                    pass
            for side in hexconv.SIDE_NAMES:
                op.get_face(side)
            ctx.count("B:queried-between-calls")
    if shared_list != ["gshared"]:
        ctx.violation("B:project_edge:label-list-of-the-caller-modified", f"calls {case['calls']}: the list ['gshared'] passed as label is now {shared_list}")
        return
    if len(case["calls"]) > 1:
        ctx.count("B:sequence")
    mesh = cb.Mesh()
    mesh.add(op)
    if geo:
        mesh.add_geometry(geo)
    path = util.tmpfile("c10")
    got, err = util.write_outcome(mesh, path)
    ctx.evaluated()
    ctx.key(["B", sorted(str(c) for c in case["calls"])][:2] + [len(case["calls"])])
    ctx.sample({"part": "B", "calls": case["calls"]})
    if got != "success":
        util.rm(path)
        ctx.violation(f"B:write-failed:{got}", f"{case['calls']}: {err!r}")
        return
    parsed = foamdict.read_blockmesh(path)
    util.rm(path)
    idx = parsed["blocks"][0]["idx"]
    if sorted(idx) != list(range(8)):
        ctx.violation("B:single-operation-vertices", f"{idx}")
        return
    loc = {v: c for c, v in enumerate(idx)}  # vertex index -> local corner
    for c in range(8):
        if np.max(np.abs(np.array(parsed["vertices"][idx[c]]["pos"]) - pts[c])) > 1e-8:
            ctx.violation("B:corner-position", f"corner {c}")
            return
    tag = "+".join(sorted(set(names)))
    got_patches = {p["name"]: [frozenset(loc[v] for v in q) for q in p["faces"]] for p in parsed["boundary"]}
    if {k: [v] for k, v in exp_patches.items()} != got_patches:
        ctx.violation("B:set_patch:wrong-side", f"calls {case['calls']}: patches on corner sets {got_patches}, expected {exp_patches}")
        return
    got_faces = {frozenset(loc[v] for v in f["quad"]): f["label"] for f in parsed["faces"]}
    if got_faces != exp_faces:
        ctx.violation("B:project_side:wrong-side", f"calls {case['calls']}: faces {got_faces}, expected {exp_faces}")
        return
    got_pe, got_arcs = {}, set()
    for e in parsed["edges"]:
        pr = frozenset((loc[e["a"]], loc[e["b"]]))
        if e["kind"] == "project":
            got_pe[pr] = set(e["labels"])
        else:
            got_arcs.add(pr)
    if got_pe != exp_pedges:
        ctx.violation("B:projected-edges:wrong-edges", f"calls {case['calls']}: projected edges {got_pe}, expected {exp_pedges}")
        return
    if got_arcs != exp_arcs:
        ctx.violation("B:add_edge:wrong-edge", f"calls {case['calls']}: curved edges between corners {sorted(map(sorted, got_arcs))}, expected {sorted(map(sorted, exp_arcs))}")
        return
    got_pv = {loc[i]: set(v["project"]) for i, v in enumerate(parsed["vertices"]) if v["project"]}
    if got_pv != exp_pverts:
        ctx.violation("B:projected-corners:wrong-corners", f"calls {case['calls']}: projected corners {got_pv}, expected {exp_pverts}")
        return
    del tag
    if any(c[0] in ("project_edge", "project_edge_list", "add_edge") or c[0].startswith("project_side+edges") for c in case["calls"]):
        leak_probe(ctx, case, pts)


def leak_probe(ctx, case, pts):
    """addressing calls on one operation must not change how ANOTHER operation built afterwards is written: a probe loft with
    a direction-dependent edge (spline through points at 20 % and 50 % of the way) on all eight face-edge slots, written"""
    import classy_blocks as cb

    shift = np.array([40.0, 0.0, 0.0])
    P = pts + shift

    def spl(a, b):
        bulge = np.cross(b - a, [0.3, 0.5, 0.7]) * 0.15
        return cb.Spline([list(a + (b - a) * 0.2 + bulge), list(a + (b - a) * 0.5 + bulge * 1.3)])

    bottom = cb.Face(P[:4], [spl(P[i], P[(i + 1) % 4]) for i in range(4)])
    top = cb.Face(P[4:], [spl(P[4 + i], P[4 + (i + 1) % 4]) for i in range(4)])
    probe = cb.Loft(bottom, top)
    for a in range(3):
        probe.chop(a, count=1)
    mesh = cb.Mesh()
    mesh.add(probe)
    path = util.tmpfile("c10p")
    got, err = util.write_outcome(mesh, path)
    if got != "success":
        util.rm(path)
        ctx.violation(f"B:probe-after-addressing-calls:write-failed:{got}", f"after {case['calls']}: {err!r}")
        return
    parsed = foamdict.read_blockmesh(path)
    util.rm(path)
    ctx.count("B:probe-operation-after-addressing-calls")
    vpos = [np.array(v["pos"]) for v in parsed["vertices"]]
    nspl = 0
    for e in parsed["edges"]:
        if e["kind"] != "spline":
            continue
        nspl += 1
        a, b, first = vpos[e["a"]], vpos[e["b"]], np.array(e["points"][0])
        if np.linalg.norm(first - a) >= np.linalg.norm(first - b):
            ctx.violation("B:probe-after-addressing-calls:spline-points-run-backwards",
                          f"after {case['calls']} on another operation: a fresh loft's spline {e['a']} {e['b']} lists its points from the far end")
            return
    if nspl != 8:
        ctx.violation("B:probe-after-addressing-calls:spline-count", f"after {case['calls']}: {nspl} spline entries for 8 spline edges")
