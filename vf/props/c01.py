"""C01 — blocks that share an edge agree on its cell count (DESIGN 3/C01).

Reference model: union-find over (block, direction) joined through identical unordered lattice-node pairs
(hexconv edge table). Observation: the written file parsed by vf.foamdict, the exception class, and the
hooked per-wire counts at the quiescent point after Mesh.write()."""

import os

from vf import foamdict, hexconv, lattice, util

ID = "C01"
BUDGET = {"quick": 4000, "thorough": 120000}
REQUIRED = ["outcome:success", "outcome:InconsistentGradingsError", "outcome:UndefinedGradingsError", "judged:multigraded-direction",
            "judged:edge-with-2+-blocks", "judged:wires-vs-written", "judged:second-write", "judged:assembly-with-merged-pair",
            "judged:write-again-after-a-refused-write", "judged:conflict-added-then-cleared-and-written-again"]
MIN_KEYS = 40
RULE = (
    "random sub-assemblies of a jittered <=3x3x2 lattice (face / edge-only / vertex-only contacts), each block "
    "renumbered by one of the 24 rotations, random insertion order; per count family (union-find model) a chop "
    "pattern: one explicit count, several equal counts, conflicting counts, none, or one size-based chop. "
    "non-trivial: >=2 blocks sharing >=1 edge and >=1 family spanning >=2 blocks; distinct by (contact summary, "
    "family-size multiset, chop pattern per family, predicted outcome)"
)
ASSUMPTIONS = [
    "blockMesh rejects a dictionary in which one vertex pair carries two cell counts (OpenFOAM user guide)",
    "lattice node identity = vertex identity (nodes are >= 0.3 apart, far above the 1e-7 merge tolerance)",
]


def sections(rng, total=None, lead=None):
    """a direction chopped in 2-3 divisions (multigrading): [{length_ratio, count}, ...]. Patterns: two equal halves,
    symmetric fine-coarse-fine (divisions of equal value), unequal counts; `total` fixes the sum of the counts,
    `lead` the count of the first division."""
    while True:
        kind = rng.choice(["halves", "symmetric", "unequal", "unequal"])
        if kind == "halves":
            n = rng.randint(1, 6)
            out = [(0.5, n), (0.5, n)]
        elif kind == "symmetric":
            a, b = rng.randint(1, 4), rng.randint(1, 5)
            out = [(0.25, a), (0.5, b), (0.25, a)]
        else:
            k = rng.choice([2, 2, 3])
            ratios = {2: rng.choice([[0.3, 0.7], [0.5, 0.5], [0.6, 0.4]]), 3: rng.choice([[0.2, 0.5, 0.3], [0.25, 0.25, 0.5]])}[k]
            out = [(r, rng.randint(1, 6)) for r in ratios]
        if lead is not None:
            out[0] = (out[0][0], lead)
        if total is not None:
            rest = total - sum(n for _, n in out[:-1])
            if rest < 1:
                if total < 2:
                    return [{"count": total}]
                continue
            out[-1] = (out[-1][0], rest)
        return [{"length_ratio": r, "count": n} for r, n in out]


def place_chops(rng, case, mode):
    fid, fam, _ = lattice.families(case)
    roots = sorted(fam, key=lambda r: fam[r][0])
    pattern = {}
    special = None
    if mode != "well":
        special = rng.choice(roots)
    for r in roots:
        members = fam[r]
        if r == special and mode == "missing":
            pattern[r] = "none"
            continue
        if r == special and mode == "conflict" and len({m[0] for m in members}) >= 2:
            # 2-4 chopped blocks of the family, one of them demanding another count (so e.g. a chopped block can
            # sit between two chopped neighbours that agree with each other but not with it)
            byblock = {}
            for b, a in members:
                byblock.setdefault(b, (b, a))
            cand = list(byblock.values())
            ms = rng.sample(cand, min(len(cand), rng.choice([2, 2, 3, 3, 4])))
            n1 = rng.randint(1, 12)
            n2 = n1 + rng.choice([1, 1, 2, 5, -1]) if n1 > 1 else n1 + 1
            odd = rng.randrange(len(ms))
            style = rng.random()
            for i, (b, a) in enumerate(ms):
                if i == odd and style < 0.3:
                    # the odd one is multigraded and its first division agrees with the others' count
                    secs = sections(rng, lead=n1)
                    if sum(k["count"] for k in secs) == n1:
                        secs[-1]["count"] += 1
                    for kw in secs:
                        case["blocks"][b]["chops"].append([a, kw])
                elif i != odd and style > 0.8 and n1 >= 2:
                    for kw in sections(rng, total=n1):
                        case["blocks"][b]["chops"].append([a, kw])
                else:
                    case["blocks"][b]["chops"].append([a, {"count": n2 if i == odd else n1}])
            pattern[r] = "conflict" if len(ms) >= 2 else "one"
            continue
        u = rng.random()
        if u < 0.55 or len(members) == 1:
            b, a = rng.choice(members)
            if rng.random() < 0.25:
                for kw in sections(rng):
                    case["blocks"][b]["chops"].append([a, kw])
            else:
                case["blocks"][b]["chops"].append([a, {"count": rng.randint(1, 12)}])
            pattern[r] = "one"
        elif u < 0.8:
            n = rng.randint(1, 12)
            k = rng.randint(2, min(3, len(members)))
            for b, a in rng.sample(members, k):
                if n >= 2 and rng.random() < 0.3:
                    for kw in sections(rng, total=n):  # the same total through several divisions
                        case["blocks"][b]["chops"].append([a, kw])
                else:
                    case["blocks"][b]["chops"].append([a, {"count": n}])
            pattern[r] = "equal"
        else:
            b, a = rng.choice(members)
            kw = rng.choice([
                {"start_size": rng.uniform(0.05, 0.3)},
                {"start_size": rng.uniform(0.05, 0.2), "c2c_expansion": rng.uniform(1.0, 1.3)},
                {"end_size": rng.uniform(0.05, 0.2), "c2c_expansion": rng.uniform(0.8, 1.0)},
                {"start_size": rng.uniform(0.05, 0.2), "end_size": rng.uniform(0.05, 0.3)},
            ])
            case["blocks"][b]["chops"].append([a, kw])
            pattern[r] = "size"
    return pattern


def gen_case(ctx):
    rng = ctx.rng
    case = lattice.gen_assembly(rng)
    if rng.random() < 0.2:
        lattice.add_merged_pair(rng, case)  # cuts the count families at the merged interface
    mode = rng.choices(["well", "conflict", "missing"], [0.55, 0.3, 0.15])[0]
    place_chops(rng, case, mode)
    return case


def has_multigrading(case):
    return any(sum(1 for ax, _ in blk["chops"] if ax == a) > 1 for blk in case["blocks"] for a in range(3))


def predict(case):
    fid, fam, by_pair = lattice.families(case)
    fam_counts = {}
    outcome = "success"
    has_conflict = has_missing = False
    for r, members in fam.items():
        explicit, sized = set(), 0
        for b, a in members:
            chops = [kw for ax, kw in case["blocks"][b]["chops"] if ax == a]
            if chops and all("count" in kw for kw in chops):
                explicit.add(sum(kw["count"] for kw in chops))  # divisions of one direction add up
            else:
                sized += len(chops)
        if not explicit and not sized:
            has_missing = True
            fam_counts[r] = None
        elif len(explicit) > 1 or (explicit and sized) or sized > 1:
            has_conflict = True
            fam_counts[r] = "conflict"
        elif explicit:
            fam_counts[r] = next(iter(explicit))
        else:
            fam_counts[r] = "free"
    if has_conflict and has_missing:
        outcome = "either"
    elif has_conflict:
        outcome = "InconsistentGradingsError"
    elif has_missing:
        outcome = "UndefinedGradingsError"
    return outcome, fid, fam, fam_counts, by_pair


def run_case(ctx, case):
    import classy_blocks as cb

    outcome, fid, fam, fam_counts, by_pair = predict(case)
    mesh, ops = lattice.build_mesh(case, cb)
    path = util.tmpfile("c01")
    got, err = util.write_outcome(mesh, path)
    ctx.evaluated()
    ctx.sample({"dims": case["dims"], "blocks": [{"cell": b["cell"], "perm": b["perm"], "chops": b["chops"]}
                                                 for b in case["blocks"]], "predicted": outcome, "observed": got})
    ctx.count(f"outcome:{got}")
    if case.get("merges"):
        ctx.count("judged:assembly-with-merged-pair")
    if has_multigrading(case):
        ctx.count("judged:multigraded-direction")
    nb, nface, nedge, nvert = lattice.contact_summary(case)
    shared_family = any(len({m[0] for m in members}) >= 2 for members in fam.values())
    pattern = sorted(
        ("none" if c is None else c if isinstance(c, str) else "count") + f"x{len(fam[r])}" for r, c in fam_counts.items()
    )
    ctx.key([nb, nface, nedge, nvert, pattern, outcome, bool(case.get("merges"))], nontrivial=(nface + nedge > 0 and shared_family))

    if got != "success" and os.path.exists(path):
        ctx.violation("file-left-behind-by-failed-write", f"write raised {got} but {path} exists")
    if got == "Budget":
        # non-termination is C02's clause; here the case simply yields no C01 observation
        ctx.count("skipped:propagation-step-budget-exceeded")
        return
    if got not in ("success", "InconsistentGradingsError", "UndefinedGradingsError"):
        ctx.violation(f"wrong-exception:{got}", f"predicted {outcome}, got {got}: {err}")
        return
    if outcome == "either":
        if got == "success":
            ctx.violation("conflict-written", "conflicting + under-specified chops written without error")
        return
    if outcome != "success":
        if got == "success":
            adjacent = _conflict_adjacent(case, fam, fam_counts, by_pair)
            ctx.violation(
                "conflict-written" if outcome == "InconsistentGradingsError" else "underspecified-written",
                f"predicted {outcome} but a dictionary was written; conflicting chopped blocks share an edge: {adjacent}; "
                + _edge_report(path),
            )
        elif got != outcome:
            ctx.violation(f"wrong-error:{outcome}->{got}", f"predicted {outcome}, got {got}: {err}")
        else:
            # history: a script that catches the error and writes the same mesh again gets the same refusal, not a file
            util.rm(path)
            got2, err2 = util.write_outcome(mesh, path)
            ctx.count("judged:write-again-after-a-refused-write")
            if got2 == "success":
                ctx.violation(("conflict" if outcome == "InconsistentGradingsError" else "underspecified") + "-written:second-write-after-a-refused-one",
                              f"the first write raised {got}; the second write of the same mesh produced a dictionary; " + _edge_report(path))
            elif got2 != got:
                ctx.violation(f"wrong-error:second-write:{got}->{got2}", f"first write {got}, second write {got2}: {err2}")
        util.rm(path)
        return
    if got != "success":
        ctx.violation(f"well-posed-rejected:{got}", f"model is consistent and fully specified but write raised {got}: {err}")
        return

    # ---- success: judge the file ---------------------------------------------------------------
    if not judge_file(ctx, case, mesh, path, fam, fam_counts):
        return
    # history: the same mesh written a second time must satisfy the same clauses (every third case)
    if (len(case["blocks"]) + sum(len(b["chops"]) for b in case["blocks"])) % 3 == 0:
        path2 = util.tmpfile("c01")
        got2, err2 = util.write_outcome(mesh, path2)
        ctx.count("judged:second-write")
        if got2 != "success":
            util.rm(path2)
            ctx.violation(f"second-write:{got2}", f"the first write succeeded, the second raised {got2}: {err2}")
            return
        if not judge_file(ctx, case, mesh, path2, fam, fam_counts, tag="second-write:"):
            return
    # history: the script goes on - one more chop on another block of a family that already has its count (a different one),
    # the mesh is cleared and written again: the re-assembled mesh has to be refused like a fresh one
    if sum(len(b["chops"]) for b in case["blocks"]) % 2 == 0:
        for r, members in sorted(fam.items(), key=lambda kv: kv[1][0]):
            n = fam_counts.get(r)
            blocks_in = sorted({b for b, _ in members})
            if isinstance(n, int) and len(blocks_in) >= 2:
                carriers = {b for b, a in members if any(ax == a for ax, _ in case["blocks"][b]["chops"])}
                others = [(b, a) for b, a in members if b not in carriers]
                if not others:
                    continue
                b1, a1 = others[0]
                ops[b1].chop(a1, count=n + 2)
                mesh.clear()
                path3 = util.tmpfile("c01")
                got3, err3 = util.write_outcome(mesh, path3)
                ctx.count("judged:conflict-added-then-cleared-and-written-again")
                if got3 == "success":
                    ctx.violation("conflict-written:after-one-more-chop-and-clear",
                                  f"first write fine; then block {b1} axis {a1} chopped with count {n + 2} (its family has {n}), clear(), write: "
                                  "a dictionary was produced; " + _edge_report(path3))
                elif got3 != "InconsistentGradingsError":
                    ctx.violation(f"wrong-error:after-one-more-chop-and-clear:{got3}", f"{err3}")
                util.rm(path3)
                break


def judge_file(ctx, case, mesh, path, fam, fam_counts, tag=""):
    """judge one successfully written file + the hooked wire counts; returns False after a violation"""
    # ---- success: judge the file ---------------------------------------------------------------
    try:
        parsed = foamdict.read_blockmesh(path)
    except foamdict.ParseError as perr:
        ctx.violation(tag + "unparsable-file", str(perr))
        return False
    finally:
        util.rm(path)
    if len(parsed["blocks"]) != len(case["blocks"]):
        ctx.violation(tag + "block-count", f"{len(parsed['blocks'])} hex entries for {len(case['blocks'])} operations")
        return False
    # (a) one count per vertex pair, from the file alone
    counts = lattice.file_edge_counts(parsed)
    users = {}
    for blk in parsed["blocks"]:
        for a in range(3):
            for e in hexconv.AXIS_EDGES[a]:
                users.setdefault(frozenset((blk["idx"][e[0]], blk["idx"][e[1]])), []).append(1)
    for pr, cs in counts.items():
        if len(users[pr]) >= 2:
            ctx.count("judged:edge-with-2+-blocks")
        if len(cs) > 1:
            ctx.violation(tag + "edge-with-two-counts", f"vertex pair {sorted(pr)} carries counts {sorted(cs)} in the written file")
            return False
    # (b) families vs the model
    for r, members in fam.items():
        want = fam_counts[r]
        seen = {parsed["blocks"][b]["counts"][a] for b, a in members}
        if len(seen) != 1:
            ctx.violation(tag + "family-disagrees", f"family {members} written with counts {sorted(seen)}")
            return False
        if isinstance(want, int) and seen != {want}:
            ctx.violation(tag + "family-count-differs-from-chop", f"family {members}: chop count {want}, written {sorted(seen)}")
            return False
        ctx.count("judged:family")
    # (c) hooked state: the four parallel wires of every block carry the written count
    for b, blk in enumerate(mesh.blocks):
        for a in range(3):
            wc = [w.grading.count for w in blk.axes[a].wires]
            ctx.count("judged:wires-vs-written")
            if set(wc) != {parsed["blocks"][b]["counts"][a]} or len(wc) != 4:
                ctx.violation(tag + "wires-vs-written", f"block {b} axis {a}: wire counts {wc}, written {parsed['blocks'][b]['counts'][a]}")
                return False
            for g, w in zip(parsed["blocks"][b]["grading"][a * 4 : a * 4 + 4] if parsed["blocks"][b]["kind"] == "edgeGrading"
                            else [parsed["blocks"][b]["grading"][a]] * 4, blk.axes[a].wires):
                if sum(s[1] for s in g) != parsed["blocks"][b]["counts"][a] and len(g) > 1:
                    ctx.violation(tag + "multigrading-count-sum", f"block {b} axis {a}: sections {g} vs count")
                    return False
    return True


def _conflict_adjacent(case, fam, fam_counts, by_pair):
    for r, c in fam_counts.items():
        if c == "conflict":
            chopped = {(b, a) for b, a in fam[r] if any(ax == a for ax, _ in case["blocks"][b]["chops"])}
            for pr, us in by_pair.items():
                hit = {(u[0], u[1]) for u in us} & chopped
                if len(hit) >= 2:
                    return True
    return False


def _edge_report(path):
    try:
        parsed = foamdict.read_blockmesh(path)
        bad = {tuple(sorted(p)): sorted(c) for p, c in lattice.file_edge_counts(parsed).items() if len(c) > 1}
        return f"edges with two counts in the file: {dict(list(bad.items())[:3])}"
    except Exception as err:  # noqa: BLE001
        return f"(file not analysable: {err})"
