"""C18 — finders are exact; viewpoint re-orientation canonicalises block numbering (DESIGN 3/C18).

Three workload classes, all run on the REAL GeometricFinder / RoundSolidFinder / ViewpointReorienter:

  reorient  one randomly distorted convex hexahedron + a viewpoint in general position; the real re-orienter is run on
            all 48 initial numberings (24 rotations + 24 mirrored, vf.hexconv). Oracle (vf.xc18_oracle): same eight
            points, right-handed (8 positive corner Jacobians), front / top outward normals facing the observer /
            ceiling point, one and the same numbering for all 48 inputs, equal to the numbering derived from the
            geometry alone.
  boxes     1-6 hexahedra on a small lattice (exact integer / translated / rigidly rotated / jittered), random
            numbering and insertion order, ~24 sphere and plane queries each; oracle = brute force over mesh.vertices.
  round     Cylinder / SemiCylinder / Frustum / Elbow (+ chained shape, surrounding ring, far box); find_core /
            find_shell on both ends against 'in the end plane and inside / on the rim circle', computed from the
            construction parameters; plus sphere / plane queries on that mesh.
"""

import math

import numpy as np

from vf import geom, hexconv
from vf import xc18_oracle as orc

ID = "C18"
BUDGET = {"quick": 2400, "thorough": 48000}
MIN_KEYS = 60
REQUIRED = [
    "reorient:geometries", "reorient:judged", "reorient:input-rotation", "reorient:input-mirrored",
    "reorient:canonical-48-of-48", "reorient:jitter:none", "reorient:jitter:large", "reorient:angle:15-25",
    "reorient:angle:25-40", "reorient:angle:40-50", "reorient:long-lived-reorienter", "mesh:re-assembled-between-queries",
    "sphere:judged", "sphere:nonempty-proper-subset", "sphere:default-radius", "sphere:default-radius:hit",
    "sphere:default-radius:miss", "sphere:ratio:0.99", "sphere:ratio:1.01", "sphere:exact-boundary-vertex",
    "plane:judged", "plane:through-0", "plane:through-3+", "plane:offset-inside-tolerance",
    "plane:offset-outside-tolerance", "plane:non-unit-normal", "plane:origin-is-vertex",
    "round:core-judged", "round:shell-judged", "round:start-face", "round:end-face",
    "round:shape:Cylinder", "round:shape:Frustum", "round:shape:Elbow", "round:shape:SemiCylinder",
    "mesh:rotated", "mesh:exact-integer", "mesh:merged-pair-with-duplicated-vertices",
    "round:second-call-after-mutating-the-result", "mesh:vertices-moved-between-queries",
]
RULE = (
    "reorient: cube x anisotropic scale (10^U(-0.4,0.4) per axis) x size 10^U(-1,1), corner jitter class none / tiny "
    "(1e-7) / 5% / 15% / 25%, rigidly moved; observer within 0-5 / 5-15 / 15-25 deg of the outward normal of one of "
    "the 6 sides (plus a 25-40 deg class), ceiling point likewise for one of the 4 perpendicular sides, both 5-100 block "
    "diameters away; kept "
    "only if convex and in general position (vf.xc18_oracle); all 48 initial numberings enumerated per geometry "
    "(exhaustive in that sub-space). finders: brute force over mesh.vertices for spheres (target vertex at 0.5, 0.99, "
    "1.01, 2 x radius; default radius at 0, 0.3, 3 x TOL; exact integer boundary) and planes (through 1, 2, 3 "
    "vertices, lattice planes, offsets of 0.3 / 3 x TOL, generic); round finder on both ends of 4 shape classes with "
    "chained / surrounding / far extras. non-trivial: reorient geometries always; a finder query when its expected set "
    "is a non-empty proper subset of the vertices. distinct by (class, jitter, angle, front, top) / (query type, "
    "mesh class, min(|expected|, 9)) / (shape, extras, end, finder)"
)
ASSUMPTIONS = [
    "merge tolerance TOL = 1e-7 (util.constants.TOL, restated in the oracle)",
    "sphere: open ball |v-p| < r as in the finder's docstring ('inside a sphere'); vertices within 1e-9*max(1,r,|v-p|) "
    "of the surface are not judged, except in the exact-integer class (integer coordinates, centre and radius; offsets "
    "(0,0,k), (3,4,0), (1,2,2) so that the distance is exact in any floating-point norm), where a vertex exactly on "
    "the surface must not be returned",
    "default radius / plane: 'to the merge tolerance' = distance <= TOL/2 must be found, >= 2 TOL must not, in between "
    "is not judged; plane normals are arbitrary non-zero vectors (norm 1e-3..1e3), origin anywhere on the plane",
    "convex block = every side splits along a diagonal into two convex-hull facets with the opposite corners at least "
    "5% of the shortest edge behind them; general position = each of the six viewing directions singles out one side "
    "by a margin of 0.1 + 1.5*circumradius/viewpoint distance in the cosine over all triangle normals of all sides "
    "(both diagonal splits), for the ceiling direction as given and after making it perpendicular to the observer "
    "direction; viewpoints at least 3 circumradii away",
    "re-oriented points equal the originals to 1e-9*(1+max|coordinate|)",
    "round shapes: core = mesh vertices in the end plane with radial distance <= 0.97 R, rim = in the plane at R "
    "(1e-9 relative); a case with a vertex in an ambiguous band is not judged",
    "30 % of the box meshes carry one face-merged pair: both vertices at a duplicated position must be returned",
]

TOL = orc.TOL
JITTER = {"none": 0.0, "tiny": 1e-7, "small": 0.05, "medium": 0.15, "large": 0.25}
ANGLES = {"0-5": (0.0, 5.0), "5-15": (5.0, 15.0), "15-25": (15.0, 25.0), "25-40": (25.0, 40.0), "40-50": (40.0, 50.0)}
PERP_SIDES = {s: [t for t in hexconv.SIDE_NAMES if t not in (s, orc.OPPOSITE[s])] for s in hexconv.SIDE_NAMES}


def _fl(a):
    return [float(x) for x in a]


def _cone(rng, axis, lo_deg, hi_deg):
    """unit vector at an angle in [lo, hi] degrees from axis, random azimuth"""
    axis = geom.unit(axis)
    while True:
        t = np.cross(axis, geom.rand_unit(rng))
        if np.linalg.norm(t) > 0.1:
            break
    t = geom.unit(t)
    a = math.radians(rng.uniform(lo_deg, hi_deg))
    return math.cos(a) * axis + math.sin(a) * t


# ======================================================================================================
# reorient
# ======================================================================================================
def gen_reorient(rng, jclass=None, aclass=None, front=None, top=None):
    jclass = jclass or rng.choice(["none", "tiny", "small", "medium", "medium", "large", "large"])
    aclass = aclass or rng.choice(["0-5", "5-15", "15-25", "25-40", "25-40", "40-50"])
    if aclass == "40-50":
        jclass = rng.choice(["none", "tiny"])  # strongly oblique views only of blocks with planar sides (boxes)
    j, (alo, ahi) = JITTER[jclass], ANGLES[aclass]
    shrunk = False
    for attempt in range(200):
        if attempt and attempt % 25 == 0:
            j *= 0.7  # the class is too hostile for this scale / viewpoint: move towards the regular block
            ahi = alo + (ahi - alo) * 0.7
            shrunk = True
        size = 10 ** rng.uniform(-1, 1)
        scale = [10 ** rng.uniform(-0.4, 0.4) for _ in range(3)]
        jit_after = rng.random() < 0.5
        pts = []
        for c in hexconv.CORNER:
            if jit_after:  # jitter relative to the shortest edge
                p = [c[a] * scale[a] + rng.uniform(-j, j) * min(scale) for a in range(3)]
            else:  # jitter relative to each axis' own edge
                p = [(c[a] + rng.uniform(-j, j)) * scale[a] for a in range(3)]
            pts.append(p)
        frame = geom.orthonormal_frame(rng) if rng.random() < 0.85 else np.eye(3)
        shift = geom.arr(geom.rand_vec(rng, -5, 5)) * size * rng.choice([0.0, 1.0, 1.0, 10.0])
        pts = (geom.arr(pts) * size) @ frame + shift
        if not orc.is_convex(pts):
            continue
        f = front or rng.choice(hexconv.SIDE_NAMES)
        t = top or rng.choice(PERP_SIDES[f])
        centre = pts.mean(axis=0)
        diam = 2 * max(float(np.linalg.norm(p - centre)) for p in pts)
        d_obs = _cone(rng, orc.outward_normal(pts, f), alo, ahi)
        d_ceil = _cone(rng, orc.outward_normal(pts, t), alo, ahi)
        observer = centre + d_obs * diam * 10 ** rng.uniform(0.7, 2)
        ceiling = centre + d_ceil * diam * 10 ** rng.uniform(0.7, 2)
        exp = orc.expected_numbering(pts, observer, ceiling, sequential=(aclass == "40-50"))
        if exp is None:
            continue
        if aclass != "40-50" and (exp[2]["front"] != f or exp[2]["top"] != t):
            continue
        return {"kind": "reorient", "pts": [_fl(p) for p in pts], "observer": _fl(observer), "ceiling": _fl(ceiling),
                "jitter": jclass + ("(shrunk)" if shrunk else ""), "angle": aclass + ("(shrunk)" if shrunk else ""),
                "front": f, "top": t}
    return None


def run_reorient(ctx, case):
    from classy_blocks.construct.flat.face import Face
    from classy_blocks.construct.operations.loft import Loft
    from classy_blocks.modify.reorient.viewpoint import ViewpointReorienter

    base = geom.arr(case["pts"])
    observer, ceiling = case["observer"], case["ceiling"]
    if not orc.is_convex(base):
        ctx.count("reorient:skipped-not-convex")
        return
    sequential = str(case.get("angle", "")).startswith("40-50")
    exp = orc.expected_numbering(base, observer, ceiling, sequential=sequential)
    if exp is None:
        ctx.count("reorient:skipped-not-general-position")
        return
    expected, margin, assigned = exp
    d_obs, d_raw, d_perp, _, _, _ = orc.view_directions(base, observer, ceiling)
    if sequential:
        d_raw = d_perp  # seen from an edge, "faces the ceiling point" is meant among the four sides around the front
    ctx.count("reorient:geometries")
    ctx.count("reorient:jitter:" + case["jitter"])
    ctx.count("reorient:angle:" + case["angle"])
    ctx.key(["reorient", case["jitter"], case["angle"], assigned["front"], assigned["top"]])
    ctx.sample({k: case[k] for k in ("kind", "pts", "observer", "ceiling", "jitter", "angle", "front", "top")}
               | {"expected_numbering": expected})
    tol = 1e-9 * (1 + float(np.max(np.abs(base))))
    seen = {}
    where = f"pts={case['pts']} observer={observer} ceiling={ceiling}"
    # history: one long-lived reorienter for all 48 inputs (as a script that re-orients many blocks does): it is created from
    # float arrays the caller goes on using, and it has looked at another block - on the far side of the observer - before
    shared = None
    if int(abs(base[0][0]) * 1e6) % 2 == 0:
        obs_arr, ceil_arr = np.array(observer, dtype=float), np.array(ceiling, dtype=float)
        shared = ViewpointReorienter(obs_arr, ceil_arr)
        obs_arr += 1000.0
        ceil_arr -= 777.0
        centre0 = base.mean(axis=0)
        far = 2 * np.array(observer, dtype=float) - centre0 + np.array(ceiling, dtype=float) - centre0
        decoy = geom.arr(hexconv.CORNER) * float(np.linalg.norm(base[0] - centre0)) + far
        try:
            shared.reorient(Loft(Face(decoy[:4]), Face(decoy[4:])))
        except Exception:  # noqa: BLE001  (the decoy is not judged)
            pass
        ctx.count("reorient:long-lived-reorienter")
    for cls, perms in (("rotation", hexconv.ROTATIONS), ("mirrored", hexconv.MIRRORED)):
        for pid, perm in enumerate(perms):
            start = hexconv.renumber(case["pts"], perm)
            op = Loft(Face(start[:4]), Face(start[4:]))
            ctx.evaluated()
            ctx.count("reorient:judged")
            ctx.count("reorient:input-" + cls)
            tag = f"{cls}#{pid} perm={list(perm)}" + (" (long-lived reorienter)" if shared is not None else "")
            try:
                (shared or ViewpointReorienter(observer, ceiling)).reorient(op)
            except Exception as err:  # noqa: BLE001  a convex block in general position must be re-oriented
                ctx.violation(f"reorient:raised:{type(err).__name__}:{cls}-input",
                              f"{tag}: {type(err).__name__}: {err} | {where}")
                seen.setdefault(("raised", type(err).__name__), tag)
                continue
            res = np.array(op.point_array, dtype=float)
            got = orc.match_points(res, base, tol)
            if None in got or sorted(got) != list(range(8)):
                ctx.violation(f"reorient:points-changed:{cls}-input",
                              f"{tag}: result {res.tolist()} is not a renumbering of the eight points | {where}")
                seen.setdefault(("changed",), tag)
                continue
            seen.setdefault(tuple(got), tag)
            if min(hexconv.jacobians(res)) <= 0:
                ctx.violation(f"reorient:not-right-handed:{cls}-input",
                              f"{tag}: numbering {got} has corner Jacobians {hexconv.jacobians(res)} | {where}")
                continue
            cf = float(np.dot(orc.outward_normal(res, "front"), d_obs))
            if cf <= 0:
                ctx.violation(f"reorient:front-not-facing-observer:{cls}-input",
                              f"{tag}: numbering {got}: front normal . observer direction = {cf} | {where}")
                continue
            ct = float(np.dot(orc.outward_normal(res, "top"), d_raw))
            if ct <= 0:
                ctx.violation(f"reorient:top-not-facing-ceiling:{cls}-input",
                              f"{tag}: numbering {got}: top normal . ceiling direction = {ct} | {where}")
                continue
            if got != expected:
                ctx.violation(f"reorient:not-the-most-facing-sides:{cls}-input",
                              f"{tag}: numbering {got}, but the sides facing observer / ceiling give {expected} "
                              f"(margin {margin:.3f}) | {where}")
    if len(seen) == 1 and next(iter(seen)) == tuple(expected):
        ctx.count("reorient:canonical-48-of-48")
    elif len(seen) > 1:
        ctx.violation("reorient:depends-on-initial-numbering",
                      f"{len(seen)} different outcomes over the 48 initial numberings: "
                      f"{[(list(k), v) for k, v in list(seen.items())[:4]]} | {where}")


# ======================================================================================================
# finder queries (shared by boxes / round)
# ======================================================================================================
def sphere_queries_for_vertex(rng, v, length, exact_offsets=None):
    out = []
    u = geom.rand_unit(rng)
    d = length * 10 ** rng.uniform(-2, 0.7)
    rho = rng.choice([0.5, 0.99, 1.01, 2.0])
    out.append({"q": "sphere", "type": f"ratio:{rho}", "p": _fl(geom.arr(v) + d * u), "r": d / rho})
    k = rng.choice([0.0, 0.3, 3.0])
    out.append({"q": "sphere", "type": f"default:{k}", "p": _fl(geom.arr(v) + k * TOL * geom.rand_unit(rng)), "r": None})
    return out


def plane_offsets(rng, q):
    """the same plane displaced along its normal by 0.3 / 3 TOL"""
    s = rng.choice([0.3, -0.3, 3.0, -3.0])
    n = geom.unit(q["n"])
    return {"q": "plane", "type": q["type"] + (":offset-in" if abs(s) < 1 else ":offset-out"),
            "o": _fl(geom.arr(q["o"]) + s * TOL * n), "n": q["n"]}


def plane_queries(rng, verts, length):
    """planes through 0, 1, 2, 3 of the given points"""
    out = []
    mag = lambda: 10 ** rng.uniform(-3, 3) if rng.random() < 0.8 else 1.0  # noqa: E731
    v = [geom.arr(p) for p in verts]
    if len(v) >= 3:
        for _ in range(3):
            a, b, c = rng.sample(range(len(v)), 3)
            n = np.cross(v[b] - v[a], v[c] - v[a])
            if np.linalg.norm(n) < 1e-3 * length * length:
                continue
            n = geom.unit(n) * mag()
            if rng.random() < 0.5:
                o, typ = v[a], "3-vertices:origin-vertex"
            else:
                o = v[a] + rng.uniform(-2, 2) * (v[b] - v[a]) + rng.uniform(-2, 2) * (v[c] - v[a])
                typ = "3-vertices"
            q = {"q": "plane", "type": typ, "o": _fl(o), "n": _fl(n)}
            out.append(q)
            out.append(plane_offsets(rng, q))
    if len(v) >= 2:
        a, b = rng.sample(range(len(v)), 2)
        e = v[b] - v[a]
        n = np.cross(e, geom.rand_unit(rng))
        if np.linalg.norm(n) > 1e-3 * np.linalg.norm(e):
            q = {"q": "plane", "type": "2-vertices", "o": _fl(v[a] + rng.uniform(-1, 2) * e), "n": _fl(geom.unit(n) * mag())}
            out += [q, plane_offsets(rng, q)]
    a = rng.randrange(len(v))
    q = {"q": "plane", "type": "1-vertex", "o": _fl(v[a]), "n": _fl(geom.rand_unit(rng) * mag())}
    out += [q, plane_offsets(rng, q)]
    centre = np.mean(v, axis=0)
    out.append({"q": "plane", "type": "generic", "o": _fl(centre + geom.arr(geom.rand_vec(rng)) * length),
                "n": _fl(geom.rand_unit(rng) * mag())})
    return out


def run_queries(ctx, case, mesh, mclass):
    from classy_blocks.modify.find.geometric import GeometricFinder

    verts = list(mesh.vertices)
    pos = [np.array(v.position, dtype=float) for v in verts]
    finder = GeometricFinder(mesh)
    exact = bool(case.get("exact"))
    moves = case.get("moves") or []
    for qi, q in enumerate(case["queries"]):
        if moves and qi == len(case["queries"]) // 2:
            # history: some vertices are moved (as a modification script does) and the SAME finder is queried again
            for frac, d in moves:
                i = int(frac * len(verts)) % len(verts)
                verts[i].translate(d)
                pos[i] = np.array(verts[i].position, dtype=float)
            ctx.count("mesh:vertices-moved-between-queries")
        if case.get("reassemble") and qi == (2 * len(case["queries"])) // 3 and qi > 0:
            # history: the mesh is back-ported (cleared and assembled again: new Vertex objects) and the SAME finder goes on
            try:
                mesh.backport()
            except Exception as err:  # noqa: BLE001
                ctx.violation(f"backport-between-queries:raised:{type(err).__name__}", f"{err!r}")
                return
            verts = list(mesh.vertices)
            pos = [np.array(v.position, dtype=float) for v in verts]
            ctx.count("mesh:re-assembled-between-queries")
        ctx.evaluated()
        if q["q"] == "sphere":
            is_exact = exact and q["type"].startswith("exact") and all(float(x).is_integer() for p in pos for x in p)
            try:
                found = finder.find_in_sphere(q["p"]) if q["r"] is None else finder.find_in_sphere(q["p"], q["r"])
            except Exception as err:  # noqa: BLE001
                ctx.violation(f"sphere:raised:{type(err).__name__}", f"find_in_sphere({q['p']}, {q['r']}): {err!r}")
                continue
            inside, outside, undecided, boundary = orc.sphere_sets(pos, q["p"], q["r"], exact=is_exact)
            got = _indices(ctx, "sphere", found, verts, q)
            if got is None:
                continue
            ctx.count("sphere:judged")
            ctx.count("sphere:undecided-vertices", len(undecided))
            typ = q["type"]
            if q["r"] is None:
                ctx.count("sphere:default-radius")
                ctx.count("sphere:default-radius:hit" if inside else "sphere:default-radius:miss")
            if typ.startswith("ratio:"):
                ctx.count("sphere:" + typ)
            if boundary:
                ctx.count("sphere:exact-boundary-vertex")
            proper = 0 < len(inside) < len(pos)
            if proper:
                ctx.count("sphere:nonempty-proper-subset")
            ctx.key(["sphere", typ, mclass, min(len(inside), 9)], nontrivial=proper)
            extra, missing = (got & outside), (inside - got)
            desc = f"find_in_sphere({q['p']}, {q['r']}) [{typ}] on vertices {[p.tolist() for p in pos]}"
            if extra & boundary:
                ctx.violation("sphere:vertex-on-the-surface-returned(exact-integer-class)",
                              f"{desc}: returned {sorted(got)}, vertices {sorted(extra & boundary)} are exactly on the sphere")
            elif extra:
                ctx.violation("sphere:outside-vertex-returned" + (":default-radius" if q["r"] is None else ""),
                              f"{desc}: returned {sorted(got)}, expected {sorted(inside)}; {sorted(extra)} are outside: "
                              f"distances {[geom.dist(pos[i], q['p']) for i in sorted(extra)]}")
            if missing:
                ctx.violation("sphere:inside-vertex-missing" + (":default-radius" if q["r"] is None else ""),
                              f"{desc}: returned {sorted(got)}, expected {sorted(inside)}; {sorted(missing)} are inside: "
                              f"distances {[geom.dist(pos[i], q['p']) for i in sorted(missing)]}")
        else:
            try:
                found = finder.find_on_plane(q["o"], q["n"])
            except Exception as err:  # noqa: BLE001
                ctx.violation(f"plane:raised:{type(err).__name__}", f"find_on_plane({q['o']}, {q['n']}): {err!r}")
                continue
            on, off, undecided = orc.plane_sets(pos, q["o"], q["n"])
            got = _indices(ctx, "plane", found, verts, q)
            if got is None:
                continue
            typ = q["type"]
            ctx.count("plane:judged")
            ctx.count("plane:undecided-vertices", len(undecided))
            ctx.count("plane:through-0" if not on else "plane:through-3+" if len(on) >= 3 else "plane:through-1-2")
            if typ.endswith(":offset-in") and on:
                ctx.count("plane:offset-inside-tolerance")
            if typ.endswith(":offset-out"):
                ctx.count("plane:offset-outside-tolerance")
            if abs(float(np.linalg.norm(q["n"])) - 1) > 1e-3:
                ctx.count("plane:non-unit-normal")
            if any(geom.dist(p, q["o"]) < 0.5 * TOL for p in pos):
                ctx.count("plane:origin-is-vertex")
            proper = 0 < len(on) < len(pos)
            ctx.key(["plane", typ, mclass, min(len(on), 9)], nontrivial=proper)
            extra, missing = (got & off), (on - got)
            desc = f"find_on_plane({q['o']}, {q['n']}) [{typ}] on vertices {[p.tolist() for p in pos]}"
            unit = "" if abs(float(np.linalg.norm(q["n"])) - 1) <= 1e-3 else ":non-unit-normal"
            if extra:
                n = geom.unit(q["n"])
                ctx.violation("plane:off-plane-vertex-returned" + unit,
                              f"{desc}: returned {sorted(got)}, expected {sorted(on)}; distances of the extra ones "
                              f"{[abs(float(np.dot(pos[i] - geom.arr(q['o']), n))) for i in sorted(extra)]}")
            if missing:
                ctx.violation("plane:on-plane-vertex-missing" + unit,
                              f"{desc}: returned {sorted(got)}, expected {sorted(on)}; {sorted(missing)} are within TOL/2")


def _indices(ctx, what, found, verts, q):
    """the returned collection as indices into mesh.vertices; anything that is not a mesh vertex is a violation"""
    ids = {id(v): i for i, v in enumerate(verts)}
    try:
        items = list(found)
    except TypeError:
        ctx.violation(f"{what}:result-not-a-collection", f"{q}: returned {found!r}")
        return None
    got = set()
    for item in items:
        if id(item) not in ids:
            ctx.violation(f"{what}:returned-object-is-not-a-mesh-vertex", f"{q}: returned {item!r}")
            return None
        got.add(ids[id(item)])
    if len(got) != len(items):
        ctx.violation(f"{what}:vertex-returned-twice", f"{q}: {len(items)} items, {len(got)} distinct vertices")
        return None
    return got


# ======================================================================================================
# boxes
# ======================================================================================================
EXACT_OFFSETS = [(0, 0, 1), (0, 0, 2), (0, 3, 0), (5, 0, 0), (3, 4, 0), (0, 3, 4), (4, 0, 3), (-3, 0, 4), (1, 2, 2),
                 (2, -1, 2), (2, 2, -1), (6, 8, 0), (0, -4, 3)]


def gen_boxes(rng, mclass=None):
    mclass = mclass or rng.choice(["exact", "exact", "aligned", "rotated", "rotated", "rotated-jittered", "aligned-jittered"])
    dims = [rng.randint(1, 3), rng.randint(1, 2), rng.randint(1, 2)]
    rng.shuffle(dims)
    if mclass == "exact":
        spacing = [rng.randint(1, 4) for _ in range(3)]
        origin = [rng.randint(-6, 6) for _ in range(3)]
    else:
        spacing = [rng.uniform(0.5, 2.0) for _ in range(3)]
        origin = geom.rand_vec(rng, -5, 5)
    jitter = 0.15 if mclass.endswith("jittered") else 0.0
    frame = geom.orthonormal_frame(rng) if mclass.startswith("rotated") else np.eye(3)
    node = {}
    for i in range(dims[0] + 1):
        for j in range(dims[1] + 1):
            for k in range(dims[2] + 1):
                lat = [(i, j, k)[a] * spacing[a] + rng.uniform(-jitter, jitter) * spacing[a] for a in range(3)]
                if mclass == "exact":
                    node[(i, j, k)] = [float(origin[a] + (i, j, k)[a] * spacing[a]) for a in range(3)]
                else:
                    node[(i, j, k)] = _fl(geom.arr(lat) @ frame + geom.arr(origin))
    cells = [(i, j, k) for i in range(dims[0]) for j in range(dims[1]) for k in range(dims[2])]
    rng.shuffle(cells)
    cells = cells[: rng.randint(1, min(6, len(cells)))]
    blocks, used = [], {}
    for c in cells:
        ids = [(c[0] + d[0], c[1] + d[1], c[2] + d[2]) for d in hexconv.CORNER]
        ids = hexconv.renumber(ids, hexconv.ROTATIONS[rng.randrange(24)])
        blocks.append([node[n] for n in ids])
        for n in ids:
            used[n] = node[n]
    verts = list(used.values())
    length = float(np.mean(spacing))
    queries = []
    for _ in range(4):
        queries += sphere_queries_for_vertex(rng, rng.choice(verts), length)
    centre = np.mean(geom.arr(verts), axis=0)
    big = 2 * max(geom.dist(v, centre) for v in verts) + 1
    queries.append({"q": "sphere", "type": "all", "p": _fl(centre), "r": big})
    queries.append({"q": "sphere", "type": "none", "p": _fl(centre + big * 3 * geom.rand_unit(rng)), "r": big})
    queries += plane_queries(rng, verts, length)
    if not jitter:  # lattice planes: pass through many vertices
        for _ in range(2):
            a = rng.randrange(3)
            lvl = rng.randint(0, dims[a])
            on = [n for n in used if n[a] == lvl]
            if not on:
                continue
            e = np.eye(3)[a] @ frame
            o = geom.arr(used[rng.choice(on)])
            if mclass != "exact" or rng.random() < 0.5:
                t1, t2 = np.eye(3)[(a + 1) % 3] @ frame, np.eye(3)[(a + 2) % 3] @ frame
                o = o + rng.uniform(-3, 3) * t1 + rng.uniform(-3, 3) * t2
            q = {"q": "plane", "type": "lattice", "o": _fl(o), "n": _fl(e * (10 ** rng.uniform(-3, 3) if rng.random() < 0.7 else 1.0))}
            queries += [q, plane_offsets(rng, q)]
    if mclass == "exact":
        for _ in range(4):
            v = rng.choice(verts)
            off = rng.choice(EXACT_OFFSETS)
            m = rng.choice([1, 1, 2])
            p = [v[a] + m * off[a] for a in range(3)]
            r = m * round(math.sqrt(sum(x * x for x in off)))
            queries.append({"q": "sphere", "type": "exact-boundary", "p": _fl(p), "r": float(r)})
            if rng.random() < 0.3:
                queries.append({"q": "sphere", "type": "exact-plus-1", "p": _fl(p), "r": float(r + 1)})
    rng.shuffle(queries)
    moves = []
    if mclass != "exact" and rng.random() < 0.4:
        moves = [[rng.random(), [rng.uniform(-0.4, 0.4) * length for _ in range(3)]] for _ in range(rng.randint(1, 3))]
    return {"kind": "boxes", "mclass": mclass, "exact": mclass == "exact", "blocks": blocks, "queries": queries,
            "merge": rng.random() < 0.3, "moves": moves, "reassemble": rng.random() < 0.3}


def run_boxes(ctx, case):
    from classy_blocks.construct.flat.face import Face
    from classy_blocks.construct.operations.loft import Loft
    from classy_blocks.mesh import Mesh

    mesh = Mesh()
    lofts = [Loft(Face(pts[:4]), Face(pts[4:])) for pts in case["blocks"]]
    if case.get("merge"):
        # one face-merged pair: the slave side gets its own copies of the interface vertices, so two mesh vertices
        # share a position and a finder must return both of them
        done = False
        for x in range(len(lofts)):
            for y in range(x + 1, len(lofts)):
                common = {tuple(p) for p in case["blocks"][x]} & {tuple(p) for p in case["blocks"][y]}
                if len(common) == 4 and not done:
                    sx = [n for n, c in hexconv.SIDES.items() if {tuple(case["blocks"][x][k]) for k in c} == common]
                    sy = [n for n, c in hexconv.SIDES.items() if {tuple(case["blocks"][y][k]) for k in c} == common]
                    if sx and sy:
                        lofts[x].set_patch(sx[0], "mM")
                        lofts[y].set_patch(sy[0], "mS")
                        mesh.merge_patches("mM", "mS")
                        done = True
    for loft in lofts:
        mesh.add(loft)
    mesh.assemble()
    distinct = {tuple(p) for pts in case["blocks"] for p in pts}
    if len(mesh.vertices) > len(distinct) and case.get("merge"):
        ctx.count("mesh:merged-pair-with-duplicated-vertices")
    elif len(mesh.vertices) != len(distinct):
        ctx.count("boxes:vertex-count-differs-from-distinct-points(C05)")
    ctx.count("mesh:boxes")
    ctx.count("mesh:exact-integer" if case["exact"] else "mesh:float")
    if case["mclass"].startswith("rotated"):
        ctx.count("mesh:rotated")
    ctx.sample({"kind": "boxes", "mclass": case["mclass"], "blocks": case["blocks"], "queries": case["queries"][:6]})
    run_queries(ctx, case, mesh, f"boxes:{case['mclass']}:{min(len(case['blocks']), 3)}")


# ======================================================================================================
# round shapes
# ======================================================================================================
def gen_round(rng, shape=None):
    shape = shape or rng.choice(["Cylinder", "Cylinder", "SemiCylinder", "Frustum", "Frustum", "Elbow", "Elbow"])
    frame = geom.orthonormal_frame(rng) if rng.random() < 0.8 else np.eye(3)
    ax, e1, e2 = frame[0], frame[1], frame[2]
    size = 10 ** rng.uniform(-0.7, 0.7)
    c1 = geom.arr(geom.rand_vec(rng, -5, 5)) * rng.choice([0.0, 1.0, 1.0])
    r1 = size * rng.uniform(0.5, 1.5)
    length = size * rng.uniform(0.5, 4)
    case = {"kind": "round", "shape": shape}
    if shape in ("Cylinder", "SemiCylinder", "Frustum"):
        case.update(axis_point_1=_fl(c1), axis_point_2=_fl(c1 + ax * length), radius_point_1=_fl(c1 + e1 * r1))
        if shape == "Frustum":
            case["radius_2"] = r1 * rng.uniform(0.4, 1.8)
            case["radius_mid"] = r1 * rng.uniform(0.6, 1.4) if rng.random() < 0.3 else None
    else:
        r2 = r1 * rng.uniform(0.5, 1.5)
        arc_dist = max(r1, r2) * rng.uniform(1.6, 4)
        case.update(center_point_1=_fl(c1), radius_point_1=_fl(c1 + e1 * r1), normal_1=_fl(ax * rng.uniform(0.5, 2)),
                    sweep_angle=rng.uniform(0.3, 2.0) * rng.choice([1, -1]), arc_center=_fl(c1 + e2 * arc_dist),
                    rotation_axis=_fl(e1 * rng.uniform(0.5, 2)), radius_2=r2)
    (s1, n1, ra), (s2, n2, rb) = orc.round_ends(case)
    extras = []
    u = rng.random()
    if u < 0.3 and shape != "SemiCylinder":  # a full cylinder chained to a half one adds foreign vertices to the end disc
        extras.append({"what": "chain-cylinder", "length": size * rng.uniform(0.5, 2), "start_face": rng.random() < 0.5})
    elif u < 0.45 and shape == "Cylinder":
        extras.append({"what": "ring", "outer": rng.uniform(1.3, 2.0)})
    elif u < 0.6 and shape != "SemiCylinder":
        extras.append({"what": "chain-frustum", "length": size * rng.uniform(0.5, 2), "start_face": rng.random() < 0.5,
                       "radius_2": size * rng.uniform(0.3, 1.5)})
    if rng.random() < 0.4:
        far = (s1 + s2) / 2 + geom.rand_unit(rng) * (6 * max(ra, rb) + 3 * length + 5 * size)
        extras.append({"what": "far-box", "corner": _fl(far), "size": _fl([size * rng.uniform(0.5, 2) for _ in range(3)])})
    case["extras"] = extras
    case["extras_first"] = rng.random() < 0.4
    # geometric finder queries on the same mesh, from the construction parameters
    queries = []
    for (c, n, r) in ((s1, n1, ra), (s2, n2, rb)):
        for rho in rng.sample([0.5, 0.99, 1.01, 2.0], 2):
            queries.append({"q": "sphere", "type": f"ratio:{rho}", "p": _fl(c), "r": r / rho})
        k = rng.choice([0.0, 0.3, 3.0])
        rim = c + r * geom.unit(np.cross(n, geom.rand_unit(rng)))
        queries.append({"q": "sphere", "type": f"default:{k}", "p": _fl(c + k * TOL * geom.rand_unit(rng)), "r": None})
        queries.append({"q": "sphere", "type": "rim-generic", "p": _fl(rim), "r": r * rng.uniform(0.1, 1.0)})
        t = geom.unit(np.cross(n, geom.rand_unit(rng)))
        q = {"q": "plane", "type": "end-plane", "o": _fl(c + t * r * rng.uniform(-3, 3)), "n": _fl(n * 10 ** rng.uniform(-2, 2))}
        queries += [q, plane_offsets(rng, q)]
    q = {"q": "plane", "type": "axial-plane", "o": _fl(s1), "n": _fl(np.cross(n1, geom.arr(case["radius_point_1"]) - s1))}
    queries += [q, plane_offsets(rng, q)]
    queries.append({"q": "plane", "type": "generic", "o": _fl(s1 + geom.arr(geom.rand_vec(rng)) * r1), "n": _fl(geom.rand_unit(rng))})
    case["queries"] = queries
    return case


def build_round(case):
    import classy_blocks as cb

    s = case["shape"]
    if s in ("Cylinder", "SemiCylinder"):
        shape = getattr(cb, s)(case["axis_point_1"], case["axis_point_2"], case["radius_point_1"])
    elif s == "Frustum":
        shape = cb.Frustum(case["axis_point_1"], case["axis_point_2"], case["radius_point_1"], case["radius_2"],
                           case.get("radius_mid"))
    else:
        shape = cb.Elbow(case["center_point_1"], case["radius_point_1"], case["normal_1"], case["sweep_angle"],
                         case["arc_center"], case["rotation_axis"], case["radius_2"])
    extras = []
    for ex in case["extras"]:
        if ex["what"] == "chain-cylinder":
            extras.append(cb.Cylinder.chain(shape, ex["length"], ex["start_face"]))
        elif ex["what"] == "chain-frustum":
            extras.append(cb.Frustum.chain(shape, ex["length"], ex["radius_2"], ex["start_face"]))
        elif ex["what"] == "ring":
            a1, rp = geom.arr(case["axis_point_1"]), geom.arr(case["radius_point_1"])
            extras.append(cb.ExtrudedRing(case["axis_point_1"], case["axis_point_2"], _fl(a1 + (rp - a1) * ex["outer"]),
                                          geom.dist(rp, a1)))
        elif ex["what"] == "far-box":
            c = geom.arr(ex["corner"])
            extras.append(cb.Box(_fl(c), _fl(c + geom.arr(ex["size"]))))
    mesh = cb.Mesh()
    for item in (extras + [shape]) if case["extras_first"] else ([shape] + extras):
        mesh.add(item)
    mesh.assemble()
    return mesh, shape


def run_round(ctx, case):
    from classy_blocks.modify.find.shape import RoundSolidFinder

    mesh, shape = build_round(case)
    verts = list(mesh.vertices)
    pos = [np.array(v.position, dtype=float) for v in verts]
    ends = orc.round_ends(case)
    extras = "+".join(sorted(e["what"] for e in case["extras"])) or "alone"
    ctx.count("mesh:round")
    ctx.count("round:shape:" + case["shape"])
    ctx.sample({k: v for k, v in case.items() if k != "queries"})
    finder = RoundSolidFinder(mesh, shape)
    for end_face, (centre, normal, radius) in zip((False, True), ends):
        if end_face and int(sum(abs(x) for x in pos[0]) * 1e6) % 3 == 0:
            # history: the mesh is back-ported (new Vertex objects) between the queries for the two end faces
            try:
                mesh.backport()
            except Exception as err:  # noqa: BLE001
                ctx.violation(f"backport-between-queries:raised:{type(err).__name__}", f"{err!r}")
                return
            verts = list(mesh.vertices)
            pos = [np.array(v.position, dtype=float) for v in verts]
            ctx.count("mesh:re-assembled-between-queries")
        core, rim, ambiguous = orc.disc_sets(pos, centre, normal, radius)
        which = "end-face" if end_face else "start-face"
        if ambiguous or not core or not rim:
            ctx.count("round:skipped-ambiguous-geometry")
            continue
        for name, want in (("core", core), ("shell", rim)):
            ctx.evaluated()
            call = f"{case['shape']}[{extras}].find_{name}(end_face={end_face})"
            try:
                found = getattr(finder, "find_" + name)(end_face)
            except Exception as err:  # noqa: BLE001
                ctx.violation(f"round:{name}:raised:{type(err).__name__}", f"{call}: {err!r} | case={_brief(case)}")
                continue
            got = _indices(ctx, "round:" + name, found, verts, call)
            if got is None:
                continue
            ctx.count(f"round:{name}-judged")
            ctx.count("round:" + which)
            ctx.key(["round", case["shape"], extras, which, name, len(want)], nontrivial=True)
            if got == want and isinstance(found, (set, list)):
                # history: callers combine results in place (`inner = find_core(True); inner.update(find_core(False))`);
                # what they do to a returned collection must not change what the finder returns next time
                try:
                    found.clear()
                except AttributeError:
                    pass
                again = _indices(ctx, "round:" + name, getattr(finder, "find_" + name)(end_face), verts, call + " [2nd call]")
                ctx.count("round:second-call-after-mutating-the-result")
                if again is not None and again != want:
                    ctx.violation(f"round:{name}:second-call-differs-after-caller-mutated-the-result",
                                  f"{call}: first call {sorted(want)}, after result.clear() the same call returns {sorted(again)}")
                    continue
            if got != want:
                kind = "extra" if got - want and not want - got else "missing" if want - got and not got - want else "other-vertices"
                ctx.violation(f"round:{name}:{kind}:{which}",
                              f"{call}: returned {sorted(got)}, geometry says {sorted(want)} "
                              f"(in the plane through {centre.tolist()} normal {normal.tolist()}, "
                              f"{'inside' if name == 'core' else 'on'} radius {radius}); returned-only "
                              f"{[pos[i].tolist() for i in sorted(got - want)][:4]}, expected-only "
                              f"{[pos[i].tolist() for i in sorted(want - got)][:4]} | case={_brief(case)}")
    run_queries(ctx, case, mesh, f"round:{case['shape']}")


def _brief(case):
    return {k: v for k, v in case.items() if k != "queries"}


# ======================================================================================================
def fixed_cases(tier):
    cases = []
    unit = [[float(x) for x in c] for c in hexconv.CORNER]
    dirs = {"left": (-1, 0, 0), "right": (1, 0, 0), "front": (0, -1, 0), "back": (0, 1, 0), "bottom": (0, 0, -1), "top": (0, 0, 1)}
    for f in hexconv.SIDE_NAMES:  # the unit cube seen exactly along its axes: 24 viewpoints
        for t in PERP_SIDES[f]:
            cases.append({"kind": "reorient", "pts": unit, "observer": [0.5 + 10 * dirs[f][a] for a in range(3)],
                          "ceiling": [0.5 + 10 * dirs[t][a] for a in range(3)], "jitter": "none", "angle": "0-5",
                          "front": f, "top": t})
    # one box, vertices exactly on the query sphere
    box = [[0.0, 0.0, 0.0], [3.0, 0.0, 0.0], [3.0, 4.0, 0.0], [0.0, 4.0, 0.0], [0.0, 0.0, 2.0], [3.0, 0.0, 2.0],
           [3.0, 4.0, 2.0], [0.0, 4.0, 2.0]]
    cases.append({"kind": "boxes", "mclass": "exact", "exact": True, "blocks": [box], "queries": [
        {"q": "sphere", "type": "exact-boundary", "p": [0.0, 0.0, 0.0], "r": 5.0},
        {"q": "sphere", "type": "exact-boundary", "p": [0.0, 0.0, 0.0], "r": 3.0},
        {"q": "sphere", "type": "exact-plus-1", "p": [0.0, 0.0, 0.0], "r": 6.0},
        {"q": "sphere", "type": "default:0.0", "p": [3.0, 4.0, 2.0], "r": None},
        {"q": "plane", "type": "lattice", "o": [7.0, -2.0, 2.0], "n": [0.0, 0.0, 5.0]},
        {"q": "plane", "type": "3-vertices", "o": [1.5, 2.0, 1.0], "n": [4.0, -3.0, 0.0]},
    ]})
    for shape in ("Cylinder", "SemiCylinder"):
        cases.append({"kind": "round", "shape": shape, "axis_point_1": [0.0, 0.0, 0.0], "axis_point_2": [1.0, 0.0, 0.0],
                      "radius_point_1": [0.0, 1.0, 0.0], "extras": [], "extras_first": False, "queries": [
                          {"q": "plane", "type": "end-plane", "o": [1.0, 5.0, 5.0], "n": [2.0, 0.0, 0.0]},
                          {"q": "sphere", "type": "ratio:1.01", "p": [0.0, 0.0, 0.0], "r": 1 / 1.01}]})
    return cases


def gen_case(ctx):
    u = ctx.rng.random()
    if u < 0.25:
        return gen_reorient(ctx.rng)
    if u < 0.85:
        return gen_boxes(ctx.rng)
    return gen_round(ctx.rng)


def run_case(ctx, case):
    {"reorient": run_reorient, "boxes": run_boxes, "round": run_round}[case["kind"]](ctx, case)
