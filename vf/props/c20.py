"""C20 — construction and life-cycle preconditions are enforced symmetrically (DESIGN 3/C20).

Monitor: a table of (callable, documented boundary) rows (vf/xc20_rows.py). Every case names one row and carries the
literal arguments; the REAL constructor / mutator is called inside valid, randomly placed surroundings and the outcome
(returned normally / exception class) is judged against the side of the boundary the arguments lie on. The side is
re-computed from the literal numbers by the row's own independent oracle (index ranges, counts, the 12 hexahedron
edges from the OpenFOAM guide, dot products and norms computed here) - never by library code.

  reject side:  returning normally                              -> violation  accepted:<row>:<class>
                exception outside the documented family         -> violation  crashed:<row>:<class>:<Exception>
  accept side:  any exception                                   -> violation  valid-rejected:<row>:<class>:<Exception>
"""

import json
import random

from vf import xc20_rows
from vf.xc20_rows import ROWS

ID = "C20"
BUDGET = {"quick": 20000, "thorough": 500000}
MIN_KEYS = 150
REQUIRED = [f"row:{name}:{side}" for name in ROWS for side in ("accept", "reject")] + [
    "outcome:accept:returned", "outcome:reject:rejected-in-family"]
RULE = (
    f"{len(ROWS)} (callable, documented boundary) rows x classes on both sides of the boundary: counts of points / edges / "
    "coordinates / vertices / faces +-1 (+-2), corner and axis indices -(max+4)..max+5 (all values enumerated), all 12x12 "
    "corner pairs in -2..9, 0-4 projection labels and the 1st/2nd/3rd label on one edge (Face, Operation edge, Operation "
    "side), length_ratio in {<0, -1e-6, 0, 1e-6, inside, 1, 1+1e-6, >1} directly and through Mesh.assemble+grade, inner "
    "vs outer radius {<, = (exact dyadic geometry), >} for Annulus / ExtrudedRing / contract / expand, radius vector "
    "leaning by 0, +-1e-9 (accept) and +-{1e-3..1.2} rad (reject) towards +axis and -axis at random azimuth for Cylinder / "
    "SemiCylinder / Frustum / Annulus / ExtrudedRing, chain length +- from Cylinder / Frustum / Elbow / ring sources on either "
    "face, start / end / middle sketch with more or fewer faces, Cylinder.fill on 4/6/7/8/9/12-segment rings, Elbow.chain on a "
    "ring, second clamp "
    "on a vertex, clamp / link positions at, within 1e-8 of, and >= 1e-3 off a vertex, grade / backport before assemble "
    "and after clear, Shell.chop on disconnected faces; all inside randomly rotated / translated valid surroundings "
    "(Loft / Extrude / Box / Revolve operations, 1-3 block meshes). non-trivial: every judged case; distinct by "
    "(row, class, side, outcome kind); both sides of every row are REQUIRED counters"
)
ASSUMPTIONS = [
    "accepted family of rejections = exception classes defined inside classy_blocks (and subclasses) + ValueError, "
    "KeyError, RuntimeError (and subclasses); IndexError, TypeError, AttributeError, ZeroDivisionError ... on the reject "
    "side count as rejected by accident",
    "accept side = arguments the docstring / error message declares valid (index inside the stated range, exactly the "
    "stated count, deviation from perpendicular <= 1e-9 rad with |axis||radius| <= 6 so that every plausible comparand "
    "stays below 2e-8 << TOL=1e-7); an exception there is reported as valid-rejected (DESIGN C20, R)",
    "reject side keeps a margin from the boundary: lean >= 1e-3 rad (dot product >= 1e-4 >> TOL), radii / lengths off by "
    ">= 5e-4 relative, positions >= 1e-4 from every vertex, length_ratio <= 0 or >= 1+5e-7; cases inside the band are "
    "not judged (counter skipped:tolerance-band)",
    "'inner = outer' is judged only on dyadic axis-aligned geometry where centre + radius and the norm are exact in "
    "binary floating point; 'contract to the source's inner radius' passes the float the library itself reports as "
    "source.sketch_1.inner_radius",
    "SymmetryLink rows use origin (0,0,0): functions.mirror shifts its argument in place (a C09/C17 finding) and would "
    "otherwise move the leader of a valid link",
    "Elbow (documents no perpendicularity requirement), zero chain length, expand(thickness=0), non-integer indices and "
    "same-count-different-layout sketches are outside the statement's domain and are not rows",
]

_FAMILY = (ValueError, KeyError, RuntimeError)


def in_family(err):
    if isinstance(err, _FAMILY):
        return True
    for klass in type(err).__mro__:
        if klass in (Exception, BaseException, object):
            continue
        if (klass.__module__ or "").split(".")[0] == "classy_blocks":
            return True
    return False


def _mk(row, cls, params):
    return {"row": row.name, "cls": cls, "params": params}


def fixed_cases(tier):
    """every (row, class) a few times with a fixed generator + the enumerated index / pair sub-spaces"""
    reps = 2 if tier == "quick" else 6
    cases = []
    for row in ROWS.values():
        for cls in row.classes:
            for i in range(reps):
                rng = random.Random(f"C20/fixed/{row.name}/{cls}/{i}")
                cases.append(_mk(row, cls, row.gen(rng, cls)))
        for cls, params in row.fixed():
            cases.append(_mk(row, cls, params))
    return cases


_NAMES = list(ROWS)
_WEIGHTS = [ROWS[n].weight for n in _NAMES]


def gen_case(ctx):
    rng = ctx.rng
    row = ROWS[rng.choices(_NAMES, _WEIGHTS)[0]]
    cls = rng.choice(list(row.classes))
    return _mk(row, cls, row.gen(rng, cls))


def brief(params):
    """the scalar / short part of the parameters first (messages are cut at 2000 characters)"""
    short = {k: v for k, v in params.items() if len(json.dumps(v, default=str)) <= 160}
    long = {k: v for k, v in params.items() if k not in short}
    return json.dumps(short, default=str) + (" | " + json.dumps(long, default=str) if long else "")


def run_case(ctx, case):
    import classy_blocks as cb

    row = ROWS[case["row"]]
    cls, p = case["cls"], case["params"]
    side = row.side(p)  # independent of the library and of the generator's intention
    if side is None:
        ctx.count("skipped:tolerance-band")
        return
    if side != row.classes.get(cls):
        ctx.count("note:generator-class-and-oracle-side-differ")
    call = row.prepare(cb, p)  # valid surroundings; an exception here is not the judged call (core reports it)
    err = None
    try:
        call()
    except Exception as exc:  # noqa: BLE001
        err = exc
    ctx.evaluated()
    ctx.count(f"row:{row.name}:{side}")
    ctx.count(f"clause:{row.clause}:{side}")
    if err is None:
        kind = "returned"
    elif in_family(err):
        kind = "rejected-in-family"
    else:
        kind = f"crashed:{type(err).__name__}"
    ctx.count(f"outcome:{side}:{kind.split(':')[0]}")
    if err is not None:
        ctx.count(f"exception:{type(err).__name__}")
    ctx.key([row.name, cls, side, kind])
    if ctx.evaluations % 53 == (7 * ctx.shard + 3) % 53:  # literal samples spread over rows and shards
        ctx.sample({"row": row.name, "class": cls, "side": side,
                    "outcome": kind if err is None else f"{kind} {type(err).__name__}", "params": brief(p)[:600]})
    mcls = cls.rsplit(":", 1)[0] if row.clause == "not-perpendicular" else cls  # direction, not magnitude, is structural
    what = f"{row.name} [{cls}] {brief(p)}"
    if side == "reject":
        if err is None:
            ctx.violation(f"accepted:{row.name}:{mcls}",
                          f"arguments on the reject side of a documented boundary were accepted silently: {what}")
        elif kind.startswith("crashed"):
            ctx.violation(f"crashed:{row.name}:{mcls}:{type(err).__name__}",
                          f"rejected only by accident ({type(err).__name__}: {err}), not by a creation / value / key / "
                          f"runtime error: {what}")
    else:
        if err is not None:
            ctx.violation(f"valid-rejected:{row.name}:{mcls}:{type(err).__name__}",
                          f"documented-valid arguments raised {type(err).__name__}: {err}: {what}")


def evidence_extra(counters, keys):
    rows = {}
    for name in ROWS:
        rows[name] = {"accept": counters.get(f"row:{name}:accept", 0), "reject": counters.get(f"row:{name}:reject", 0)}
    return {"rows": rows, "row_count": len(ROWS),
            "classes_total": sum(len(r.classes) for r in ROWS.values()), "table": "vf/xc20_rows.py"}


_ = xc20_rows  # the table module is part of this check
