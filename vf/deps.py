"""Third-party packages the harness needs beside the repository's interpreter (offline wheelhouse)."""

import os
import subprocess
import sys

ROOT = os.path.dirname(os.path.dirname(os.path.abspath(__file__)))
DEPS = os.path.join(ROOT, ".deps")
WHEELS = "/opt/veriftools/wheels"
PKGS = ["icontract"]


def present():
    return os.path.isdir(os.path.join(DEPS, "icontract"))


def ensure():
    """Returns (ok, reason). Idempotent; ~2 s the first time."""
    if present():
        return True, ""
    try:
        r = subprocess.run(
            ["/venv/bin/pip", "install", "--quiet", "--no-index", "--find-links", WHEELS, "--target", DEPS] + PKGS,
            capture_output=True, text=True, timeout=300,
        )
    except Exception as err:  # noqa: BLE001
        return False, f"pip failed: {err}"
    if r.returncode != 0 or not present():
        return False, "pip: " + (r.stderr or r.stdout)[-300:]
    return True, ""


if __name__ == "__main__":
    ok, why = ensure()
    print("deps ok" if ok else f"deps FAILED: {why}")
    sys.exit(0 if ok else 1)
