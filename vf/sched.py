"""Source-free schedule / fault injection (DESIGN 2.4): permuted sets, logical step budgets, failpoints."""

import contextlib
import itertools

from vf.core import Budget


class PermutedSet(set):
    """A set whose iteration order is chosen by the harness. Membership, add, len, == are those of set.
    Elements added later are yielded after the fixed prefix, in the underlying set's own order."""

    def __init__(self, elements, order=None):
        super().__init__(elements)
        self._order = list(order if order is not None else elements)

    def __iter__(self):
        seen = set()
        for e in self._order:
            if set.__contains__(self, e):
                seen.add(id(e))
                yield e
        for e in set.__iter__(self):
            if id(e) not in seen:
                yield e


def neighbour_sets(mesh):
    """all (owner, attribute, container) whose iteration order the propagation loop depends on and that are
    genuinely unordered: type(c) is set (an ordered replacement introduced by a fix is left alone)"""
    out = []
    for block in mesh.blocks:
        for axis in block.axes:
            if type(axis.neighbours) is set:
                out.append((axis, "neighbours"))
            for wire in axis.wires:
                if type(wire.coincidents) is set:
                    out.append((wire, "coincidents"))
    return out


def permute_sets(mesh, rng, mode="random"):
    """Replace every genuine set by a PermutedSet. mode: 'random' | 'reversed-creation' | 'by-block-desc'.
    Returns (#sets replaced, #sets with >= 2 elements, signature of the chosen orders)."""
    sets = neighbour_sets(mesh)
    owner_block = {}
    for block in mesh.blocks:
        for axis in block.axes:
            owner_block[id(axis)] = (block.index, axis.index)
            for k, wire in enumerate(axis.wires):
                owner_block[id(wire)] = (block.index, axis.index, k)
    multi = 0
    sig = []
    for owner, attr in sets:
        cont = getattr(owner, attr)
        elems = sorted(cont, key=lambda e: owner_block[id(e)])
        if len(elems) >= 2:
            multi += 1
        if mode == "random":
            rng.shuffle(elems)
        elif mode == "desc":
            elems.reverse()
        sig.append(tuple(owner_block[id(e)] for e in elems))
        setattr(owner, attr, PermutedSet(elems, elems))
    return len(sets), multi, hash(tuple(sig))


def all_small_permutations(mesh, limit=6):
    """for reporting: product of factorials of the set sizes (how many schedules exist)"""
    import math

    total = 1
    for owner, attr in neighbour_sets(mesh):
        total *= math.factorial(len(getattr(owner, attr)))
        if total > 10**limit:
            return total
    return total


@contextlib.contextmanager
def step_budget(cls, name, limit):
    """Count calls of cls.name; the (limit+1)-th raises Budget (a BaseException)."""
    orig = getattr(cls, name)
    counter = itertools.count(1)
    state = {"calls": 0}

    def wrapped(*a, **kw):
        state["calls"] = next(counter)
        if state["calls"] > limit:
            raise Budget(f"{cls.__name__}.{name} called more than {limit} times")
        return orig(*a, **kw)

    setattr(cls, name, wrapped)
    try:
        yield state
    finally:
        setattr(cls, name, orig)


@contextlib.contextmanager
def property_budget(cls, name, limit):
    """Same for a property: the (limit+1)-th read raises Budget."""
    orig = cls.__dict__[name]
    state = {"calls": 0}

    def getter(self):
        state["calls"] += 1
        if state["calls"] > limit:
            raise Budget(f"{cls.__name__}.{name} read more than {limit} times")
        return orig.fget(self)

    setattr(cls, name, property(getter))
    try:
        yield state
    finally:
        setattr(cls, name, orig)


def propagation_budget(nblocks):
    # every productive pass of the while-loop defines at least one of <= 3B block directions or removes
    # one of B blocks from the undefined set, and one pass calls copy_grading on <= B blocks
    return (3 * nblocks + nblocks + 2) * nblocks + 10
