"""Independent reader for what classy_blocks writes: OpenFOAM dictionary syntax -> blockMeshDict
structure, and the legacy-VTK debug file. Nothing from classy_blocks is imported."""

import re


class ParseError(Exception):
    pass


_TOKEN = re.compile(r"[(){};]|[^\s(){};]+")


def strip_comments(text):
    text = re.sub(r"/\*.*?\*/", " ", text, flags=re.S)
    return re.sub(r"//[^\n]*", " ", text)


def tokenize(text):
    return _TOKEN.findall(strip_comments(text))


def _num(tok):
    try:
        if re.fullmatch(r"[+-]?\d+", tok):
            return int(tok)
        return float(tok)
    except ValueError:
        return tok


class _Dict(list):
    """list of (key, values) entries of a { } block"""


class _P:
    def __init__(self, toks):
        self.t, self.i = toks, 0

    def peek(self):
        return self.t[self.i] if self.i < len(self.t) else None

    def next(self):
        if self.i >= len(self.t):
            raise ParseError("unexpected end of file")
        tok = self.t[self.i]
        self.i += 1
        return tok

    def value(self):
        tok = self.next()
        if tok == "(":
            out = []
            while True:
                if self.peek() is None:
                    raise ParseError("unbalanced (")
                if self.peek() == ")":
                    self.next()
                    return out
                out.append(self.value())
        if tok == "{":
            return self.dict_body("}")
        if tok in (")", "}", ";"):
            raise ParseError(f"unexpected {tok!r} at token {self.i}")
        return _num(tok)

    def dict_body(self, closer):
        """entries until closer (None = end of file): key values... ;   |   key { ... } [;]"""
        entries = _Dict()
        while True:
            tok = self.peek()
            if tok == closer:
                if closer is not None:
                    self.next()
                return entries
            if tok is None:
                raise ParseError("unbalanced {")
            key = self.next()
            if key in ("(", ")", "{", "}", ";"):
                raise ParseError(f"bad key {key!r} at token {self.i}")
            vals = []
            while True:
                nxt = self.peek()
                if nxt == ";":
                    self.next()
                    break
                if nxt is None:
                    raise ParseError(f"entry {key!r} not terminated")
                v = self.value()
                vals.append(v)
                if isinstance(v, _Dict):
                    if self.peek() == ";":
                        self.next()
                    break
            entries.append((key, vals))
        # unreachable


def fmt(v):
    """render a parsed value back as text (for verbatim comparison of settings / geometry lines)"""
    if isinstance(v, _Dict):
        return "{" + " ".join(f"{k} {' '.join(fmt(x) for x in vs)};" for k, vs in v) + "}"
    if isinstance(v, list):
        return "(" + " ".join(fmt(x) for x in v) + ")"
    return str(v)


def parse_entries(text):
    p = _P(tokenize(text))
    return p.dict_body(None)


def _is_vec(v, n=3):
    return isinstance(v, list) and len(v) == n and all(isinstance(x, (int, float)) for x in v)


def parse_blockmesh(text):
    """-> dict(settings, geometry, vertices, blocks, edges, faces, boundary, default_patch, merge_pairs)"""
    raw_entries = {}
    order = []
    toks_raw = text
    for key, vals in parse_entries(text):
        if key in raw_entries:
            raise ParseError(f"duplicate top-level entry {key}")
        raw_entries[key] = vals
        order.append(key)
    out = {"order": order}
    known = {"FoamFile", "geometry", "vertices", "blocks", "edges", "faces", "boundary", "defaultPatch",
             "mergePatchPairs", "patches"}
    out["settings"] = {k: " ".join(fmt(x) for x in v) for k, v in raw_entries.items() if k not in known}
    for req in ("vertices", "blocks", "edges", "boundary"):
        if req not in raw_entries:
            raise ParseError(f"section {req} missing")

    # geometry
    geo = {}
    if "geometry" in raw_entries:
        (body,) = raw_entries["geometry"]
        if not isinstance(body, _Dict):
            raise ParseError("geometry is not a dictionary")
        for name, vals in body:
            if len(vals) != 1 or not isinstance(vals[0], _Dict):
                raise ParseError(f"geometry {name} is not a dictionary")
            if name in geo:
                raise ParseError(f"geometry {name} defined twice")
            geo[name] = [f"{k} {' '.join(fmt(x) for x in vs)}" for k, vs in vals[0]]
    out["geometry"] = geo

    # vertices
    (vl,) = raw_entries["vertices"]
    verts = []
    i = 0
    while i < len(vl):
        v = vl[i]
        if v == "project":
            pos, labels = vl[i + 1], vl[i + 2]
            if not _is_vec(pos) or not isinstance(labels, list):
                raise ParseError(f"bad projected vertex at {i}")
            verts.append({"pos": [float(x) for x in pos], "project": [str(x) for x in labels]})
            i += 3
        elif _is_vec(v):
            verts.append({"pos": [float(x) for x in v], "project": None})
            i += 1
        else:
            raise ParseError(f"bad vertex entry {v!r}")
    out["vertices"] = verts

    # blocks
    (bl,) = raw_entries["blocks"]
    blocks = []
    i = 0
    while i < len(bl):
        if bl[i] != "hex":
            raise ParseError(f"expected hex, got {bl[i]!r}")
        idx = bl[i + 1]
        if not (isinstance(idx, list) and len(idx) == 8 and all(isinstance(x, int) for x in idx)):
            raise ParseError(f"bad hex indexes {idx!r}")
        i += 2
        zone = ""
        if not isinstance(bl[i], list):
            zone = str(bl[i])
            i += 1
        counts = bl[i]
        if not (_is_vec(counts) and all(isinstance(x, int) for x in counts)):
            raise ParseError(f"bad counts {counts!r}")
        kind = bl[i + 1]
        grad = bl[i + 2]
        if kind not in ("simpleGrading", "edgeGrading") or not isinstance(grad, list):
            raise ParseError(f"bad grading {kind!r}")
        if len(grad) != (3 if kind == "simpleGrading" else 12):
            raise ParseError(f"{kind} with {len(grad)} entries")
        specs = []
        for g in grad:
            if isinstance(g, (int, float)):
                specs.append([(1.0, 1, float(g))])
            elif isinstance(g, list) and g and all(_is_vec(s) for s in g):
                specs.append([(float(s[0]), s[1], float(s[2])) for s in g])
            else:
                raise ParseError(f"bad grading element {g!r}")
        blocks.append({"idx": idx, "zone": zone, "counts": list(counts), "kind": kind, "grading": specs})
        i += 3
    out["blocks"] = blocks

    # edges
    (el,) = raw_entries["edges"]
    edges = []
    i = 0
    while i < len(el):
        kind = el[i]
        a, b = el[i + 1], el[i + 2]
        if not (isinstance(kind, str) and isinstance(a, int) and isinstance(b, int)):
            raise ParseError(f"bad edge entry at {i}: {el[i:i+3]!r}")
        data = el[i + 3]
        if kind == "arc":
            if not _is_vec(data):
                raise ParseError("arc point")
            edges.append({"kind": kind, "a": a, "b": b, "point": [float(x) for x in data]})
        elif kind in ("spline", "polyLine", "BSpline"):
            if not (isinstance(data, list) and all(_is_vec(p) for p in data)):
                raise ParseError(f"{kind} point list")
            edges.append({"kind": kind, "a": a, "b": b, "points": [[float(x) for x in p] for p in data]})
        elif kind == "project":
            if not isinstance(data, list):
                raise ParseError("project labels")
            edges.append({"kind": kind, "a": a, "b": b, "labels": [str(x) for x in data]})
        else:
            raise ParseError(f"unknown edge kind {kind!r}")
        i += 4
    out["edges"] = edges
    # the commented alternative specifications
    out["edge_comments"] = re.findall(r"//\s*arc\s+(\d+)\s+(\d+)\s+([^\n]*)", toks_raw)

    # faces
    faces = []
    if "faces" in raw_entries:
        (fl,) = raw_entries["faces"]
        i = 0
        while i < len(fl):
            if fl[i] != "project" or not (isinstance(fl[i + 1], list) and len(fl[i + 1]) == 4):
                raise ParseError(f"bad face entry {fl[i:i+3]!r}")
            faces.append({"quad": list(fl[i + 1]), "label": str(fl[i + 2])})
            i += 3
    out["faces"] = faces

    # boundary
    (bd,) = raw_entries["boundary"]
    boundary = []
    i = 0
    while i < len(bd):
        name, body = bd[i], bd[i + 1]
        if not isinstance(body, _Dict):
            raise ParseError(f"patch {name} has no dictionary")
        patch = {"name": str(name), "type": None, "settings": [], "faces": []}
        for k, vs in body:
            if k == "type":
                patch["type"] = " ".join(fmt(x) for x in vs)
            elif k == "faces":
                (ql,) = vs
                for q in ql:
                    if not (isinstance(q, list) and len(q) == 4 and all(isinstance(x, int) for x in q)):
                        raise ParseError(f"bad quad {q!r} in patch {name}")
                    patch["faces"].append(list(q))
            else:
                patch["settings"].append(f"{k} {' '.join(fmt(x) for x in vs)}")
        boundary.append(patch)
        i += 2
    out["boundary"] = boundary

    dp = None
    if "defaultPatch" in raw_entries:
        (body,) = raw_entries["defaultPatch"]
        dp = {k: " ".join(fmt(x) for x in vs) for k, vs in body}
    out["default_patch"] = dp
    mp = []
    if "mergePatchPairs" in raw_entries:
        (ml,) = raw_entries["mergePatchPairs"]
        for pair in ml:
            if not (isinstance(pair, list) and len(pair) == 2):
                raise ParseError(f"bad merge pair {pair!r}")
            mp.append((str(pair[0]), str(pair[1])))
    out["merge_pairs"] = mp
    return out


def read_blockmesh(path):
    with open(path) as fh:
        return parse_blockmesh(fh.read())


def parse_vtk(text):
    lines = [ln.strip() for ln in text.splitlines()]
    it = iter(range(len(lines)))
    pts, cells, types = [], [], []
    i = 0
    while i < len(lines):
        ln = lines[i]
        if ln.startswith("POINTS"):
            n = int(ln.split()[1])
            for k in range(n):
                pts.append([float(x) for x in lines[i + 1 + k].split()])
            i += n
        elif ln.startswith("CELLS"):
            n = int(ln.split()[1])
            for k in range(n):
                row = [int(x) for x in lines[i + 1 + k].split()]
                if row[0] != len(row) - 1:
                    raise ParseError("vtk cell row length")
                cells.append(row[1:])
            i += n
        elif ln.startswith("CELL_TYPES"):
            n = int(ln.split()[1])
            for k in range(n):
                types.append(int(lines[i + 1 + k]))
            i += n
        i += 1
    del it
    return {"points": pts, "cells": cells, "types": types}
