"""blockMesh hexahedron convention, written down from the OpenFOAM user guide (section 4.3, figure
"a single block"), NOT imported from classy_blocks.util.constants.

Local corner i sits at unit-cube coordinates CORNER[i] (x1, x2, x3):
   0:(0,0,0) 1:(1,0,0) 2:(1,1,0) 3:(0,1,0) 4:(0,0,1) 5:(1,0,1) 6:(1,1,1) 7:(0,1,1)
Edge numbering used by edgeGrading: 0-3 along x1, 4-7 along x2, 8-11 along x3.
"""

import itertools

import numpy as np

CORNER = [(0, 0, 0), (1, 0, 0), (1, 1, 0), (0, 1, 0), (0, 0, 1), (1, 0, 1), (1, 1, 1), (0, 1, 1)]
CORNER_INDEX = {c: i for i, c in enumerate(CORNER)}

# 12 edges in edgeGrading order, each directed along its positive axis
EDGES = [
    (0, 1), (3, 2), (7, 6), (4, 5),  # x1
    (0, 3), (1, 2), (5, 6), (4, 7),  # x2
    (0, 4), (1, 5), (2, 6), (3, 7),  # x3
]
AXIS_EDGES = [EDGES[0:4], EDGES[4:8], EDGES[8:12]]
EDGE_AXIS = {frozenset(e): k // 4 for k, e in enumerate(EDGES)}

# the six sides as corner sets; classy_blocks names them by orientation
SIDES = {
    "bottom": frozenset(i for i, c in enumerate(CORNER) if c[2] == 0),
    "top": frozenset(i for i, c in enumerate(CORNER) if c[2] == 1),
    "left": frozenset(i for i, c in enumerate(CORNER) if c[0] == 0),
    "right": frozenset(i for i, c in enumerate(CORNER) if c[0] == 1),
    "front": frozenset(i for i, c in enumerate(CORNER) if c[1] == 0),
    "back": frozenset(i for i, c in enumerate(CORNER) if c[1] == 1),
}
SIDE_NAMES = ["bottom", "top", "left", "right", "front", "back"]
SIDE_AXIS_SIGN = {"left": (0, -1), "right": (0, 1), "front": (1, -1), "back": (1, 1), "bottom": (2, -1), "top": (2, 1)}


def _side_cycle(name):
    """corners of a side in a cyclic order (a closed walk along block edges)"""
    s = list(SIDES[name])
    cyc = [s[0]]
    while len(cyc) < 4:
        for c in s:
            if c not in cyc and frozenset((cyc[-1], c)) in EDGE_AXIS:
                cyc.append(c)
                break
    return tuple(cyc)


SIDE_CYCLES = {n: _side_cycle(n) for n in SIDE_NAMES}


def is_cyclic_equal(quad_a, quad_b):
    """True if two quads list the same corners in the same cyclic order, either sense."""
    a, b = list(quad_a), list(quad_b)
    if len(a) != 4 or len(b) != 4 or set(a) != set(b) or len(set(a)) != 4:
        return False
    i = b.index(a[0])
    return a == [b[(i + k) % 4] for k in range(4)] or a == [b[(i - k) % 4] for k in range(4)]


def corner_neighbours(i):
    """the three corners joined to corner i by an edge, ordered (x1, x2, x3)-neighbour"""
    c = CORNER[i]
    out = []
    for ax in range(3):
        d = list(c)
        d[ax] = 1 - d[ax]
        out.append(CORNER_INDEX[tuple(d)])
    return out


def _symmetries():
    rots, mirs = [], []
    for perm in itertools.permutations(range(3)):
        for signs in itertools.product((1, -1), repeat=3):
            m = np.zeros((3, 3), dtype=int)
            for r in range(3):
                m[r, perm[r]] = signs[r]
            p = []
            for i in range(8):
                c = np.array(CORNER[i]) * 2 - 1
                d = m @ c
                p.append(CORNER_INDEX[tuple(int(v) for v in (d + 1) // 2)])
            (rots if round(np.linalg.det(m)) == 1 else mirs).append(tuple(p))
    return rots, mirs


ROTATIONS, MIRRORED = _symmetries()  # 24 + 24 corner permutations: new_points[i] = points[p[i]]


def renumber(points, perm):
    return [points[perm[i]] for i in range(8)]


def jacobians(points):
    """corner Jacobians (triple product of the three edge vectors leaving each corner, oriented so that
    a right-handed block gives 8 positive numbers)"""
    pts = np.asarray(points, dtype=float)
    out = []
    for i in range(8):
        n = corner_neighbours(i)
        v = []
        for ax in range(3):
            d = pts[n[ax]] - pts[i]
            if CORNER[i][ax] == 1:
                d = -d
            v.append(d)
        out.append(float(np.dot(np.cross(v[0], v[1]), v[2])))
    return out


def quad_map_2d():
    return (0, 1, 2, 3)
