"""C20 row table: (callable, boundary) rows with generators for both sides of each documented boundary.

A row has
    name      "Face.add_edge:corner"
    clause    which clause of the statement it belongs to
    classes   {class name: side the generator aims at}   (side in "accept" / "reject")
    gen(rng, cls) -> params (JSON, explicit numbers)
    side(params)  -> "accept" | "reject" | None   INDEPENDENT re-computation of the side from the literal numbers
                     (None = inside the tolerance band / ambiguous: the case is not judged)
    prepare(cb, params) -> thunk     builds the valid surroundings with the real library (exceptions here are NOT
                     part of the judged call) and returns the zero-argument call that is judged
    fixed()   -> list of (cls, params) enumerated sub-space (all indices / all pairs), may be empty

Only boundaries the statement names and the code / docstrings / error messages document are rows (DESIGN C20).
Nothing from classy_blocks is imported at module level; `cb` is handed in by the caller.
"""

import math
import random

import numpy as np

from vf import geom, hexconv

ROWS = {}
LABELS = ["terrain", "sphere", "wall", "cone", "plane"]


class Row:
    def __init__(self, name, clause, classes, gen, side, prepare, fixed=None, weight=1.0):
        self.name, self.clause, self.classes = name, clause, classes
        self.gen, self.side, self.prepare = gen, side, prepare
        self.fixed = fixed or (lambda: [])
        self.weight = weight
        assert name not in ROWS
        ROWS[name] = self


# ---------------------------------------------------------------------------------------------------
# random valid surroundings (explicit numbers)
def rframe(rng):
    o = np.array([rng.uniform(-3, 3) for _ in range(3)])
    return o, geom.orthonormal_frame(rng)


def at(o, e, x, y, z):
    return (o + x * e[0] + y * e[1] + z * e[2]).tolist()


def hexa(rng, jitter=0.1):
    """8 points of a jittered, arbitrarily placed right-handed hexahedron in blockMesh corner order"""
    o, e = rframe(rng)
    d = [rng.uniform(0.6, 2.0) for _ in range(3)]
    return [at(o, e, *[c[i] * d[i] + rng.uniform(-jitter, jitter) for i in range(3)]) for c in hexconv.CORNER]


def quad(rng):
    return hexa(rng)[:4]


def op_spec(rng):
    kind = rng.choice(["loft", "loft", "extrude", "box", "revolve"])
    if kind == "loft":
        return {"kind": "loft", "pts": hexa(rng)}
    if kind == "extrude":
        o, e = rframe(rng)
        pts = [at(o, e, x + rng.uniform(-0.1, 0.1), y + rng.uniform(-0.1, 0.1), 0) for x, y in ((0, 0), (1, 0), (1, 1), (0, 1))]
        return {"kind": "extrude", "pts": pts, "vec": (e[2] * rng.uniform(0.5, 2) + e[0] * rng.uniform(-0.2, 0.2)).tolist()}
    if kind == "box":
        p1 = [rng.uniform(-3, 3) for _ in range(3)]
        return {"kind": "box", "p1": p1, "p2": [p + rng.uniform(0.5, 2) for p in p1]}
    o, e = rframe(rng)
    pts = [at(o, e, r + rng.uniform(-0.1, 0.1), 0, z + rng.uniform(-0.1, 0.1)) for r, z in ((1, 0), (2, 0), (2, 1), (1, 1))]
    return {"kind": "revolve", "pts": pts, "angle": rng.uniform(0.3, 1.5), "axis": e[2].tolist(), "origin": o.tolist()}


def build_op(cb, spec):
    k = spec["kind"]
    if k == "loft":
        return cb.Loft(cb.Face(spec["pts"][:4]), cb.Face(spec["pts"][4:]))
    if k == "extrude":
        return cb.Extrude(cb.Face(spec["pts"]), spec["vec"])
    if k == "box":
        return cb.Box(spec["p1"], spec["p2"])
    return cb.Revolve(cb.Face(spec["pts"]), spec["angle"], spec["axis"], spec["origin"])


def edge_spec(rng):
    k = rng.choice(["none", "arc", "origin", "spline", "polyline", "project", "angle"])
    p = lambda: [rng.uniform(-3, 3) for _ in range(3)]  # noqa: E731
    if k == "none":
        return {"kind": "none"}
    if k in ("arc", "origin"):
        return {"kind": k, "pt": p()}
    if k in ("spline", "polyline"):
        return {"kind": k, "pts": [p() for _ in range(rng.randint(2, 4))]}
    if k == "project":
        return {"kind": k, "label": rng.choice(LABELS)}
    return {"kind": k, "angle": rng.uniform(0.2, 2.0), "axis": geom.rand_unit(rng).tolist()}


def build_edge(cb, spec):
    k = spec["kind"]
    if k == "none":
        return None
    if k == "arc":
        return cb.Arc(spec["pt"])
    if k == "origin":
        return cb.Origin(spec["pt"])
    if k == "spline":
        return cb.Spline(spec["pts"])
    if k == "polyline":
        return cb.PolyLine(spec["pts"])
    if k == "project":
        return cb.Project(spec["label"])
    return cb.Angle(spec["angle"], spec["axis"])


def vertices8(pts):
    from classy_blocks.items.vertex import Vertex

    return [Vertex(p, i) for i, p in enumerate(pts)]


# ---------------------------------------------------------------------------------------------------
# generic index rows
def index_classes():
    return {"below": "reject", "first": "accept", "inner": "accept", "last": "accept", "above": "reject"}


def gen_index(rng, cls, hi):
    if cls == "below":
        return -1 if rng.random() < 0.6 else -rng.randint(2, hi + 4)
    if cls == "first":
        return 0
    if cls == "last":
        return hi
    if cls == "inner":
        return rng.randint(1, hi - 1)
    return hi + 1 if rng.random() < 0.6 else hi + rng.randint(2, 5)


def index_class_of(i, hi):
    return "below" if i < 0 else "above" if i > hi else "first" if i == 0 else "last" if i == hi else "inner"


def index_row(name, hi, surroundings, call, weight=1.0):
    """surroundings(rng) -> extra params; call(cb, params) -> thunk"""

    def gen(rng, cls):
        p = surroundings(rng)
        p["index"] = gen_index(rng, cls, hi)
        return p

    def side(p):
        i = p["index"]
        if not isinstance(i, int) or isinstance(i, bool):
            return None
        return "accept" if 0 <= i <= hi else "reject"

    def fixed():
        rng = random.Random(f"C20/fixed/{name}")
        out = []
        for i in range(-(hi + 4), hi + 6):
            p = surroundings(rng)
            p["index"] = i
            out.append((index_class_of(i, hi), p))
        return out

    Row(name, "index-out-of-range", index_classes(), gen, side, call, fixed, weight)


# pair rows (two corners that must name one of the 12 hexahedron edges)
EDGE_SETS = {frozenset(e) for e in hexconv.EDGES}  # from the OpenFOAM guide, not from classy_blocks


def pair_classes():
    return {"edge": "accept", "diagonal": "reject", "same": "reject", "first<0": "reject", "second<0": "reject",
            "first>7": "reject", "second>7": "reject", "both-out-of-range": "reject"}


def pair_class_of(a, b):
    if not 0 <= a <= 7 and not 0 <= b <= 7:
        return "both-out-of-range"
    if a < 0:
        return "first<0"
    if b < 0:
        return "second<0"
    if a > 7:
        return "first>7"
    if b > 7:
        return "second>7"
    if a == b:
        return "same"
    return "edge" if frozenset((a, b)) in EDGE_SETS else "diagonal"


def gen_pair(rng, cls):
    if cls == "edge":
        e = list(rng.choice(hexconv.EDGES))
        rng.shuffle(e)
        return e
    if cls == "diagonal":
        while True:
            a, b = rng.randint(0, 7), rng.randint(0, 7)
            if a != b and frozenset((a, b)) not in EDGE_SETS:
                return [a, b]
    if cls == "same":
        a = rng.randint(0, 7)
        return [a, a]
    if cls == "both-out-of-range":
        return [rng.choice([-2, -1, 8, 9]), rng.choice([-2, -1, 8, 9])]
    out = -1 if cls.endswith("<0") else 8
    if rng.random() < 0.3:
        out = -rng.randint(2, 9) if cls.endswith("<0") else rng.randint(9, 12)
    other = rng.randint(0, 7)
    return [out, other] if cls.startswith("first") else [other, out]


def pair_row(name, surroundings, call, weight=1.0):
    def gen(rng, cls):
        p = surroundings(rng)
        p["pair"] = gen_pair(rng, cls)
        return p

    def side(p):
        a, b = p["pair"]
        return "accept" if (0 <= a <= 7 and 0 <= b <= 7 and frozenset((a, b)) in EDGE_SETS) else "reject"

    def fixed():
        rng = random.Random(f"C20/fixed/{name}")
        out = []
        for a in range(-2, 10):
            for b in range(-2, 10):
                p = surroundings(rng)
                p["pair"] = [a, b]
                out.append((pair_class_of(a, b), p))
        return out

    Row(name, "index-out-of-range", pair_classes(), gen, side, call, fixed, weight)


# ===================================================================================================
# A. wrong numbers of points / edges / coordinates / vertices / faces
def _gen_face_points(rng, cls):
    n, k = {"3-points": (3, 3), "5-points": (5, 3), "2-points": (2, 3), "6-points": (6, 3), "4-points": (4, 3),
            "4-points-2d": (4, 2), "4-points-4d": (4, 4)}[cls]
    pts = (quad(rng) + hexa(rng))[:n]
    pts = [(p + [rng.uniform(-1, 1)])[:k] for p in pts]
    return {"points": pts}


Row(
    "Face:points", "wrong-count",
    {"3-points": "reject", "5-points": "reject", "2-points": "reject", "6-points": "reject", "4-points": "accept",
     "4-points-2d": "reject", "4-points-4d": "reject"},
    _gen_face_points,
    lambda p: "accept" if len(p["points"]) == 4 and all(len(q) == 3 for q in p["points"]) else "reject",
    lambda cb, p: (lambda: cb.Face(p["points"])),
)


def _gen_face_edges(rng, cls):
    n = int(cls.split("-")[0])
    return {"points": quad(rng), "edges": [edge_spec(rng) for _ in range(n)]}


def _prep_face_edges(cb, p):
    edges = [build_edge(cb, s) for s in p["edges"]]
    return lambda: cb.Face(p["points"], edges)


Row(
    "Face:edges", "wrong-count",
    {"3-edges": "reject", "5-edges": "reject", "4-edges": "accept", "2-edges": "reject", "6-edges": "reject", "0-edges": "reject",
     "1-edges": "reject"},
    _gen_face_edges, lambda p: "accept" if len(p["edges"]) == 4 else "reject", _prep_face_edges,
)


def _prep_point(cb, p):
    from classy_blocks.construct.point import Point

    return lambda: Point(p["position"])


Row(
    "Point:coordinates", "wrong-count",
    {"2-coords": "reject", "4-coords": "reject", "3-coords": "accept", "1-coord": "reject"},
    lambda rng, cls: {"position": [rng.uniform(-3, 3) for _ in range(int(cls[0]))]},
    lambda p: "accept" if len(p["position"]) == 3 else "reject", _prep_point,
)


def _prep_side(cb, p):
    from classy_blocks.items.side import Side

    verts = vertices8(p["points"])
    return lambda: Side(p["orient"], verts)


def _gen_side(rng, cls):
    n = int(cls.split("-")[0])
    pts = hexa(rng)
    pts = pts[:n] if n <= 8 else pts + pts[: n - 8]
    return {"points": pts, "orient": rng.choice(hexconv.SIDE_NAMES)}


Row(
    "Side:vertices", "wrong-count",
    {"7-vertices": "reject", "9-vertices": "reject", "8-vertices": "accept", "4-vertices": "reject"},
    _gen_side, lambda p: "accept" if len(p["points"]) == 8 else "reject", _prep_side,
)


def _gen_series(rng, cls):
    n = int(cls.split("-")[0])
    o, e = rframe(rng)
    faces = []
    for i in range(n):
        faces.append([at(o, e, x + rng.uniform(-0.05, 0.05), y + rng.uniform(-0.05, 0.05), 0.7 * i)
                      for x, y in ((0, 0), (1, 0), (1, 1), (0, 1))])
    return {"faces": faces, "cls": rng.choice(["Loft", "Operation"])}


def _prep_series(cb, p):
    faces = [cb.Face(f) for f in p["faces"]]
    klass = getattr(cb, p["cls"])
    return lambda: klass.from_series(faces)


Row(
    "Operation.from_series:faces", "wrong-count",
    {"1-face": "reject", "0-faces": "reject", "2-faces": "accept", "3-faces": "accept", "4-faces": "accept"},
    _gen_series, lambda p: "accept" if len(p["faces"]) >= 2 else "reject", _prep_series,
)


# sketches with different face counts
def _gen_lofted(rng, cls):
    nx, ny = rng.randint(1, 3), rng.randint(1, 3)
    # the odd one out may have more or fewer faces than the others, and may be the start, the end or a middle sketch
    while True:
        other = (rng.randint(1, 4), rng.randint(1, 4))
        if other[0] * other[1] != nx * ny:
            break
    counts = {"1": [nx, ny], "2": [nx, ny], "mid": []}
    if cls == "end-differs":
        counts["2"] = list(other)
        if rng.random() < 0.4:
            counts["mid"] = [[nx, ny]]
    elif cls == "start-differs":
        counts["1"] = list(other)
        if rng.random() < 0.4:
            counts["mid"] = [[nx, ny]]
    elif cls == "mid-differs":
        counts["mid"] = [list(other)] if rng.random() < 0.5 else [[nx, ny], list(other)]
        rng.shuffle(counts["mid"])
    elif cls == "equal+mid":
        counts["mid"] = [[nx, ny]] * rng.randint(1, 2)
    o = [rng.uniform(-2, 2) for _ in range(2)]
    return {"counts": counts, "p1": o, "p2": [o[0] + rng.uniform(1, 2), o[1] + rng.uniform(1, 2)],
            "mid_as_list": rng.random() < 0.5, "rot": [rng.uniform(0, 1), geom.rand_unit(rng).tolist()]}


def _prep_lofted(cb, p):
    def grid(n, z):
        g = cb.Grid(p["p1"] + [0], p["p2"] + [0], n[0], n[1])
        g.translate([0, 0, z])
        g.rotate(p["rot"][0], p["rot"][1], [0, 0, 0])
        return g

    c = p["counts"]
    s1 = grid(c["1"], 0.0)
    s2 = grid(c["2"], 1.0)
    mids = [grid(m, (i + 1) / (len(c["mid"]) + 1)) for i, m in enumerate(c["mid"])]
    if not mids:
        return lambda: cb.LoftedShape(s1, s2)
    mid = mids if (p["mid_as_list"] or len(mids) > 1) else mids[0]
    return lambda: cb.LoftedShape(s1, s2, mid)


def _side_lofted(p):
    c = p["counts"]
    n = c["1"][0] * c["1"][1]
    same = c["2"][0] * c["2"][1] == n and all(m[0] * m[1] == n for m in c["mid"])
    if same and not (c["2"] == c["1"] and all(m == c["1"] for m in c["mid"])):
        return None  # same count, different layout: not a documented boundary
    return "accept" if same else "reject"


Row(
    "LoftedShape:face-counts", "face-count-mismatch",
    {"end-differs": "reject", "start-differs": "reject", "mid-differs": "reject", "equal": "accept", "equal+mid": "accept"},
    _gen_lofted, _side_lofted, _prep_lofted, weight=0.6,
)


# ===================================================================================================
# B. corner and axis indices
def _face_sur(rng):
    return {"points": quad(rng), "edge": edge_spec(rng)}


index_row("Face.add_edge:corner", 3, _face_sur,
          lambda cb, p: (lambda face=cb.Face(p["points"]), e=build_edge(cb, p["edge"]): face.add_edge(p["index"], e)))

index_row("Face.project_edge:corner", 3, lambda rng: {"points": quad(rng), "label": rng.choice(LABELS)},
          lambda cb, p: (lambda face=cb.Face(p["points"]): face.project_edge(p["index"], p["label"])))


def _op_sur(rng):
    return {"op": op_spec(rng)}


def _prep_side_edge(cb, p):
    op = build_op(cb, p["op"])
    e = build_edge(cb, p["edge"]) or cb.Arc(p["op"].get("p1", [0.1, 0.2, 0.3]))
    return lambda: op.add_side_edge(p["index"], e)


index_row("Operation.add_side_edge:corner", 3, lambda rng: {"op": op_spec(rng), "edge": edge_spec(rng)}, _prep_side_edge)

index_row("Operation.project_corner:corner", 7, lambda rng: {"op": op_spec(rng), "label": rng.choice(LABELS)},
          lambda cb, p: (lambda op=build_op(cb, p["op"]): op.project_corner(p["index"], p["label"])))

index_row("Operation.chop:axis", 2, lambda rng: {"op": op_spec(rng), "count": rng.randint(1, 20)},
          lambda cb, p: (lambda op=build_op(cb, p["op"]): op.chop(p["index"], count=p["count"])))


def _prep_unchop(cb, p):
    op = build_op(cb, p["op"])
    for a in p["chopped"]:
        op.chop(a, count=3)
    return lambda: op.unchop(p["index"])


index_row("Operation.unchop:axis", 2, lambda rng: {"op": op_spec(rng), "chopped": [a for a in range(3) if rng.random() < 0.6]},
          _prep_unchop)

pair_row("Operation.project_edge:corners", lambda rng: {"op": op_spec(rng), "label": rng.choice(LABELS)},
         lambda cb, p: (lambda op=build_op(cb, p["op"]): op.project_edge(p["pair"][0], p["pair"][1], p["label"])))


def _prep_block_edge(cb, p):
    from classy_blocks.items.block import Block

    block = Block(0, vertices8(p["points"]))
    return lambda: block.add_edge(p["pair"][0], p["pair"][1], None)


pair_row("Block.add_edge:corners", lambda rng: {"points": hexa(rng)}, _prep_block_edge)


def _prep_frame(cb, p):
    from classy_blocks.util.frame import Frame

    frame = Frame()
    return lambda: frame.add_beam(p["pair"][0], p["pair"][1], "beam")


pair_row("Frame.add_beam:corners", lambda rng: {}, _prep_frame, weight=0.5)


# ===================================================================================================
# C. more than two projection surfaces on an edge
def _gen_labels(rng, cls):
    n = int(cls.split("-")[0])
    labels = rng.sample(LABELS, n)
    return {"labels": labels, "as_str": n == 1 and rng.random() < 0.5}


Row(
    "Project:labels", "too-many-surfaces",
    {"0-labels": "reject", "1-labels": "accept", "2-labels": "accept", "3-labels": "reject", "4-labels": "reject"},
    _gen_labels, lambda p: "accept" if 1 <= len(set(p["labels"])) == len(p["labels"]) <= 2 else "reject",
    lambda cb, p: (lambda: cb.Project(p["labels"][0] if p["as_str"] else list(p["labels"]))),
)


def _gen_nth(rng, cls, extra):
    n = {"2nd-label": 2, "3rd-label": 3, "1st-label": 1}[cls]
    p = extra(rng)
    p["labels"] = rng.sample(LABELS, n)
    return p


def _side_nth(p):
    return "accept" if len(set(p["labels"])) == len(p["labels"]) <= 2 else "reject"


def _prep_add_label(cb, p):
    labels = p["labels"]
    first = labels[:-1] if p["first_as_list"] else labels[:1]
    edge = cb.Project(first)
    for extra in labels[len(first):-1]:
        edge.add_label(extra)
    return lambda: edge.add_label(labels[-1])


def _gen_add_label(rng, cls):
    n = {"2nd-label": 2, "3rd-label": 3}[cls]
    return {"labels": rng.sample(LABELS, n), "first_as_list": rng.random() < 0.5}


Row("Project.add_label", "too-many-surfaces", {"2nd-label": "accept", "3rd-label": "reject"},
    _gen_add_label, _side_nth, _prep_add_label)


def _prep_face_project_nth(cb, p):
    face = cb.Face(p["points"])
    for lab in p["labels"][:-1]:
        face.project_edge(p["corner"], lab)
    return lambda: face.project_edge(p["corner"], p["labels"][-1])


Row("Face.project_edge:labels", "too-many-surfaces", {"1st-label": "accept", "2nd-label": "accept", "3rd-label": "reject"},
    lambda rng, cls: _gen_nth(rng, cls, lambda r: {"points": quad(r), "corner": r.randint(0, 3)}),
    _side_nth, _prep_face_project_nth)


def _prep_op_project_nth(cb, p):
    op = build_op(cb, p["op"])
    a, b = p["pair"]
    for i, lab in enumerate(p["labels"][:-1]):
        # the same edge may be addressed from either end
        op.project_edge(*((a, b) if (i + p["flip"]) % 2 == 0 else (b, a)), lab)
    return lambda: op.project_edge(a, b, p["labels"][-1])


Row("Operation.project_edge:labels", "too-many-surfaces", {"1st-label": "accept", "2nd-label": "accept", "3rd-label": "reject"},
    lambda rng, cls: _gen_nth(rng, cls, lambda r: {"op": op_spec(r), "pair": gen_pair(r, "edge"), "flip": r.randint(0, 1)}),
    _side_nth, _prep_op_project_nth)


def _prep_op_project_side_nth(cb, p):
    op = build_op(cb, p["op"])
    for lab in p["labels"][:-1]:
        op.project_side(p["side"], lab, edges=True)
    return lambda: op.project_side(p["side"], p["labels"][-1], edges=True)


Row("Operation.project_side(edges):labels", "too-many-surfaces",
    {"1st-label": "accept", "2nd-label": "accept", "3rd-label": "reject"},
    lambda rng, cls: _gen_nth(rng, cls, lambda r: {"op": op_spec(r), "side": r.choice(hexconv.SIDE_NAMES)}),
    _side_nth, _prep_op_project_side_nth)


# ===================================================================================================
# D. section length ratios outside (0, 1]
LR_CLASSES = {"negative": "reject", "zero": "reject", "tiny-negative": "reject", "tiny-positive": "accept",
              "inside": "accept", "one": "accept", "above-one": "reject", "slightly-above-one": "reject"}


def _gen_lr(rng, cls):
    return {
        "negative": -rng.uniform(0.01, 2), "zero": rng.choice([0.0, 0, -0.0]), "tiny-negative": -rng.choice([1e-6, 1e-4]),
        "tiny-positive": rng.choice([1e-6, 1e-4, 1e-3]), "inside": rng.uniform(0.05, 0.95), "one": rng.choice([1.0, 1]),
        "above-one": 1 + rng.uniform(0.01, 3), "slightly-above-one": 1 + rng.choice([1e-6, 1e-4, 1e-3]),
    }[cls]


def _side_lr(p):
    lr = p["length_ratio"]
    if lr <= 0 or lr >= 1 + 5e-7:
        return "reject"
    if 5e-7 <= lr <= 1:
        return "accept"
    return None  # within 5e-7 of a boundary: tolerance band


def _prep_grading(cb, p):
    from classy_blocks.grading.chop import Chop
    from classy_blocks.grading.grading import Grading

    g = Grading(p["length"])
    for lr, n in p["before"]:
        g.add_chop(Chop(length_ratio=lr, count=n))
    chop = Chop(length_ratio=p["length_ratio"], count=p["count"])
    return lambda: g.add_chop(chop)


Row("Grading.add_chop:length_ratio", "length-ratio", LR_CLASSES,
    lambda rng, cls: {"length": 10 ** rng.uniform(-2, 2), "length_ratio": _gen_lr(rng, cls), "count": rng.randint(1, 30),
                      "before": [[0.25, rng.randint(1, 5)]] if rng.random() < 0.3 else []},
    _side_lr, _prep_grading)


def _prep_mesh_lr(cb, p):
    op = build_op(cb, p["op"])
    for a in range(3):
        if a == p["axis"]:
            for lr, n in p["before"]:
                op.chop(a, length_ratio=lr, count=n)
            op.chop(a, length_ratio=p["length_ratio"], count=p["count"])
        else:
            op.chop(a, count=2)
    mesh = cb.Mesh()
    mesh.add(op)

    def call():
        # Operation.chop only stores the request; the documented check sits behind assemble() + grade()
        mesh.assemble()
        mesh.grade()

    return call


Row("Mesh.grade:length_ratio", "length-ratio", LR_CLASSES,
    lambda rng, cls: {"op": {"kind": "loft", "pts": hexa(rng)}, "axis": rng.randint(0, 2), "length_ratio": _gen_lr(rng, cls),
                      "count": rng.randint(1, 12), "before": [[0.25, rng.randint(1, 5)]] if rng.random() < 0.3 else []},
    _side_lr, _prep_mesh_lr)


# ===================================================================================================
# E / F. rings: inner vs outer radius, perpendicularity of the radius vector to the axis
DYADIC = [0.25, 0.5, 0.75, 1.0, 1.25, 1.5, 2.0]


def _ring_geometry(rng, dev, exact=False):
    """centre, axis vector, outer radius point; dev = signed angle (rad) by which the radius vector leans out of
    the plane perpendicular to the axis (positive: towards +axis). exact=True: dyadic, axis-aligned numbers for
    which 'inner == outer' is an exact statement in floating point."""
    if exact:
        k = rng.randint(0, 2)
        sgn = rng.choice([-1.0, 1.0])
        c = [float(rng.randint(-3, 3)) + rng.choice([0.0, 0.5, 0.25]) for _ in range(3)]
        R = rng.choice(DYADIC)
        e = [0.0, 0.0, 0.0]
        e[k] = sgn
        axis = [float(rng.randint(-2, 2)) * rng.choice([0.5, 1.0]) for _ in range(3)]
        axis[k] = 0.0
        if not any(axis):
            axis[(k + 1) % 3] = 1.0
        return c, axis, [c[i] + e[i] * R for i in range(3)], R
    o, e = rframe(rng)
    az = rng.uniform(0, 2 * math.pi)
    u = math.cos(az) * e[0] + math.sin(az) * e[1]
    La, R = rng.uniform(0.5, 3.0), rng.uniform(0.3, 2.0)
    r = R * u if dev == 0 else R * (math.cos(dev) * u + math.sin(dev) * e[2])
    return o.tolist(), (La * e[2]).tolist(), (o + r).tolist(), R


def lean_of(center, axis, radius_point):
    """independent: signed sine of the angle between the radius vector and the plane normal to the axis"""
    a = np.array(axis, dtype=float)
    r = np.array(radius_point, dtype=float) - np.array(center, dtype=float)
    return float(np.dot(a, r) / (math.sqrt(float(np.dot(a, a))) * math.sqrt(float(np.dot(r, r)))))


# up = the radius vector leans towards axis_point_2 (+axis), down = towards -axis
LEAN_CLASSES = {"perpendicular": "accept", "lean-up:1e-9": "accept", "lean-down:1e-9": "accept",
                "lean-up:small": "reject", "lean-down:small": "reject", "lean-up:large": "reject", "lean-down:large": "reject"}


def _gen_dev(rng, cls):
    if cls == "perpendicular":
        return 0.0
    sign = 1.0 if "-up:" in cls else -1.0
    if cls.endswith("1e-9"):
        return sign * rng.choice([1e-9, 1e-10])
    if cls.endswith("small"):
        return sign * rng.choice([1e-3, 1e-3, 3e-3, 1e-2])
    return sign * rng.choice([0.5, rng.uniform(0.05, 1.2)])


def _side_lean(p):
    s = lean_of(p["center"], p["axis"], p["radius_point"])
    a = math.sqrt(sum(x * x for x in p["axis"]))
    r = math.sqrt(sum((x - y) ** 2 for x, y in zip(p["radius_point"], p["center"])))
    # accept: the library's documented tolerance is 1e-7 on the (un-normalised or normalised) dot product
    if abs(s) * max(1.0, a * r, r) <= 2e-8:
        return "accept"
    if abs(s) * min(1.0, a * r, r) >= 1e-4:
        return "reject"
    return None


def _gen_lean(rng, cls, extra):
    dev = _gen_dev(rng, cls)
    c, axis, rp, R = _ring_geometry(rng, dev)
    p = {"center": c, "axis": axis, "radius_point": rp}
    p.update(extra(rng, R))
    return p


def _axis_point_2(p):
    return [p["center"][i] + p["axis"][i] for i in range(3)]


def lean_row(name, extra, call, weight=1.0):
    Row(name, "not-perpendicular", LEAN_CLASSES, lambda rng, cls: _gen_lean(rng, cls, extra), _side_lean, call, weight=weight)


lean_row("Cylinder:radius-vs-axis", lambda rng, R: {},
         lambda cb, p: (lambda: cb.Cylinder(p["center"], _axis_point_2(p), p["radius_point"])), weight=0.5)
lean_row("SemiCylinder:radius-vs-axis", lambda rng, R: {},
         lambda cb, p: (lambda: cb.SemiCylinder(p["center"], _axis_point_2(p), p["radius_point"])), weight=0.6)
lean_row("Frustum:radius-vs-axis",
         lambda rng, R: {"radius_2": R * rng.uniform(0.4, 1.6), "radius_mid": rng.choice([None, R * rng.uniform(0.8, 1.4)])},
         lambda cb, p: (lambda: cb.Frustum(p["center"], _axis_point_2(p), p["radius_point"], p["radius_2"], p["radius_mid"])),
         weight=0.5)
lean_row("Annulus:radius-vs-normal", lambda rng, R: {"inner": R * rng.uniform(0.2, 0.8), "n": rng.choice([4, 6, 8, 8, 12])},
         lambda cb, p: (lambda: _annulus()(p["center"], p["radius_point"], p["axis"], p["inner"], p["n"])))
lean_row("ExtrudedRing:radius-vs-axis", lambda rng, R: {"inner": R * rng.uniform(0.2, 0.8), "n": rng.choice([4, 6, 8, 8, 12])},
         lambda cb, p: (lambda: cb.ExtrudedRing(p["center"], _axis_point_2(p), p["radius_point"], p["inner"], p["n"])),
         weight=0.7)


def _annulus():
    from classy_blocks.construct.flat.sketches.annulus import Annulus

    return Annulus


RADII_CLASSES = {"inner<outer": "accept", "inner-just-below-outer": "accept", "inner=outer": "reject",
                 "inner>outer": "reject", "inner-just-above-outer": "reject"}


def _gen_radii(rng, cls):
    exact = cls == "inner=outer" or rng.random() < 0.2
    c, axis, rp, R = _ring_geometry(rng, 0.0, exact=exact)
    inner = {"inner<outer": R * rng.uniform(0.1, 0.9), "inner-just-below-outer": R * (1 - rng.choice([1e-3, 1e-2])),
             "inner=outer": R, "inner>outer": R * rng.uniform(1.05, 2.5),
             "inner-just-above-outer": R * (1 + rng.choice([1e-3, 1e-2]))}[cls]
    return {"center": c, "axis": axis, "radius_point": rp, "inner": inner, "n": rng.choice([4, 6, 8, 8, 12])}


def _side_radii(p):
    d = [x - y for x, y in zip(p["radius_point"], p["center"])]
    outer = math.sqrt(sum(x * x for x in d))
    inner = p["inner"]
    if inner <= 0:
        return None
    if inner == outer:
        # only judged when equality is exact: one non-zero dyadic component, centre + radius exactly representable
        nz = [x for x in d if x != 0.0]
        exact = len(nz) == 1 and abs(nz[0]) == inner and all(
            (c + x) - c == x for c, x in zip(p["center"], d)) and float(inner * 8).is_integer()
        return "reject" if exact else None
    rel = (inner - outer) / outer
    if rel >= 5e-4:
        return "reject"
    if rel <= -5e-4:
        return "accept"
    return None


Row("Annulus:inner-vs-outer", "inner-not-below-outer", RADII_CLASSES, _gen_radii, _side_radii,
    lambda cb, p: (lambda: _annulus()(p["center"], p["radius_point"], p["axis"], p["inner"], p["n"])))
Row("ExtrudedRing:inner-vs-outer", "inner-not-below-outer", RADII_CLASSES, _gen_radii, _side_radii,
    lambda cb, p: (lambda: cb.ExtrudedRing(p["center"], _axis_point_2(p), p["radius_point"], p["inner"], p["n"])), weight=0.7)


# contract: the new inner radius must be smaller than the source's
def _gen_contract(rng, cls):
    c, axis, rp, R = _ring_geometry(rng, 0.0, exact=rng.random() < 0.3)
    src_inner = R * (rng.choice([0.5, 0.75]) if rng.random() < 0.5 else rng.uniform(0.4, 0.8))
    p = {"center": c, "axis": axis, "radius_point": rp, "inner": src_inner, "n": rng.choice([4, 8, 8, 12])}
    if cls == "equal-to-source-inner":
        p["new_inner"] = "source.sketch_1.inner_radius"
    else:
        f = {"smaller": rng.uniform(0.2, 0.9), "just-smaller": 1 - rng.choice([1e-3, 1e-2]),
             "larger": rng.uniform(1.05, 1.2), "just-larger": 1 + rng.choice([1e-3, 1e-2]),
             "larger-than-outer": R / src_inner * rng.uniform(1.05, 1.5)}[cls]
        p["new_inner"] = src_inner * f
    return p


def _side_contract(p):
    if p["new_inner"] == "source.sketch_1.inner_radius":
        return "reject"  # the very float the library reports as the source's inner radius: not smaller
    rel = (p["new_inner"] - p["inner"]) / p["inner"]
    if p["new_inner"] <= 0:
        return None
    return "reject" if rel >= 5e-4 else "accept" if rel <= -5e-4 else None


def _prep_contract(cb, p):
    src = cb.ExtrudedRing(p["center"], _axis_point_2(p), p["radius_point"], p["inner"], p["n"])
    r = src.sketch_1.inner_radius if isinstance(p["new_inner"], str) else p["new_inner"]
    return lambda: cb.ExtrudedRing.contract(src, r)


Row("ExtrudedRing.contract:new-inner-vs-source-inner", "inner-not-below-outer",
    {"smaller": "accept", "just-smaller": "accept", "equal-to-source-inner": "reject", "larger": "reject",
     "just-larger": "reject", "larger-than-outer": "reject"},
    _gen_contract, _side_contract, _prep_contract, weight=0.6)


# expand: a negative thickness puts the new outer radius below the (old outer = new inner) radius
def _gen_expand(rng, cls):
    c, axis, rp, R = _ring_geometry(rng, 0.0)
    t = R * rng.uniform(0.05, 0.8)
    return {"center": c, "axis": axis, "radius_point": rp, "source": rng.choice(["Cylinder", "ExtrudedRing"]),
            "thickness": t if cls == "positive-thickness" else -t}


def _prep_expand(cb, p):
    if p["source"] == "Cylinder":
        src = cb.Cylinder(p["center"], _axis_point_2(p), p["radius_point"])
    else:
        R = geom.dist(p["center"], p["radius_point"])
        src = cb.ExtrudedRing(p["center"], _axis_point_2(p), p["radius_point"], 0.5 * R)
    return lambda: cb.ExtrudedRing.expand(src, p["thickness"])


Row("ExtrudedRing.expand:thickness", "inner-not-below-outer", {"positive-thickness": "accept", "negative-thickness": "reject"},
    _gen_expand, lambda p: "accept" if p["thickness"] > 0 else "reject", _prep_expand, weight=0.4)


# ===================================================================================================
# G. negative chain lengths
def _gen_chain(rng, cls, sources):
    c, axis, rp, R = _ring_geometry(rng, 0.0)
    mag = rng.choice([1e-3, rng.uniform(0.05, 3.0), rng.uniform(0.05, 3.0)])
    return {"center": c, "axis": axis, "radius_point": rp, "source": rng.choice(sources), "start_face": rng.random() < 0.5,
            "length": mag if cls == "positive-length" else -mag, "radius_2": R * rng.uniform(0.5, 1.5),
            "sweep": rng.uniform(0.3, 1.5)}


def _chain_source(cb, p):
    c, ap2, rp = p["center"], _axis_point_2(p), p["radius_point"]
    R = geom.dist(c, rp)
    s = p["source"]
    if s == "Cylinder":
        return cb.Cylinder(c, ap2, rp)
    if s == "Frustum":
        return cb.Frustum(c, ap2, rp, 0.7 * R)
    if s == "ExtrudedRing":
        return cb.ExtrudedRing(c, ap2, rp, 0.5 * R)
    # Elbow: bends about an axis perpendicular to its start normal, centre 3R away along the radius direction
    u = geom.unit(np.array(rp) - np.array(c))
    n = geom.unit(p["axis"])
    return cb.Elbow(c, rp, p["axis"], p["sweep"], (np.array(c) + 3 * R * u).tolist(), np.cross(n, u).tolist(), 0.8 * R)


CHAIN_CLASSES = {"positive-length": "accept", "negative-length": "reject"}
_side_chain = lambda p: "accept" if p["length"] > 0 else "reject"  # noqa: E731

Row("Cylinder.chain:length", "negative-chain-length", CHAIN_CLASSES,
    lambda rng, cls: _gen_chain(rng, cls, ["Cylinder", "Frustum", "Elbow"]), _side_chain,
    lambda cb, p: (lambda src=_chain_source(cb, p): cb.Cylinder.chain(src, p["length"], p["start_face"])), weight=0.35)
Row("Frustum.chain:length", "negative-chain-length", CHAIN_CLASSES,
    lambda rng, cls: _gen_chain(rng, cls, ["Cylinder", "Frustum", "Elbow"]), _side_chain,
    lambda cb, p: (lambda src=_chain_source(cb, p): cb.Frustum.chain(src, p["length"], p["radius_2"], p["start_face"])),
    weight=0.35)
Row("ExtrudedRing.chain:length", "negative-chain-length", CHAIN_CLASSES,
    lambda rng, cls: _gen_chain(rng, cls, ["ExtrudedRing"]), _side_chain,
    lambda cb, p: (lambda src=_chain_source(cb, p): cb.ExtrudedRing.chain(src, p["length"], p["start_face"])), weight=0.5)


# ===================================================================================================
# H / I. optimiser clamps and links; life cycle
def mesh_spec(rng):
    """1-3 jittered hexahedra in a row; explicit corner points per block (shared nodes are the same floats)"""
    nb = rng.randint(1, 3)
    o, e = rframe(rng)
    node = {}
    for i in range(nb + 1):
        for j in range(2):
            for k in range(2):
                node[(i, j, k)] = at(o, e, *[v + rng.uniform(-0.08, 0.08) for v in (i, j, k)])
    blocks = [[node[(i + c[0], c[1], c[2])] for c in hexconv.CORNER] for i in range(nb)]
    return {"blocks": blocks, "counts": [rng.randint(1, 4) for _ in range(3)]}


def build_mesh(cb, spec, chop=True):
    mesh = cb.Mesh()
    for pts in spec["blocks"]:
        op = cb.Loft(cb.Face(pts[:4]), cb.Face(pts[4:]))
        if chop:
            for a in range(3):
                op.chop(a, count=spec["counts"][a])
        mesh.add(op)
    return mesh


def mesh_nodes(spec):
    seen, out = set(), []
    for b in spec["blocks"]:
        for p in b:
            if tuple(p) not in seen:
                seen.add(tuple(p))
                out.append(p)
    return out


def _off(rng, p, mag):
    d = geom.rand_unit(rng)
    return [p[i] + mag * d[i] for i in range(3)]


def _nearest(nodes, q):
    return min(geom.dist(n, q) for n in nodes)


def _side_by_distance(dists):
    """each entry: distance of a position to the nearest mesh vertex. library tolerance TOL = 1e-7"""
    if all(d <= 2e-8 for d in dists):
        return "accept"
    if any(d >= 1e-4 for d in dists) and all(d <= 2e-8 or d >= 1e-4 for d in dists):
        return "reject"
    return None


def _gen_clamp_match(rng, cls):
    spec = mesh_spec(rng)
    if cls == "near-miss-in-a-model-far-from-the-origin":
        # coordinates of a few thousand units: a miss of a millimetre is far below 1e-5 of the coordinates, far above TOL
        off = [rng.choice([-1, 1]) * rng.uniform(2000, 9000) for _ in range(3)]
        spec = dict(spec, blocks=[[[x + o for x, o in zip(pt, off)] for pt in b] for b in spec["blocks"]])
    node = rng.choice(mesh_nodes(spec))
    mag = {"at-vertex": 0.0, "within-tolerance": rng.choice([1e-9, 1e-8]), "near-miss": rng.choice([1e-3, 1e-2, 0.1]),
           "far": rng.uniform(3, 10), "near-miss-in-a-model-far-from-the-origin": rng.choice([3e-4, 1e-3, 5e-3])}[cls]
    return {"mesh": spec, "position": _off(rng, node, mag) if mag else list(node)}


def _prep_optimizer(cb, p):
    mesh = build_mesh(cb, p["mesh"])
    mesh.assemble()
    return cb.MeshOptimizer(mesh, report=False)


def _prep_clamp_match(cb, p):
    opt = _prep_optimizer(cb, p)
    clamp = cb.FreeClamp(p["position"])
    return lambda: opt.add_clamp(clamp)


Row("Optimizer.add_clamp:matches-a-vertex", "clamp-matches-no-vertex",
    {"at-vertex": "accept", "within-tolerance": "accept", "near-miss": "reject", "far": "reject",
     "near-miss-in-a-model-far-from-the-origin": "reject"},
    _gen_clamp_match, lambda p: _side_by_distance([_nearest(mesh_nodes(p["mesh"]), p["position"])]), _prep_clamp_match)


def _gen_second_clamp(rng, cls):
    spec = mesh_spec(rng)
    nodes = mesh_nodes(spec)
    a, b = rng.sample(nodes, 2)
    second = {"same-position": list(a), "same-vertex-within-tolerance": _off(rng, a, 1e-9), "other-vertex": list(b)}[cls]
    return {"mesh": spec, "first": list(a), "second": second}


def _side_second_clamp(p):
    nodes = mesh_nodes(p["mesh"])
    i1 = min(range(len(nodes)), key=lambda i: geom.dist(nodes[i], p["first"]))
    i2 = min(range(len(nodes)), key=lambda i: geom.dist(nodes[i], p["second"]))
    if geom.dist(nodes[i1], p["first"]) > 2e-8 or geom.dist(nodes[i2], p["second"]) > 2e-8:
        return None
    return "reject" if i1 == i2 else "accept"


def _prep_second_clamp(cb, p):
    opt = _prep_optimizer(cb, p)
    opt.add_clamp(cb.FreeClamp(p["first"]))
    clamp = cb.FreeClamp(p["second"])
    return lambda: opt.add_clamp(clamp)


Row("Optimizer.add_clamp:second-clamp-on-vertex", "second-clamp",
    {"same-position": "reject", "same-vertex-within-tolerance": "reject", "other-vertex": "accept"},
    _gen_second_clamp, _side_second_clamp, _prep_second_clamp)


def _gen_auto_second_clamp(rng, cls):
    """3x3 mapped sketch (one interior point, node 4) in a random frame; the user clamps the interior or a boundary point first"""
    o, e = rframe(rng)
    pts = [at(o, e, i + rng.uniform(-0.1, 0.1), j + rng.uniform(-0.1, 0.1), 0.0) for j in range(3) for i in range(3)]
    quads = [[0, 1, 4, 3], [1, 2, 5, 4], [3, 4, 7, 6], [4, 5, 8, 7]]
    node = {"user-clamp-on-the-interior-point": 4, "user-clamp-on-a-boundary-point": rng.choice([1, 3, 5, 7]), "no-user-clamp": None}[cls]
    return {"points": pts, "quads": quads, "node": node}


def _prep_auto_second_clamp(cb, p):
    import contextlib
    import io

    sketch = cb.MappedSketch(p["points"], p["quads"])
    opt = cb.SketchOptimizer(sketch, report=False)
    if p["node"] is not None:
        a, b = p["points"][p["node"]], p["points"][(p["node"] + 1) % 9]
        opt.add_clamp(cb.LineClamp(a, a, b))

    def call():
        with contextlib.redirect_stdout(io.StringIO()):
            opt.auto_optimize(max_iterations=1)

    return call


Row("SketchOptimizer.auto_optimize:second-clamp-on-vertex", "second-clamp",
    {"user-clamp-on-the-interior-point": "reject", "user-clamp-on-a-boundary-point": "accept", "no-user-clamp": "accept"},
    _gen_auto_second_clamp, lambda p: "reject" if p["node"] == 4 else "accept", _prep_auto_second_clamp, weight=0.5)


def _gen_link(rng, cls):
    spec = mesh_spec(rng)
    nodes = mesh_nodes(spec)
    a, b = rng.sample(nodes, 2)
    miss = lambda q: _off(rng, q, rng.choice([1e-3, 0.05, 5.0]))  # noqa: E731
    leader, follower = {"both-match": (list(a), list(b)), "leader-unmatched": (miss(a), list(b)),
                        "follower-unmatched": (list(a), miss(b)), "none-match": (miss(a), miss(b))}[cls]
    kind = rng.choice(["translation", "rotation", "symmetry"])
    centre = np.mean(np.array(nodes), axis=0)
    p = {"mesh": spec, "leader": leader, "follower": follower, "kind": kind}
    if kind == "rotation":
        axis = geom.rand_unit(rng)
        # an axis that passes > 5 away from the mesh: the leader is never on it
        perp = geom.unit(np.cross(axis, geom.rand_unit(rng)))
        p["axis"], p["origin"] = axis.tolist(), (centre + 8 * perp).tolist()
    elif kind == "symmetry":
        # origin (0,0,0) on purpose: functions.mirror shifts its argument in place by -origin (a C09/C17 finding)
        p["normal"], p["origin"] = geom.rand_unit(rng).tolist(), [0.0, 0.0, 0.0]
    return p


def _build_link(cb, p):
    if p["kind"] == "translation":
        return cb.TranslationLink(p["leader"], p["follower"])
    if p["kind"] == "rotation":
        return cb.RotationLink(p["leader"], p["follower"], p["axis"], p["origin"])
    return cb.SymmetryLink(p["leader"], p["follower"], p["normal"], p["origin"])


def _prep_link(cb, p):
    opt = _prep_optimizer(cb, p)
    link = _build_link(cb, p)
    return lambda: opt.add_link(link)


def _side_link(p):
    nodes = mesh_nodes(p["mesh"])
    dl, df = _nearest(nodes, p["leader"]), _nearest(nodes, p["follower"])
    if geom.dist(p["leader"], p["follower"]) < 0.5:
        return None  # leader and follower on one vertex is a different (documented) error, not a row
    return _side_by_distance([dl, df])


Row("Optimizer.add_link:matches-vertices", "link-matches-no-vertex",
    {"both-match": "accept", "leader-unmatched": "reject", "follower-unmatched": "reject", "none-match": "reject"},
    _gen_link, _side_link, _prep_link)


def _gen_lifecycle(rng, cls):
    return {"mesh": mesh_spec(rng), "state": cls, "graded_before": rng.random() < 0.5}


def _prep_lifecycle(cb, p, method):
    mesh = build_mesh(cb, p["mesh"])
    st = p["state"]
    if st in ("assembled", "assembled-then-cleared"):
        mesh.assemble()
        if method == "backport" and p["graded_before"]:
            mesh.grade()
    if st == "assembled-then-cleared":
        mesh.clear()
    return getattr(mesh, method)


LIFE_CLASSES = {"never-assembled": "reject", "assembled": "accept", "assembled-then-cleared": "reject"}
_side_life = lambda p: "accept" if p["state"] == "assembled" else "reject"  # noqa: E731
Row("Mesh.grade:before-assembly", "before-assembly", LIFE_CLASSES, _gen_lifecycle, _side_life,
    lambda cb, p: _prep_lifecycle(cb, p, "grade"))
Row("Mesh.backport:before-assembly", "before-assembly", LIFE_CLASSES, _gen_lifecycle, _side_life,
    lambda cb, p: _prep_lifecycle(cb, p, "backport"))


# ===================================================================================================
# J. Shell.chop with disconnected faces (shell.py: "There are unconnected faces in this Shell")
def _gen_shell(rng, cls):
    o, e = rframe(rng)
    n = rng.randint(2, 3)
    faces = []
    for i in range(n):
        gap = 0.0 if (cls == "connected" or i < n - 1) else rng.uniform(0.5, 3.0)
        faces.append([at(o, e, i + x + gap, y, 0.1 * ((i + x) % 2)) for x, y in ((0, 0), (1, 0), (1, 1), (0, 1))])
    return {"faces": faces, "amount": rng.uniform(0.05, 0.3), "count": rng.randint(1, 5)}


def _side_shell(p):
    faces = p["faces"]
    for i, f in enumerate(faces):
        shares = any(geom.dist(q, r) < 1e-9 for j, g in enumerate(faces) if j != i for q in f for r in g)
        if not shares:
            return "reject"
    return "accept"


def _prep_shell(cb, p):
    shell = cb.Shell([cb.Face(f) for f in p["faces"]], p["amount"])
    return lambda: shell.chop(count=p["count"])


Row("Shell.chop:disconnected-faces", "disconnected-shell", {"connected": "accept", "disconnected": "reject"},
    _gen_shell, _side_shell, _prep_shell, weight=0.5)


# ===================================================================================================
# K. chaining / filling preconditions on the source shape (cylinder.py, elbow.py)
def _gen_fill(rng, cls):
    c, axis, rp, R = _ring_geometry(rng, 0.0)
    n = 8 if cls == "8-segments" else rng.choice([4, 6, 12]) if cls == "other-segments" else rng.choice([7, 9])
    return {"center": c, "axis": axis, "radius_point": rp, "inner": R * rng.uniform(0.3, 0.8), "n": n}


def _prep_fill(cb, p):
    ring = cb.ExtrudedRing(p["center"], _axis_point_2(p), p["radius_point"], p["inner"], p["n"])
    return lambda: cb.Cylinder.fill(ring)


Row("Cylinder.fill:ring-segments", "wrong-count", {"8-segments": "accept", "other-segments": "reject", "7-or-9-segments": "reject"},
    _gen_fill, lambda p: "accept" if p["n"] == 8 else "reject", _prep_fill, weight=0.3)


def _gen_elbow_chain(rng, cls):
    p = _gen_chain(rng, "positive-length", ["Cylinder", "Frustum"] if cls == "disk-source" else ["ExtrudedRing"])
    return p


def _prep_elbow_chain(cb, p):
    src = _chain_source(cb, p)
    c, rp = np.array(p["center"]), np.array(p["radius_point"])
    u = geom.unit(rp - c)
    n = geom.unit(p["axis"])
    end = c + np.array(p["axis"]) * (0 if p["start_face"] else 1)
    R = geom.dist(c, rp)
    return lambda: cb.Elbow.chain(src, p["sweep"], (end + 3 * R * u).tolist(), np.cross(n, u).tolist(), 0.8 * R, p["start_face"])


Row("Elbow.chain:source-sketch", "wrong-source", {"disk-source": "accept", "ring-source": "reject"},
    _gen_elbow_chain, lambda p: "reject" if p["source"] == "ExtrudedRing" else "accept", _prep_elbow_chain, weight=0.3)
