"""Independent oracles for C18 (finders / viewpoint re-orientation). Textbook geometry only: nothing here imports
classy_blocks. The hexahedron convention comes from vf.hexconv (OpenFOAM user guide)."""

import math

import numpy as np

from vf import geom, hexconv

TOL = 1e-7  # the library's documented merge tolerance (util.constants.TOL); restated, not imported

OPPOSITE = {"front": "back", "back": "front", "top": "bottom", "bottom": "top", "left": "right", "right": "left"}
# hexconv corner coordinates (x1, x2, x3): x1 = 0/1 <-> left/right, x2 = 0/1 <-> front/back, x3 = 0/1 <-> bottom/top
COORD_SIDES = [("left", "right"), ("front", "back"), ("bottom", "top")]


def _outward_cycles():
    """each side as a corner cycle that is counter-clockwise when seen from outside a right-handed block"""
    out = {}
    ref = np.array(hexconv.CORNER, dtype=float)
    for name in hexconv.SIDE_NAMES:
        cyc = list(hexconv.SIDE_CYCLES[name])
        a, b, c, d = (ref[i] for i in cyc)
        n = np.cross(c - a, d - b)
        axis, sign = hexconv.SIDE_AXIS_SIGN[name]
        if n[axis] * sign < 0:
            cyc.reverse()
        out[name] = tuple(cyc)
    return out


OUT_CYCLE = _outward_cycles()


def _unit(v):
    n = float(np.linalg.norm(v))
    if n == 0:
        raise ValueError("zero vector")
    return v / n


def face_triangle_normals(pts, name):
    """-> [(split, [(unit normal, (i, j, k), fourth corner), ...]), ...] for the two diagonal splits of a side of a
    right-handed block; normals follow the outward cycle orientation (no use of the centroid)"""
    a, b, c, d = OUT_CYCLE[name]
    out = []
    for split in (((a, b, c, d), (a, c, d, b)), ((a, b, d, c), (b, c, d, a))):
        tris = []
        for i, j, k, other in split:
            n = np.cross(pts[j] - pts[i], pts[k] - pts[i])
            ln = float(np.linalg.norm(n))
            if ln == 0:
                return None
            tris.append((n / ln, (i, j, k), other))
        out.append(tris)
    return out


def min_edge(pts):
    return min(float(np.linalg.norm(pts[a] - pts[b])) for a, b in hexconv.EDGES)


def is_convex(pts, margin_rel=0.05):
    """A right-handed hexahedron (hexconv numbering) is convex here when each of its six sides can be split along a
    diagonal into two triangles that are facets of the convex hull: the four corners of the opposite side lie at
    least margin_rel * (shortest edge) behind both triangles and the side's fourth corner is not in front of them."""
    pts = np.asarray(pts, dtype=float)
    size = min_edge(pts)
    if size <= 0:
        return False
    if min(hexconv.jacobians(pts)) <= 0:
        return False
    for name in hexconv.SIDE_NAMES:
        splits = face_triangle_normals(pts, name)
        if splits is None:
            return False
        others = [i for i in range(8) if i not in hexconv.SIDES[name]]
        ok_any = False
        for tris in splits:
            ok = True
            for n, (i, _, _), fourth in tris:
                if float(np.dot(pts[fourth] - pts[i], n)) > 1e-9 * size:
                    ok = False
                    break
                if max(float(np.dot(pts[o] - pts[i], n)) for o in others) > -margin_rel * size:
                    ok = False
                    break
            if ok:
                ok_any = True
                break
        if not ok_any:
            return False
    return True


def view_directions(pts, observer, ceiling):
    """-> (d_obs, d_ceil_raw, d_ceil_perp, d_left, circumradius, distance of the nearer of the two viewpoints)"""
    pts = np.asarray(pts, dtype=float)
    c = pts.mean(axis=0)
    vo = np.asarray(observer, dtype=float) - c
    vc = np.asarray(ceiling, dtype=float) - c
    d_obs = _unit(vo)
    d_raw = _unit(vc)
    d_perp = _unit(d_raw - float(np.dot(d_raw, d_obs)) * d_obs)
    d_left = _unit(np.cross(d_obs, d_perp))
    rad = max(float(np.linalg.norm(p - c)) for p in pts)
    return d_obs, d_raw, d_perp, d_left, rad, min(float(np.linalg.norm(vo)), float(np.linalg.norm(vc)))


def expected_numbering(pts, observer, ceiling, base_margin=0.1, sequential=False):
    """The canonical numbering of a convex block (given in hexconv numbering, right-handed) seen from a viewpoint in
    general position, or None when the viewpoint is not in general position.

    General position: each of the six viewing directions (towards the observer, away from it, towards the ceiling
    point - both as given and made perpendicular to the observer direction -, away from it, to the observer's left
    and right) singles out ONE side: every triangle of that side (either diagonal split) is better aligned with the
    direction than every triangle of every other side, by a margin that also absorbs the choice of the block's
    'centre' (centroid of corners vs. anything else inside the block).

    sequential=True (strongly oblique views of boxes): front is singled out among all six sides, back among the five
    others, top / bottom / left / right each among the sides no earlier role has taken - "the top side" of a box seen from
    an edge is the one of the four sides around the front that faces the ceiling point, even where the ceiling direction
    has a larger component along the front side's normal.

    -> (expected, margin) with expected[i] = base corner that must become corner i."""
    pts = np.asarray(pts, dtype=float)
    try:
        d_obs, d_raw, d_perp, d_left, rad, dist = view_directions(pts, observer, ceiling)
    except ValueError:
        return None
    if dist < 3 * rad:
        return None
    if abs(float(np.dot(d_raw, d_obs))) > 0.6:
        return None
    margin = base_margin + 1.5 * rad / dist
    normals = {}
    for name in hexconv.SIDE_NAMES:
        splits = face_triangle_normals(pts, name)
        if splits is None:
            return None
        normals[name] = [n for tris in splits for n, _, _ in tris]
    wanted = {
        "front": [d_obs], "back": [-d_obs], "top": [d_raw, d_perp], "bottom": [-d_raw, -d_perp],
        "left": [d_left], "right": [-d_left],
    }
    assigned = {}
    for role, dirs in wanted.items():
        chosen = None
        pool = [s for s in normals if not (sequential and s in assigned.values())]
        if sequential and role in ("top", "bottom"):
            dirs = dirs[1:]  # only the direction made perpendicular to the observer's is meaningful among the four sides around
        for d in dirs:
            score_min = {s: min(float(np.dot(n, d)) for n in normals[s]) for s in pool}
            score_max = {s: max(float(np.dot(n, d)) for n in normals[s]) for s in pool}
            best = max(score_min, key=lambda s: score_min[s])
            rival = max([score_max[s] for s in pool if s != best] or [-1.0])
            if score_min[best] < rival + margin or score_min[best] <= margin:
                return None
            if chosen is not None and chosen != best:
                return None
            chosen = best
        assigned[role] = chosen
    if len(set(assigned.values())) != 6:
        return None
    for role, side in assigned.items():
        if assigned[OPPOSITE[role]] != OPPOSITE[side]:
            return None
    expected = []
    for i in range(8):
        corners = set(range(8))
        for ax in range(3):
            role = COORD_SIDES[ax][hexconv.CORNER[i][ax]]
            corners &= hexconv.SIDES[assigned[role]]
        if len(corners) != 1:
            return None
        expected.append(next(iter(corners)))
    return expected, margin, assigned


def outward_normal(pts, name):
    """area-weighted unit normal of a side (cross product of its diagonals), pointed away from the corner centroid -
    independent of the handedness of the numbering"""
    pts = np.asarray(pts, dtype=float)
    a, b, c, d = hexconv.SIDE_CYCLES[name]
    n = _unit(np.cross(pts[c] - pts[a], pts[d] - pts[b]))
    fc = (pts[a] + pts[b] + pts[c] + pts[d]) / 4
    if float(np.dot(fc - pts.mean(axis=0), n)) < 0:
        n = -n
    return n


def match_points(result, base, tol):
    """result[i] -> index of the base point it coincides with (or None)"""
    out = []
    for p in result:
        d = np.linalg.norm(base - p, axis=1)
        j = int(np.argmin(d))
        out.append(j if d[j] <= tol else None)
    return out


# ---- finders ----------------------------------------------------------------------------------------
def sphere_sets(positions, centre, radius, exact=False):
    """brute force: -> (inside, outside, undecided) index sets for the open ball |v - p| < r.
    radius None = 'at the position, to the merge tolerance': inside <= TOL/2, outside >= 2 TOL.
    exact: all numbers are integers - decide in integer arithmetic (a vertex exactly on the sphere is NOT inside)."""
    inside, outside, undecided, boundary = set(), set(), set(), set()
    if exact:
        c = [int(round(x)) for x in centre]
        r2 = int(round(radius)) ** 2
        for i, v in enumerate(positions):
            d2 = sum((int(round(v[k])) - c[k]) ** 2 for k in range(3))
            if d2 < r2:
                inside.add(i)
            else:
                outside.add(i)
                if d2 == r2:
                    boundary.add(i)
        return inside, outside, undecided, boundary
    c = np.asarray(centre, dtype=float)
    for i, v in enumerate(positions):
        d = math.sqrt(float(np.sum((np.asarray(v, dtype=float) - c) ** 2)))
        if radius is None:
            if d <= 0.5 * TOL:
                inside.add(i)
            elif d >= 2 * TOL:
                outside.add(i)
            else:
                undecided.add(i)
        else:
            band = 1e-9 * max(1.0, radius, d)
            if d < radius - band:
                inside.add(i)
            elif d > radius + band:
                outside.add(i)
            else:
                undecided.add(i)
    return inside, outside, undecided, boundary


def plane_sets(positions, origin, normal):
    """brute force: on the plane (distance <= TOL/2), off it (>= 2 TOL), undecided in between"""
    o = np.asarray(origin, dtype=float)
    n = _unit(np.asarray(normal, dtype=float))
    on, off, undecided = set(), set(), set()
    for i, v in enumerate(positions):
        d = abs(float(np.dot(np.asarray(v, dtype=float) - o, n)))
        if d <= 0.5 * TOL:
            on.add(i)
        elif d >= 2 * TOL:
            off.add(i)
        else:
            undecided.add(i)
    return on, off, undecided


def round_ends(case):
    """(centre, unit normal, radius) of the start and end face of a round solid, from its construction parameters"""
    kind = case["shape"]
    if kind in ("Cylinder", "SemiCylinder", "Frustum"):
        c1 = geom.arr(case["axis_point_1"])
        c2 = geom.arr(case["axis_point_2"])
        n = _unit(c2 - c1)
        r1 = geom.dist(case["radius_point_1"], c1)
        r2 = case["radius_2"] if kind == "Frustum" else r1
        return (c1, n, r1), (c2, n, r2)
    if kind == "Elbow":
        c1 = geom.arr(case["center_point_1"])
        n1 = _unit(geom.arr(case["normal_1"]))
        r1 = geom.dist(case["radius_point_1"], c1)
        c2 = geom.rotate(c1, case["rotation_axis"], case["sweep_angle"], case["arc_center"])
        n2 = _unit(geom.rotate_vec(n1, case["rotation_axis"], case["sweep_angle"]))
        return (c1, n1, r1), (c2, n2, case["radius_2"])
    raise ValueError(kind)


def disc_sets(positions, centre, normal, radius):
    """mesh vertices of an end face, from geometry alone: 'core' = in the face's plane and strictly inside the rim
    circle, 'rim' = in the plane and on the circle. -> (core, rim, ambiguous)"""
    core, rim, ambiguous = set(), set(), set()
    for i, v in enumerate(positions):
        w = np.asarray(v, dtype=float) - centre
        h = abs(float(np.dot(w, normal)))
        rho = float(np.linalg.norm(w - float(np.dot(w, normal)) * normal))
        if h > 1e-4 * radius and h > 10 * TOL:
            continue  # clearly off the plane
        if h > 1e-9 * max(1.0, radius, float(np.linalg.norm(centre))):
            if rho < 1.05 * radius:
                ambiguous.add(i)
            continue
        if rho <= 0.97 * radius:
            core.add(i)
        elif abs(rho - radius) <= 1e-9 * max(1.0, radius, float(np.linalg.norm(centre))):
            rim.add(i)
        elif rho < 1.03 * radius:
            ambiguous.add(i)
    return core, rim, ambiguous
