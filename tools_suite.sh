#!/bin/sh
# run the repository's suite (hooks off); prints the summary and failures other than the baseline fact
cd "${1:-/repo}" && /venv/bin/python -m pytest -p no:cacheprovider -n 12 2>&1 | grep -E "^(FAILED|ERROR)| passed" | grep -v "SplineInterpolatedCurveTests::test_length"
