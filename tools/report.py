#!/venv/bin/python
"""Prints the markdown tables of DESIGN.md section 12 from seeded/*/meta.json and tools/mutants/hand_results.json."""
import glob, json, os
ROOT = os.path.dirname(os.path.dirname(os.path.abspath(__file__)))
print("| seeded change | property | needs | suite with change | demo (clean -> changed) | caught by |")
print("|---|---|---|---|---|---|")
for f in sorted(glob.glob(os.path.join(ROOT, "seeded", "*", "meta.json"))):
    m = json.load(open(f))
    if not m.get("applies"):
        continue
    needs = m.get("needs_to_manifest", "").replace("\n", " ").replace("|", "/")
    needs = needs[:160] + ("..." if len(needs) > 160 else "")
    caught = "; ".join(f"{c}: {', '.join(x.split('/', 1)[1] for x in v['mechanisms'][:2]) or '-'}" if v["exit"] == 1 else f"{c}: **missed** (exit {v['exit']})" for c, v in m["checks"].items())
    print(f"| {m['id']} | {m['property']} | {needs} | {m['suite_with_change'][:60]} | {m['demo_exit_without_change']} -> {m['demo_exit_with_change']} | {caught} |")
hp = os.path.join(ROOT, "tools", "mutants", "hand_results.json")
if os.path.exists(hp):
    print()
    print("| hand mutant | change | repository suite | quick checks |")
    print("|---|---|---|---|")
    for k, v in sorted(json.load(open(hp)).items()):
        if "error" in v:
            print(f"| {k} | {v['what']} | - | {v['error']} |"); continue
        ch = "; ".join(f"{c}: " + ("caught (" + ", ".join(x.split('/', 1)[1] for x in d["mechanisms"][:2]) + ")" if d["exit"] == 1 else f"not flagged (exit {d['exit']})") for c, d in v["checks"].items())
        print(f"| {k} | {v['what']} | {'green' if v['suite_green'] else 'red (does not count)'} | {ch} |")
