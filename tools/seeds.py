#!/venv/bin/python
"""tools/seeds.py keep <src dir> <id> <property> <check> [<check> ...]

Confirms a seeded change (patch applies to the current /repo HEAD in a scratch worktree, the repository suite
still passes, the demonstration passes without and fails with the change), runs the named quick checks against
the scratch worktree (VERIF_REPO), and stores patch.diff, demo.py and meta.json under /verif/seeded/<id>/.
/repo itself is never modified. Options through the environment: SKIP_SUITE=1, TIER=quick|thorough, VERIF_SHARDS."""

import json
import os
import shutil
import subprocess
import sys

ROOT = os.path.dirname(os.path.dirname(os.path.abspath(__file__)))
BASE_FAIL = "SplineInterpolatedCurveTests::test_length"


def sh(cmd, **kw):
    return subprocess.run(cmd, shell=True, capture_output=True, text=True, **kw)


def main():
    _, mode, src, sid, prop, *checks = sys.argv
    assert mode == "keep"
    wt = f"/tmp/mut/wt-{sid}-{os.getpid()}"
    os.makedirs("/tmp/mut", exist_ok=True)
    head = sh("git -C /repo rev-parse --short HEAD").stdout.strip()
    r = sh(f"git -C /repo worktree add -q --detach {wt} HEAD")
    if r.returncode != 0:
        print("worktree failed", r.stderr)
        sys.exit(2)
    meta = {"id": sid, "property": prop, "repo_head": head, "source": src}
    try:
        env = f"PYTHONPATH={wt}/src"
        dc = sh(f"cd {wt} && {env} /venv/bin/python {src}/demo.py", timeout=900)
        ap = sh(f"cd {wt} && git apply {src}/patch.diff")
        how = "git apply"
        if ap.returncode != 0:
            ap = sh(f"cd {wt} && git apply --3way {src}/patch.diff && git reset -q")
            how = "git apply --3way (context changed by later fix: commits)"
        if ap.returncode != 0:
            meta["applies"] = False
            print(f"SEED {sid}: patch does not apply to {head}: {ap.stderr[:300]}")
            return
        meta["applies"] = how
        patch = sh(f"cd {wt} && git diff").stdout
        suite = "skipped"
        if not os.environ.get("SKIP_SUITE"):
            r = sh(f"cd {wt} && {env} /venv/bin/python -m pytest -p no:cacheprovider -n 6 2>&1 | grep -E '^(FAILED|ERROR)| passed'", timeout=3000)
            lines = [ln for ln in r.stdout.splitlines() if BASE_FAIL not in ln]
            suite = " | ".join(lines)
        meta["suite_with_change"] = suite
        dm = sh(f"cd {wt} && {env} /venv/bin/python {src}/demo.py", timeout=900)
        meta["demo_exit_without_change"] = dc.returncode
        meta["demo_exit_with_change"] = dm.returncode
        meta["demo_message_with_change"] = (dm.stderr or dm.stdout).strip().splitlines()[-1][:300] if (dm.stderr or dm.stdout).strip() else ""
        det = {}
        for chk in checks:
            e = dict(os.environ, VERIF_REPO=wt, VERIF_SHARDS=os.environ.get("VERIF_SHARDS", "8"))
            r = subprocess.run(["./vcheck", chk, os.environ.get("TIER", "quick")], cwd=ROOT, env=e, capture_output=True, text=True)
            mech = sorted({ln.strip().split(" (x")[0] for ln in r.stdout.splitlines() if ln.startswith(f"  {chk}/")})
            det[chk] = {"exit": r.returncode, "mechanisms": mech[:6]}
        meta["checks"] = det
        meta["detected"] = any(v["exit"] == 1 for v in det.values())
        notes = os.path.join(src, "notes.md")
        meta["needs_to_manifest"] = open(notes).read().strip()[:1500] if os.path.exists(notes) else ""
        meta["what_was_run"] = [
            f"git worktree of /repo at {head}; {how} patch.diff",
            "repository suite: /venv/bin/python -m pytest -p no:cacheprovider -n 6 (PYTHONPATH=<worktree>/src)",
            "demo.py without and with the change (exit codes above)",
            f"VERIF_REPO=<worktree> ./vcheck <check> {os.environ.get('TIER', 'quick')} for: {', '.join(checks)}",
        ]
        out = os.path.join(ROOT, "seeded", sid)
        os.makedirs(out, exist_ok=True)
        with open(os.path.join(out, "patch.diff"), "w") as fh:
            fh.write(patch)
        shutil.copy(os.path.join(src, "demo.py"), os.path.join(out, "demo.py"))
        with open(os.path.join(out, "meta.json"), "w") as fh:
            json.dump(meta, fh, indent=1)
        print(f"SEED {sid}: demo {dc.returncode}->{dm.returncode} suite=[{suite}] " +
              " ".join(f"{c}:rc={v['exit']}{v['mechanisms'][:1]}" for c, v in det.items()))
    finally:
        sh(f"git -C /repo worktree remove --force {wt}")


main()
