#!/venv/bin/python
"""tools/resuite_seeds.py <id> ...

Re-runs the repository suite for kept seeded changes whose recorded suite run was disturbed by the repository's known flaky test
(tests/test_optimize/test_optimizer.py::ComplexSketchTests::test_optimize, ~5 % on an idle machine, more under load): scratch
worktree of /repo HEAD, stored patch.diff applied, the suite run up to three times until only the baseline failure remains;
meta.json["suite_with_change"] is rewritten with the last summary and the number of runs."""

import json
import os
import subprocess
import sys

ROOT = os.path.dirname(os.path.dirname(os.path.abspath(__file__)))
BASE_FAIL = "SplineInterpolatedCurveTests::test_length"


def sh(cmd, **kw):
    return subprocess.run(cmd, shell=True, capture_output=True, text=True, **kw)


for sid in sys.argv[1:]:
    d = os.path.join(ROOT, "seeded", sid)
    meta = json.load(open(os.path.join(d, "meta.json")))
    wt = f"/tmp/mut/rs-{sid}-{os.getpid()}"
    os.makedirs("/tmp/mut", exist_ok=True)
    sh(f"git -C /repo worktree add -q --detach {wt} HEAD")
    try:
        ap = sh(f"cd {wt} && git apply {d}/patch.diff")
        if ap.returncode != 0:
            ap = sh(f"cd {wt} && git apply --3way {d}/patch.diff && git reset -q")
        if ap.returncode != 0:
            print(f"RESUITE {sid}: patch does not apply")
            continue
        runs = []
        for _ in range(3):
            r = sh(f"cd {wt} && PYTHONPATH={wt}/src /venv/bin/python -m pytest -p no:cacheprovider -n 6 2>&1 | grep -E '^(FAILED|ERROR)| passed'", timeout=3000)
            line = " | ".join(ln for ln in r.stdout.splitlines() if BASE_FAIL not in ln)
            runs.append(line)
            if line.startswith("1 failed, 1010 passed"):
                break
        meta["suite_with_change"] = runs[-1] + (f"  (run {len(runs)} of {len(runs)}; earlier runs also failed the repository's flaky "
                                               f"ComplexSketchTests::test_optimize: {runs[:-1]})" if len(runs) > 1 else "")
        json.dump(meta, open(os.path.join(d, "meta.json"), "w"), indent=1)
        print(f"RESUITE {sid}: {runs}")
    finally:
        sh(f"git -C /repo worktree remove --force {wt}")
