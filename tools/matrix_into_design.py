#!/venv/bin/python
import os, subprocess
ROOT = os.path.dirname(os.path.dirname(os.path.abspath(__file__)))
rep = subprocess.run([os.path.join(ROOT, "tools", "report.py")], capture_output=True, text=True).stdout
parts = rep.split("\n\n")
block = "### 12.1 Seeded changes (confirmed; quick tier against the changed worktree)\n" + parts[0].strip() + "\n\n### 12.2 Hand mutants of the main session\n" + (parts[1].strip() if len(parts) > 1 else "") + "\n"
p = os.path.join(ROOT, "DESIGN.md")
s = open(p).read()
a, b = s.index("<!-- BEGIN MATRIX -->"), s.index("<!-- END MATRIX -->")
open(p, "w").write(s[: a + len("<!-- BEGIN MATRIX -->")] + "\n" + block + s[b:])
print("matrix written:", block.count("\n"), "lines")
