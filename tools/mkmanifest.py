#!/venv/bin/python
"""Regenerates MANIFEST.json from the table below + which vf/props/cNN.py exist."""
import json
import os

ROOT = os.path.dirname(os.path.dirname(os.path.abspath(__file__)))

T = {
 "C01": ("reference-model monitor (union-find count families) over the parsed written file + hooked wire counts at the quiescent point after write, on random lattice assemblies; histories: second write, write again after a refused write; multigraded directions, merged pairs",
         "Exploration: thousands of random assemblies x orientations x chop patterns (consistent / conflicting / missing); the oracle is an independent union-find model and an independent parser. Right level: the property is a relation over an unbounded input family, decided per execution in milliseconds."),
 "C02": ("schedule-bundle monitor: one model under insertion orders x renumberings x injected set iteration orders x fresh interpreters; logical step budget on Block.copy_grading; byte comparison of files; histories: write - stretch the assembled vertices - write (vs a fresh mesh of the moved geometry)",
         "Exploration of inputs and schedules: termination on a logical step budget (never wall clock), completeness against the union-find model, determinism by byte comparison between runs that differ only in schedule."),
 "C03": ("icontract postcondition on the real Chop.calculate + Grading invariant, and a reference geometric-progression oracle re-deriving the given parameters; multigrading class: description text vs specification, inverted grading = reversed cell sequence",
         "Exploration: 1.6e5 (quick) / 4e6 (thorough) parameter sets over six decades, all 10 pairs, dense near ratio 1 and at exact-integer solutions, plus an unrealisable class."),
 "C04": ("hooked per-wire Grading state + parsed simple/edgeGrading decoded to physical cell-size sequences by an independent progression; orientation-parity reference model for 'the same end'; histories: write twice, assemble-grade-write, write - move vertices - write; model units from micrometres to tens of metres; arcs defined by the first block only",
         "Exploration over lattices with unequal edge lengths, all orientations, preserve modes and multi-section chops."),
 "C05": ("reference-model monitor: (lattice node, slave-patch set) partition vs Block.indexes and the parsed vertices section; icontract postcondition on VertexList.add; shared-master / chained merged pairs judged per contact; histories: merge declared after the first assembly, backport then one operation moved",
         "Exploration over assemblies, insertion orders, merged pairs, tolerance-band perturbations."),
 "C06": ("shadow-model monitor: random API programs, the written blockMeshDict and debug VTK parsed independently and compared with the shadow description",
         "Exploration over random user programs composed from the public API."),
 "C07": ("offline checker over the written edges section: each entry decoded to a directed curve and compared with the user's described curve (same end-point order), uniqueness and omission rules; shared edge-data objects, no-op calls (remove_edges([]))",
         "Exhaustive over 12 positions x edge kinds x face treatments, random geometry on top."),
 "C08": ("analytic-circle oracle (Rodrigues rotation, circumcircle) against Angle/Origin/Arc edges' third point, length and written arc entry; chord bound for all kinds; histories: end vertices moved along the circle, the assembled edge item transformed through its own methods; decimetre arcs at kilometre coordinates",
         "Exploration over circles in general position, radii over three decades, sector angles of either sign."),
 "C09": ("metamorphic-relation monitor: assemble(A_api(X)) vs A_geom(assemble(X)) as position-keyed geometric content; copy-independence; argument-array snapshots; histories: assembled once before the transformation, copy projected / original unchanged; built-in geometry and the entity's own centre follow; transformation objects unchanged",
         "Exploration over entity zoo x edge kinds x transformation kinds x origins, compositions up to three."),
 "C10": ("identity-map monitor on Face re-indexing (edge object <-> end positions) and hexconv-table oracle for side/edge/corner addressing observed in the written file; projected corners through re-indexing, read-only queries between calls, reused label lists, a probe operation built after addressing calls (global state)",
         "Exhaustive over 6 sides x 12 edges x 8 corners and shift/reorient choices, random geometry and call sequences on top."),
 "C11": ("structural oracle over the parsed file of every predefined shape: corner Jacobians, face-connectivity, vertex counts, arcs on the intended circle, documented chops sufficient, interface vertices of chained shapes",
         "Exploration over shape classes x placement x sizes x chains."),
 "C12": ("history monitor: random life-cycle histories vs a freshly built model from the shadow description, compared as parsed canonical content; byte equality for write-twice; far-from-origin models, delete before add, settings taken back",
         "Exploration over call histories of bounded length generated by a legality state machine."),
 "C13": ("hooked optimizer state: quality before/after, bit-compare of unclamped vertices, manifold/bounds/link oracles, one-shot degenerate-cell failpoint for the rollback clause; histories: second optimize() call, mesh.backport() between calls, links holding live vertex arrays; 0.1 mm models",
         "Exploration + fault injection over assemblies/sketches x clamp mixes x links x 4 methods."),
 "C14": ("metamorphic monitor on the real Cell quality: rigid motion / scaling / 24 (4) rotational renumberings / stretch monotonicity; histories: smoothed / update()-moved long-lived grid vs fresh grid (nested-list containers, grid turned out of plane)",
         "Exhaustive over renumberings per geometry; random geometries and transforms."),
 "C15": ("reference-model monitor: boundary / neighbour sets recomputed from cell connectivity; bit-compare of fixed points; fixed-point equation after N iterations; histories: points fixed after the first smoothing, sketch translated after smoothing; one-shot iterables",
         "Exploration over structured/unstructured quad maps and hex assemblies."),
 "C16": ("consistency monitor on the real curve classes: end points, additivity, polyline length, dense-sample closest-point oracle, OnCurve edge entries in the written file; histories: vertex moved along the curve after the first write, curve sheared / stretched before judging, caller edits the constructor array",
         "Exploration over curve kinds x uneven point sets x parameter pairs x queries."),
 "C17": ("geometric oracle (distance to line/curve/circle/plane/surface, Rodrigues, Householder) on real clamps and links; leader snapshot; histories: caller re-uses the arrays a clamp was built from; leaders that move without turning; nan-aware verdicts",
         "Exploration over positions, directions, origins in general position, parameter sweeps, leader moves."),
 "C18": ("brute-force oracle for finders; 48-numbering canonicalisation monitor for the viewpoint re-orienter; histories: vertices moved / mesh back-ported between queries of one finder, mutated result sets, one long-lived re-orienter; boxes seen from an edge (sequential oracle)",
         "Exhaustive over 48 numberings per geometry; random meshes, spheres, planes, viewpoints."),
 "C19": ("geometric addressing oracle: grid[k][j][i] centre in the grid's own frame, slices, core/shell vs outer surface, deletion observed in the written file; mirrors among the placements, delete before add / twice, three-level sketches",
         "Exhaustive over indices of each random instance."),
 "C20": ("two-sided boundary table: each documented precondition driven on accept and reject side, exception family oracle; far-from-origin near-miss clamps, auto_optimize over a user clamp",
         "Fault-style enumeration of documented boundaries with random valid surroundings."),
}

DONE = ["C%02d" % i for i in range(1, 21)]  # checks that were validated on the unchanged tree and are claimed


def main():
    checks, na = [], []
    for pid, (tech, text) in T.items():
        if pid in DONE and os.path.exists(os.path.join(ROOT, "vf", "props", pid.lower() + ".py")):
            checks.append({
                "property_id": pid,
                "quick_cmd": f"./vcheck {pid} quick",
                "thorough_cmd": f"./vcheck {pid} thorough",
                "evidence_file": f"/verif/evidence/{pid}.json",
                "replay_cmd_template": f"./vcheck {pid} --replay {{path}}",
                "engine": "vf",
                "level_claimed": {"category": "exploration", "text": text + " Verdict: held on the executions observed (counts in the evidence file), never 'verified'.",
                                  "design_ref": f"DESIGN.md section 3/{pid}"},
                "level_note": "Trusted: the harness' independent parser (vf/foamdict.py), hexahedron convention (vf/hexconv.py) and geometry (vf/geom.py); numpy/scipy; the generators' stated ranges. The checked code is /repo/src as it is at run time (pure Python, nothing cached).",
                "technique": "runtime monitoring: " + tech,
            })
        else:
            na.append({"property_id": pid, "reason": "check not built yet in this session (work in progress; the design in DESIGN.md section 3 applies) - not a claim that the technique cannot apply"})
    man = {
        "version": 1,
        "setup_cmd": "/venv/bin/python vf/deps.py",
        "hooks": {
            "guard": "CLASSY_BLOCKS_VERIF",
            "enable": "no source hooks: all monitors (icontract contracts, wrappers, container replacement, failpoints) are attached from the harness at run time; the repository does not read the guard",
            "baseline_off_cmd": "cd /repo && /venv/bin/python -m pytest -ra -q -p no:cacheprovider --timeout=900 --continue-on-collection-errors",
            "source_commits": [],
            "add_only": True,
        },
        "engines": [{"name": "vf", "path": "/verif/vf", "serves_properties": [c["property_id"] for c in checks],
                     "kind_free_text": "pure-Python runtime-monitoring harness: seeded workload generators, monitors on the real code, independent oracles, 16 worker processes per check"}],
        "checks": checks,
        "notes": "Exit 0 held / 1 VIOLATION / 3 INCONCLUSIVE. Known findings: /verif/known_findings.json (fix: commits in /repo are listed there as 'fixed').",
        "not_applicable": na,
    }
    with open(os.path.join(ROOT, "MANIFEST.json"), "w") as fh:
        json.dump(man, fh, indent=1)
    print(f"{len(checks)} checks, {len(na)} not yet claimed")

main()
