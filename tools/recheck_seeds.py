#!/venv/bin/python
"""tools/recheck_seeds.py [-j N] [<id> ...]

Re-runs the detection part of every kept seeded change (default: all of /verif/seeded) with the checks as they are
now: scratch worktree of /repo HEAD under /tmp/mut, stored patch.diff applied, the quick checks named in meta.json
run with VERIF_REPO=<worktree>, meta.json["checks"] / ["detected"] rewritten. The confirmation part (suite, demo)
is not repeated. /repo itself is never modified; every worktree is removed again."""

import concurrent.futures
import json
import os
import subprocess
import sys

ROOT = os.path.dirname(os.path.dirname(os.path.abspath(__file__)))


def sh(cmd, **kw):
    return subprocess.run(cmd, shell=True, capture_output=True, text=True, **kw)


def one(sid):
    d = os.path.join(ROOT, "seeded", sid)
    meta = json.load(open(os.path.join(d, "meta.json")))
    wt = f"/tmp/mut/re-{sid}-{os.getpid()}"
    os.makedirs("/tmp/mut", exist_ok=True)
    head = sh("git -C /repo rev-parse --short HEAD").stdout.strip()
    r = sh(f"git -C /repo worktree add -q --detach {wt} HEAD")
    if r.returncode != 0:
        return sid, None, "worktree failed: " + r.stderr[:200]
    try:
        ap = sh(f"cd {wt} && git apply {d}/patch.diff")
        if ap.returncode != 0:
            ap = sh(f"cd {wt} && git apply --3way {d}/patch.diff && git reset -q")
        if ap.returncode != 0:
            return sid, None, f"patch does not apply to {head}: {ap.stderr[:200]}"
        det = {}
        for chk in meta.get("checks", {}) or {meta["property"]: 0}:
            e = dict(os.environ, VERIF_REPO=wt, VERIF_SHARDS=os.environ.get("VERIF_SHARDS", "4"))
            r = subprocess.run(["./vcheck", chk, "quick"], cwd=ROOT, env=e, capture_output=True, text=True)
            mech = sorted({ln.strip().split(" (x")[0] for ln in r.stdout.splitlines() if ln.startswith(f"  {chk}/")})
            det[chk] = {"exit": r.returncode, "mechanisms": mech[:6]}
        was = meta.get("detected")
        meta["checks"] = det
        meta["detected"] = any(v["exit"] == 1 for v in det.values())
        meta["rechecked_at_repo_head"] = head
        with open(os.path.join(d, "meta.json"), "w") as fh:
            json.dump(meta, fh, indent=1)
        return sid, meta["detected"], f"was={was} " + " ".join(f"{c}:rc={v['exit']}{v['mechanisms'][:1]}" for c, v in det.items())
    finally:
        sh(f"git -C /repo worktree remove --force {wt}")


def main():
    args = sys.argv[1:]
    jobs = 3
    if args[:1] == ["-j"]:
        jobs, args = int(args[1]), args[2:]
    ids = args or sorted(os.listdir(os.path.join(ROOT, "seeded")))
    with concurrent.futures.ThreadPoolExecutor(jobs) as ex:
        for sid, detected, msg in ex.map(one, ids):
            print(f"RECHECK {sid}: detected={detected} {msg}", flush=True)


main()
