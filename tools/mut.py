#!/venv/bin/python
"""tools/mut.py <relative file under src/classy_blocks> <old text> <new text> PID [PID...]
Hand-made mutant in a scratch copy of /repo/src (never /repo itself): does the quick check notice?
Set SUITE=1 to also run the repository suite on the mutant."""
import os, shutil, subprocess, sys, tempfile

rel, old, new, pids = sys.argv[1], sys.argv[2], sys.argv[3], sys.argv[4:]
tmp = tempfile.mkdtemp(prefix="mut-", dir="/tmp")
try:
    shutil.copytree("/repo/src", tmp + "/src")
    if os.environ.get("SUITE"):
        shutil.copytree("/repo/tests", tmp + "/tests")
        shutil.copy("/repo/pyproject.toml", tmp)
    p = f"{tmp}/src/classy_blocks/{rel}"
    s = open(p).read()
    if s.count(old) < 1:
        print("MUT old text not found"); sys.exit(2)
    open(p, "w").write(s.replace(old, new, 1))
    suite = ""
    if os.environ.get("SUITE"):
        r = subprocess.run(f"cd {tmp} && PYTHONPATH={tmp}/src /venv/bin/python -m pytest -p no:cacheprovider -n 6 2>&1 | grep -E '^(FAILED|ERROR)| passed' | grep -v SplineInterpolatedCurveTests::test_length", shell=True, capture_output=True, text=True)
        suite = " suite=[" + r.stdout.strip().replace("\n", " ") + "]"
    for pid in pids:
        env = dict(os.environ, VERIF_REPO=tmp, VERIF_SHARDS=os.environ.get("VERIF_SHARDS", "8"))
        r = subprocess.run(["./vcheck", pid, "quick"], cwd="/verif", env=env, capture_output=True, text=True)
        mech = [l.strip()[:150] for l in r.stdout.splitlines() if l.startswith("  " + pid + "/")][:2]
        print(f"MUT {rel}: {old[:40]!r} -> {new[:40]!r} {pid}: rc={r.returncode} {mech}{suite}")
finally:
    shutil.rmtree(tmp, ignore_errors=True)
