#!/bin/bash
# tools/seedtest.sh <dir with patch.diff demo.py> <PID> [more PIDs]   -- confirm a seeded change and run checks on it
# Uses a scratch worktree (never /repo itself while other jobs use it). Prints one summary line.
D=$1; shift
WT=${SEED_WT:-/tmp/mut/wt$$}
mkdir -p /tmp/mut
git -C /repo worktree add -q --detach $WT HEAD 2>/dev/null || { git -C $WT checkout -q --detach $(git -C /repo rev-parse HEAD) && git -C $WT checkout -q -- . ; }
cd $WT
PYTHONPATH=$WT/src /venv/bin/python $D/demo.py >/tmp/mut/demo_clean.$$ 2>&1; DC=$?
if ! git apply $D/patch.diff 2>/dev/null; then
  if ! git apply --3way $D/patch.diff >/dev/null 2>&1; then echo "RESULT $D apply=FAILED"; git checkout -q -- .; git -C /repo worktree remove --force $WT; exit 2; fi
  git reset -q
fi
SUITE=skipped
if [ -z "$SKIP_SUITE" ]; then
  SUITE=$(PYTHONPATH=$WT/src /venv/bin/python -m pytest -p no:cacheprovider -n 6 2>&1 | grep -E "^(FAILED|ERROR)| passed" | grep -v "SplineInterpolatedCurveTests::test_length" | tr '\n' ' ')
fi
PYTHONPATH=$WT/src /venv/bin/python $D/demo.py >/tmp/mut/demo_mut.$$ 2>&1; DM=$?
OUT=""
for P in "$@"; do
  cd /verif
  VERIF_REPO=$WT VERIF_SHARDS=${VERIF_SHARDS:-8} ./vcheck $P ${TIER:-quick} > /tmp/mut/check.$$.$P 2>&1; RC=$?
  MECH=$(grep -A1 "^VIOLATION" /tmp/mut/check.$$.$P | grep -v "^VIOLATION\|^--" | cut -c1-160 | head -2 | tr '\n' '|')
  OUT="$OUT $P:rc=$RC [$MECH]"
done
cd $WT; git checkout -q -- .; git clean -fdq; cd /; git -C /repo worktree remove --force $WT
rm -f /tmp/mut/demo_clean.$$ /tmp/mut/demo_mut.$$
echo "RESULT $D demo_clean=$DC demo_mut=$DM suite=[$SUITE] checks:$OUT"
