#!/venv/bin/python
"""Rewrites the table of DESIGN.md section 10.2 from the evidence files (quick tier numbers of the last run against /repo)."""
import json
import os
import re

ROOT = os.path.dirname(os.path.dirname(os.path.abspath(__file__)))


def row(pid):
    e = json.load(open(os.path.join(ROOT, "evidence", f"{pid}.json")))
    c = e["coverage"]
    cut = c.get("shards_truncated_by_soft_deadline", 0)
    return f"{pid} | {c['evaluations']:,}".replace(",", " ") + f" | {c['distinct_nontrivial']:,}".replace(",", " ") + \
        f" | {e['wall_s']:.0f} s" + (f" ({cut} shards cut)" if cut else "")


def main():
    ids = ["C%02d" % i for i in range(1, 21)]
    e0 = json.load(open(os.path.join(ROOT, "evidence", "C01.json")))
    lines = [f"### 10.2 Verdict discipline in numbers ({e0['tier']} tier, seed {e0['seed']}, last run against /repo; the evidence files carry the live numbers and every counter)",
             "| id | evaluations | distinct non-trivial | wall | | id | evaluations | distinct non-trivial | wall |",
             "|---|---|---|---|---|---|---|---|---|"]
    for a, b in zip(ids[:10], ids[10:]):
        lines.append(f"| {row(a)} | | {row(b)} |")
    path = os.path.join(ROOT, "DESIGN.md")
    s = open(path).read()
    m = re.search(r"### 10\.2 [^\n]*\n(?:\|[^\n]*\n)+", s)
    assert m, "section 10.2 table not found"
    s = s[:m.start()] + "\n".join(lines) + "\n" + s[m.end():]
    open(path, "w").write(s)
    print("\n".join(lines))


main()
