import classy_blocks as cb, numpy as np, warnings, sys, itertools
warnings.simplefilter('ignore')
rng=np.random.default_rng(int(sys.argv[1]))
def grid_sketch(n,m,jit):
    pos=[];idx={}
    for j in range(m+1):
        for i in range(n+1):
            idx[(i,j)]=len(pos); p=np.array([i,j,0.0])
            if 0<i<n and 0<j<m: p[:2]+=rng.uniform(-jit,jit,2)
            pos.append(p)
    quads=[[idx[(i,j)],idx[(i+1,j)],idx[(i+1,j+1)],idx[(i,j+1)]] for j in range(m) for i in range(n)]
    return np.array(pos),quads,idx
res={'ok':0,'bad':0}
for it in range(30):
    n,m=rng.integers(2,6,2); pos,quads,idx=grid_sketch(n,m,0.3)
    sk=cb.MappedSketch(pos,quads); sm=cb.SketchSmoother(sk)
    fixed=[k for k in range(len(pos)) if rng.random()<0.15]; sm.fix_indexes(fixed)
    sm.smooth(300)
    P=sk.positions
    # boundary independent
    from collections import Counter
    ec=Counter(); nb={k:set() for k in range(len(pos))}
    for q in quads:
        for a,b in zip(q,q[1:]+q[:1]): ec[frozenset((a,b))]+=1; nb[a].add(b); nb[b].add(a)
    bnd=set(); [bnd.update(e) for e,c in ec.items() if c==1]
    good=True
    for k in range(len(pos)):
        if k in bnd or k in fixed:
            if not np.array_equal(P[k],pos[k]): good=False; print('moved fixed/boundary',k)
        else:
            avg=np.mean([P[j] for j in nb[k]],axis=0)
            if np.linalg.norm(avg-P[k])>1e-8: good=False; print('not avg',k,np.linalg.norm(avg-P[k]))
    # faces consistent
    for f_,q in zip(sk.faces,quads):
        for pt,k in zip(f_.point_array,q):
            if not np.allclose(pt,P[k]): good=False; print('face mismatch')
    if not fixed:
        exp=np.array([[i,j,0] for j in range(m+1) for i in range(n+1)],float)
        if not np.allclose(P,exp,atol=1e-7): good=False; print('not lattice')
    res['ok' if good else 'bad']+=1
print(res)
# hex mesh
for it in range(5):
    m=cb.Mesh(); n=(3,3,2)
    for c in itertools.product(range(n[0]),range(n[1]),range(n[2])): m.add(cb.Box(c,[c[0]+1,c[1]+1,c[2]+1]))
    m.assemble(skip_edges=True)
    orig=np.array([v.position.copy() for v in m.vertices])
    inner=[i for i,p in enumerate(orig) if all(0<p[k]<n[k] for k in range(3))]
    for i in inner: m.vertices[i].move_to(orig[i]+rng.uniform(-.3,.3,3))
    cb.MeshSmoother(m).smooth(300)
    now=np.array([v.position for v in m.vertices]); print('hex lattice restored',np.allclose(now,orig,atol=1e-7), len(inner))
