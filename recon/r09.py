import classy_blocks as cb, numpy as np, warnings, sys, copy, traceback
from classy_blocks.util import functions as f
warnings.simplefilter('ignore')
rng=np.random.default_rng(int(sys.argv[1]) if len(sys.argv)>1 else 0)
def rodr(p,ang,axis,origin):
    k=np.asarray(axis,float); k=k/np.linalg.norm(k); v=np.asarray(p,float)-origin
    return origin+v*np.cos(ang)+np.cross(k,v)*np.sin(ang)+k*np.dot(k,v)*(1-np.cos(ang))
def refl(p,n,origin):
    n=np.asarray(n,float); n=n/np.linalg.norm(n); v=np.asarray(p,float)-origin
    return origin+v-2*np.dot(v,n)*n
def content(ent):
    m=cb.Mesh(); m.add(ent); m.assemble()
    V=[v.position.copy() for v in m.vertices]
    E=[]
    for e in m.edge_list.edges:
        a,b=e.vertex_1.position,e.vertex_2.position
        if hasattr(e,'third_point'): pts=[e.third_point.position]
        elif hasattr(e,'point_array'): pts=list(e.point_array)
        else: pts=[]
        E.append((e.kind,a.copy(),b.copy(),[np.array(p) for p in pts],e.length))
    return V,E
def match(V1,E1,V2,E2,A,ratio,tol=1e-6):
    # map V1 via A and compare as sets
    errs=[]
    MV=[A(v) for v in V1]
    for p in MV:
        if min(np.linalg.norm(p-q) for q in V2)>tol: errs.append(('vertex',p)); break
    if len(V1)!=len(V2): errs.append(('nvert',len(V1),len(V2)))
    if len(E1)!=len(E2): errs.append(('nedge',len(E1),len(E2)))
    for (k,a,b,pts,L) in E1:
        a2,b2=A(a),A(b); found=False
        for (k2,c,d,pts2,L2) in E2:
            if k2!=k: continue
            if np.linalg.norm(a2-c)<tol and np.linalg.norm(b2-d)<tol: P=pts2
            elif np.linalg.norm(a2-d)<tol and np.linalg.norm(b2-c)<tol: P=pts2[::-1]
            else: continue
            found=True
            if len(P)!=len(pts): errs.append(('npts',k)); break
            d_=max([np.linalg.norm(A(p)-q) for p,q in zip(pts,P)],default=0)
            if d_>tol*10: errs.append(('edgepts',k,round(d_,4)))
            if abs(L*abs(ratio)-L2)>1e-5*max(1,L2): errs.append(('len',k,L*abs(ratio),L2))
            break
        if not found: errs.append(('edge-missing',k))
    return errs
def zoo():
    o=rng.uniform(-2,2,3); a=f.unit_vector(rng.normal(size=3)); b=f.unit_vector(np.cross(a,rng.normal(size=3))); c=np.cross(a,b)
    pts=[o,o+b,o+b+c*1.2,o+c*0.9]
    def face(kinds):
        edges=[]
        for i,k in enumerate(kinds):
            p0=np.array(pts[i]); p1=np.array(pts[(i+1)%4]); d=p1-p0; n=np.cross(d,a)
            if k=='arc': edges.append(cb.Arc((p0+p1)/2+0.2*n))
            elif k=='origin': edges.append(cb.Origin((p0+p1)/2-0.9*n))
            elif k=='angle': edges.append(cb.Angle(1.0,a*2))
            elif k=='spline': edges.append(cb.Spline([p0+0.2*d+0.2*n,p0+0.5*d+0.25*n,p0+0.8*d+0.1*n]))
            elif k=='poly': edges.append(cb.PolyLine([p0+0.2*d+0.2*n,p0+0.5*d+0.25*n]))
            elif k=='proj': edges.append(cb.Project('geo'))
            elif k=='curveL': edges.append(cb.OnCurve(cb.LinearInterpolatedCurve([p0-0.1*d,p0+0.3*d+0.2*n,p0+0.7*d+0.2*n,p1+0.1*d])))
            elif k=='curveC':
                ctr=(p0+p1)/2-0.9*n; edges.append(cb.OnCurve(cb.CircleCurve(ctr,p0,np.cross(p0-ctr,p1-ctr))))
            else: edges.append(None)
        return cb.Face(pts,edges)
    Z={}
    for k in ['arc','origin','angle','spline','poly','proj','curveL','curveC']:
        Z['extrude-'+k]=lambda k=k: cb.Extrude(face([k,None,k,None]),a*1.3)
    Z['revolve']=lambda: cb.Revolve(face(['arc',None,None,None]),0.8,c,o-b*2)
    Z['cylinder']=lambda: cb.Cylinder(o,o+a*2,o+b)
    Z['frustum']=lambda: cb.Frustum(o,o+a*2,o+b,0.5,0.8)
    Z['elbow']=lambda: cb.Elbow(o,o+b,a,1.0,o+b*3,c,0.7)
    Z['exring']=lambda: cb.ExtrudedRing(o,o+a*2,o+b,0.5,6)
    Z['revring']=lambda: cb.RevolvedRing(o,o+a*2,cb.Face([o+b,o+a*2+b,o+a*2+b*1.5,o+b*1.4]),5)
    Z['hemisphere']=lambda: cb.Hemisphere(o,o+b,a)
    Z['exstack']=lambda: cb.ExtrudedStack(cb.Grid([0,0,0],[2,3,0],2,3),2.0,2)
    Z['revstack']=lambda: cb.RevolvedStack(cb.Grid([0,0,0],[2,3,0],2,2),1.0,[0,1,0],[-2,0,0],2)
    Z['oval']=lambda: cb.ExtrudedShape(cb.Oval(o,o+b*2,a,0.8),1.0)
    Z['splinedisk']=lambda: cb.ExtrudedShape(cb.HalfSplineDisk(o,o+b*1.3,o+c*1.2,0.3,0.2),1.0)
    Z['splinering']=lambda: cb.ExtrudedShape(cb.SplineRing(o,o+b*1.3,o+c*1.2,0.3,0.2,0.2,0.2),1.0)
    Z['tjoint']=lambda: cb.TJoint(o,o+a*3,o+b)
    Z['shell']=lambda: cb.Shell([cb.Face(pts)],0.3)
    return Z
res={}
Z=zoo()
for name,mk in Z.items():
    for tk in ['translate','rotate','scale','mirror']:
        try:
            X=mk(); V1,E1=content(X)
            Y=mk() if False else X  # transform same instance after snapshot? need fresh equal instance: use copy
            Y=X.copy()
            d=rng.uniform(-2,2,3); org=rng.uniform(-2,2,3); ax=rng.normal(size=3)*2; ang=rng.uniform(0.3,2.5); ratio=rng.uniform(0.5,2)
            if tk=='translate': Y.translate(d); A=lambda p:p+d; r=1
            if tk=='rotate': Y.rotate(ang,ax,org); A=lambda p:rodr(p,ang,ax,org); r=1
            if tk=='scale': Y.scale(ratio,org); A=lambda p:org+(p-org)*ratio; r=ratio
            if tk=='mirror': Y.mirror(ax,org); A=lambda p:refl(p,ax,org); r=1
            V2,E2=content(Y)
            errs=match(V1,E1,V2,E2,A,r)
            res[(name,tk)]=errs[:2] if errs else 'ok'
        except Exception as e:
            res[(name,tk)]='EXC '+type(e).__name__+' '+str(e)[:60]
for k,v in res.items():
    if v!='ok': print(k,v)
print('ok count',sum(1 for v in res.values() if v=='ok'),'of',len(res))
