import classy_blocks as cb, numpy as np, warnings, sys
from classy_blocks.util import functions as f
warnings.simplefilter('ignore')
rng=np.random.default_rng(int(sys.argv[1]))
bad={}
def note(k,cond,info=None):
    bad.setdefault(k,[0,0]); bad[k][0]+=1
    if not cond:
        bad[k][1]+=1
        if bad[k][1]<=2: print('FAIL',k,info)
for it in range(60):
    p1=rng.uniform(-3,3,3); d=rng.normal(size=3)*rng.uniform(0.5,3); p2=p1+d
    t0=rng.uniform(0.1,0.9); on=p1+t0*d
    c=cb.LineClamp(on,p1,p2); note('line on',np.linalg.norm(c.position-on)<1e-5,(c.position,on))
    off=on+np.cross(d,rng.normal(size=3))*0.1
    c=cb.LineClamp(off,p1,p2); note('line off closest',np.linalg.norm(c.position-on)<1e-4,(c.position,on))
    for _ in range(3):
        t=rng.uniform(0,np.linalg.norm(d)); c.update_params([t]); q=c.position
        note('line manifold',np.linalg.norm(np.cross(q-p1,d))/np.linalg.norm(d)<1e-9)
    # plane
    n=rng.normal(size=3)*2; pp=rng.uniform(-3,3,3)
    u=np.cross(n,rng.normal(size=3)); onp=pp+u
    c=cb.PlaneClamp(onp,pp,n); note('plane on',np.linalg.norm(c.position-onp)<1e-5,(c.position,onp))
    offp=onp+0.3*n/np.linalg.norm(n); c=cb.PlaneClamp(offp,pp,n); note('plane off closest',np.linalg.norm(c.position-onp)<1e-4,(c.position,onp))
    c.update_params(list(rng.uniform(-2,2,2))); note('plane manifold',abs(np.dot(c.position-pp,n))/np.linalg.norm(n)<1e-9)
    # radial
    ctr=rng.uniform(-3,3,3); pos=rng.uniform(-3,3,3)
    c=cb.RadialClamp(pos,ctr,n); note('radial on',np.linalg.norm(c.position-pos)<1e-6,(c.position,pos))
    nn=n/np.linalg.norm(n); h0=np.dot(pos-ctr,nn); r0=np.linalg.norm((pos-ctr)-h0*nn)
    c.update_params([rng.uniform(-5,5)]); q=c.position; h=np.dot(q-ctr,nn); r=np.linalg.norm((q-ctr)-h*nn)
    note('radial manifold',abs(h-h0)<1e-9 and abs(r-r0)<1e-9,(h,h0,r,r0))
    # curve clamp
    cc=cb.CircleCurve(ctr,ctr+np.cross(nn,[1,0.3,0.2]),n)
    tt=rng.uniform(0.5,5.5); on=cc.get_point(tt); c=cb.CurveClamp(on,cc); note('curve on',np.linalg.norm(c.position-on)<1e-4,(c.position,on,tt))
    # links
    L=rng.uniform(-3,3,3); F=rng.uniform(-3,3,3)
    lk=cb.TranslationLink(L,F); newL=L+rng.normal(size=3); lk.leader=newL.copy(); lk.update()
    note('transl',np.allclose(lk.follower,newL+(F-L)) and np.array_equal(lk.leader,newL))
    org=rng.uniform(-2,2,3); ax=rng.normal(size=3)*3
    lk=cb.RotationLink(L,F,ax,org); ang=rng.uniform(-3,3); newL=f.rotate(L,ang,ax,org); lk.leader=newL.copy(); lk.update()
    # independent rodrigues
    k=ax/np.linalg.norm(ax); v=F-org; exp=org+v*np.cos(ang)+np.cross(k,v)*np.sin(ang)+k*np.dot(k,v)*(1-np.cos(ang))
    note('rot',np.allclose(lk.follower,exp,atol=1e-7) and np.array_equal(lk.leader,newL),(lk.follower,exp))
    lk=cb.SymmetryLink(L,F,n,org); newL=L+rng.normal(size=3); lk.leader=newL.copy(); lk.update()
    v=newL-org; exp=newL-2*np.dot(v,nn)*nn
    note('sym follower',np.allclose(lk.follower,exp,atol=1e-7),(lk.follower,exp))
    note('sym leader unchanged',np.array_equal(lk.leader,newL),(lk.leader,newL))
print({k:v for k,v in bad.items()})
