import numpy as np, itertools, warnings
from classy_blocks.optimize.grid import HexGrid, QuadGrid
from classy_blocks.util import functions as f
rng=np.random.default_rng(1)
cube=np.array([[0,0,0],[1,0,0],[1,1,0],[0,1,0],[0,0,1],[1,0,1],[1,1,1],[0,1,1]],float)
def q(pts,idx=None):
    g=HexGrid(np.array(pts,float),[idx or list(range(8))]); return g.quality
# 24 rotations as permutations of corner indices: generate by applying rotation matrices to cube corners
def rots():
    out=[]
    c=cube-0.5
    for perm in itertools.permutations(range(3)):
        for signs in itertools.product([1,-1],repeat=3):
            M=np.zeros((3,3))
            for i,p in enumerate(perm): M[i,p]=signs[i]
            if np.linalg.det(M)<0: continue
            rc=c@M.T
            # new numbering: corner k of renumbered cell is the old corner located where rotated k... 
            p=[int(np.argmin(np.linalg.norm(c-rc[k],axis=1))) for k in range(8)]
            out.append(p)
    return out
R=rots(); print(len(R))
pts=cube*[3,1,1]+rng.normal(0,0.03,(8,3))
vals=[q(pts[p]) for p in R]
print(sorted(set(np.round(vals,4))))
print('stretch x,y,z:',[q(cube*s) for s in ([2,1,1],[1,2,1],[1,1,2])], 'cube',q(cube))
# rigid/scale
Rm=f.rotation_matrix([1,2,3],0.7)
print(q(pts), q(pts@Rm.T+[3,4,5]), q(pts*10), q(pts*0.1), q(pts*100))
