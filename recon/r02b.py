import classy_blocks as cb, itertools, random
from classy_blocks.base.exceptions import *
from classy_blocks.items.block import Block
class Budget(BaseException): pass
cnt=[0]; orig=Block.copy_grading
def cg(self):
    cnt[0]+=1
    if cnt[0]>2000: raise Budget()
    return orig(self)
Block.copy_grading=cg
class PSet(set):
    def __init__(self, items, order): super().__init__(items); self._o=[items[i] for i in order]
    def __iter__(self): return iter(self._o)
cells=[(1, 1, 0), (0, 1, 0), (2, 0, 0), (2, 1, 0), (0, 0, 0), (1, 0, 0)]
spec=[((0, 1, 0), 0), ((0, 1, 0), 1), ((2, 0, 0), 1), ((2, 0, 0), 2), ((2, 1, 0), 2), ((0, 0, 0), 2), ((1, 0, 0), 0)]
out={}
rnd=random.Random(0)
for trial in range(200):
    m=cb.Mesh()
    for c in cells:
        b=cb.Box(c,[c[0]+1,c[1]+1,c[2]+1])
        for (cc,ax) in spec:
            if cc==c: b.chop(ax,count=4)
        m.add(b)
    m.assemble()
    sched=[]
    for bl in m.blocks:
        for ax in bl.axes:
            items=sorted(ax.neighbours,key=lambda a:(id(a)))  # canonical: by block order
            # canonical order by block index: find owner
            items=sorted(ax.neighbours,key=lambda a:[ (b2.index,a.index) for b2 in m.blocks if a in b2.axes][0])
            order=list(range(len(items))); rnd.shuffle(order); sched.append(tuple(order))
            ax.neighbours=PSet(items,order)
    cnt[0]=0
    try: m.grade(); r='ok:'+str([[a.count for a in b.axes] for b in m.blocks])
    except Budget: r='LIVELOCK'
    except UndefinedGradingsError: r='undef'
    out[r]=out.get(r,0)+1
print(out)
