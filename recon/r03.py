import random, math, itertools, warnings, sys
from classy_blocks.grading.chop import Chop
warnings.simplefilter('ignore')
rnd=random.Random(int(sys.argv[1]))
def sizes(L,n,te):
    if n==1: return [L]
    r=te**(1/(n-1))
    if abs(r-1)<1e-12: return [L/n]*n
    s=L*(1-r)/(1-r**n)
    return [s*r**i for i in range(n)]
keys=['count','start_size','end_size','c2c_expansion','total_expansion']
stats={}
bad=[]
for it in range(20000):
    L=10**rnd.uniform(-3,3)
    # generate consistent truth
    n=rnd.randint(1,200); r=rnd.uniform(0.5,2) if rnd.random()<0.8 else 1+rnd.uniform(-3e-7,3e-7)
    # keep start size >= 1e-4 L
    te=r**(n-1)
    sz=sizes(L,n,te)
    if min(sz)<1e-4*L: continue
    truth=dict(count=n,start_size=sz[0],end_size=sz[-1],c2c_expansion=r,total_expansion=te)
    pair=rnd.choice(list(itertools.combinations(keys,2)))
    kw={k:truth[k] for k in pair}
    # perturb sizes sometimes so not exact integer
    if 'count' not in pair and rnd.random()<0.7:
        for k in pair:
            if k.endswith('size'): kw[k]*=rnd.uniform(0.9,1.1)
    try:
        c=Chop(**kw); cnt,tex=c.calculate(L)
    except Exception as e:
        stats[(pair,'ERR '+type(e).__name__)]=stats.get((pair,'ERR '+type(e).__name__),0)+1
        if len([b for b in bad if b[0]==pair])<2: bad.append((pair,kw,L,repr(e)[:100]))
        continue
    ok = isinstance(cnt,int) and cnt>=1 and math.isfinite(tex) and tex>0
    real=sizes(L,cnt,tex) if ok else None
    tag='ok'
    if not ok: tag='BADOUT'
    else:
        rr=tex**(1/(cnt-1)) if cnt>1 else 1
        for k,v in kw.items():
            if k=='count' and cnt!=v: tag='count!='
            if 'count' in kw:
                if k=='start_size' and abs(real[0]-v)>1e-6*v: tag='start!='
                if k=='end_size' and abs(real[-1]-v)>1e-6*v: tag='end!='
                if k=='c2c_expansion' and abs(rr-v)>1e-6: tag='c2c!='
                if k=='total_expansion' and abs(tex-v)>1e-9*v: tag='te!='
            else:
                if k=='start_size' and real[0]>v*(1+1e-6): tag='start coarser'
                if k=='end_size' and real[-1]>v*(1+1e-6): tag='end coarser'
                if cnt>1:
                    # one fewer
                    pass
    stats[(pair,tag)]=stats.get((pair,tag),0)+1
    if tag!='ok' and len([b for b in bad if b[0]==pair])<3: bad.append((pair,kw,L,cnt,tex,tag,real[0],real[-1]))
for k in sorted(stats): print(k,stats[k])
for b in bad: print(b)
