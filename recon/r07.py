import classy_blocks as cb, numpy as np, warnings
warnings.simplefilter('ignore')
pts=[[0,0,0],[1,0,0],[1,1,0],[0,1,0]]
for pos in range(4):
    p0=np.array(pts[pos],float); p1=np.array(pts[(pos+1)%4],float)
    d=p1-p0; n=np.cross(d,[0,0,1.])
    # asymmetric spline points from p0 to p1: bulge near p0
    sp=[p0+0.1*d+0.3*n, p0+0.2*d+0.35*n, p0+0.6*d+0.1*n]
    edges=[None]*4; edges[pos]=cb.Spline(sp)
    f=cb.Face(pts,edges)
    op=cb.Extrude(f,1.0)
    for a in range(3): op.chop(a,count=2)
    m=cb.Mesh(); m.add(op); m.assemble()
    print('pos',pos, m.edge_list.description.strip().splitlines()[2][:60], 'len', m.edge_list.edges[0].length)
    # angle edge
    edges=[None]*4; edges[pos]=cb.Angle(np.pi/2,[0,0,1])
    f=cb.Face(pts,edges); op=cb.Extrude(f,1.0); m=cb.Mesh(); m.add(op); m.assemble()
    e=m.edge_list.edges[0]; print('   angle',e.vertex_1.index,e.vertex_2.index,e.third_point.position, 'expected side: mid-', (p0+p1)/2 + (-n)*(0.5*(2**.5-1)))
