import numpy as np, sys, warnings
warnings.simplefilter('ignore')
src=open('/verif/recon/r09.py').read()
head=src.split("res={}")[0]
exec(head)
import classy_blocks as cb
res={}
Z=zoo()
for name,mk in Z.items():
    for tk in ['T-rot-None','T-scale-None','T-mirror-None','rot-None','scale-None','T-compose3']:
        try:
            X=mk(); V1,E1=content(X); ctr=np.array(X.center,float).copy()
            d=rng.uniform(-2,2,3); org=rng.uniform(-2,2,3); ax=rng.normal(size=3)*2; ang=rng.uniform(0.3,2.5); ratio=rng.uniform(0.5,2)
            r=1
            if tk=='T-rot-None': X.transform([cb.Rotation(ax,ang)]); A=lambda p:rodr(p,ang,ax,ctr)
            if tk=='T-scale-None': X.transform([cb.Scaling(ratio)]); A=lambda p:ctr+(p-ctr)*ratio; r=ratio
            if tk=='T-mirror-None': X.transform([cb.Mirror(ax)]); A=lambda p:refl(p,ax,np.zeros(3))
            if tk=='rot-None': X.rotate(ang,ax); A=lambda p:rodr(p,ang,ax,ctr)
            if tk=='scale-None': X.scale(ratio); A=lambda p:ctr+(p-ctr)*ratio; r=ratio
            if tk=='T-compose3':
                X.transform([cb.Translation(d),cb.Rotation(ax,ang,org),cb.Scaling(ratio,org)]); r=ratio
                A=lambda p: org+(rodr(p+d,ang,ax,org)-org)*ratio
            V2,E2=content(X)
            errs=match(V1,E1,V2,E2,A,r)
            res[(name,tk)]=errs[:2] if errs else 'ok'
        except Exception as e:
            res[(name,tk)]='EXC '+type(e).__name__+' '+str(e)[:70]
for k,v in res.items():
    if v!='ok': print(k,v)
print('ok',sum(1 for v in res.values() if v=='ok'),'of',len(res))
