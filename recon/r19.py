import classy_blocks as cb, numpy as np, warnings, sys
from classy_blocks.util import functions as f
warnings.simplefilter('ignore')
rng=np.random.default_rng(1); bad=0
for it in range(20):
    nx,ny,nt=rng.integers(1,6),rng.integers(1,6),rng.integers(1,5)
    g=cb.Grid([0,0,0],[nx,ny,0],int(nx),int(ny))
    kind=rng.integers(0,3)
    if kind==0: s=cb.ExtrudedStack(g,float(nt),int(nt)); loc=lambda c:(int(c[0]),int(c[1]),int(c[2]))
    elif kind==1:
        ang=0.2*nt; s=cb.RevolvedStack(g,ang,[0,1,0],[-3,0,0],int(nt))
        def loc(c):
            r=np.hypot(c[0]+3,c[2]); th=np.arctan2(-c[2],c[0]+3)
            return (int(r-3),int(c[1]),int(th/(ang/nt)))
    else:
        s=cb.TransformedStack(g,[cb.Translation([0,0,1])],int(nt)); loc=lambda c:(int(c[0]),int(c[1]),int(c[2]))
    for k in range(nt):
        for j in range(ny):
            for i in range(nx):
                op=s.grid[k][j][i]
                if loc(op.center)!=(i,j,k): bad+=1; print('grid',kind,(i,j,k),loc(op.center))
    for ax,n in ((0,nx),(1,ny),(2,nt)):
        for idx in range(n):
            ops=s.get_slice(ax,idx)
            if len(ops)!=len(set(map(id,ops))): bad+=1; print('dups')
            exp=nx*ny*nt//n
            if len(ops)!=exp or any(loc(o.center)[ax]!=idx for o in ops): bad+=1; print('slice',kind,ax,idx,len(ops),exp)
print('bad',bad)
# round shapes core/shell
o=np.array([1.,2,3]); a=f.unit_vector([1,2,2]); b=f.unit_vector(np.cross(a,[0,0,1.])); r=1.5
for name,sh in [('cyl',cb.Cylinder(o,o+a*2,o+b*r)),('semi',cb.SemiCylinder(o,o+a*2,o+b*r)),('frustum',cb.Frustum(o,o+a*2,o+b*r,0.7)),('elbow',cb.Elbow(o,o+b*r,a,1.0,o+b*4,np.cross(a,b),1.0)),('hemi',cb.Hemisphere(o,o+b*r,a))]:
    def touches(op):
        P=op.point_array
        if name=='hemi': d=np.linalg.norm(P-o,axis=1)
        elif name in('cyl','semi'): d=np.linalg.norm(np.cross(P-o,a),axis=1)
        else: return None
        return bool(np.any(abs(d-r)<1e-6))
    c=[touches(op) for op in sh.core]; s_=[touches(op) for op in sh.shell]
    print(name,len(sh.core),len(sh.shell),len(sh.operations),set(c),set(s_))
