import classy_blocks as cb, os, tempfile
from classy_blocks.base.exceptions import *
# C01: two adjacent chopped blocks conflicting
m = cb.Mesh()
a = cb.Box([0,0,0],[1,1,1]); b = cb.Box([1,0,0],[2,1,1])
for ax in range(3): a.chop(ax,count=10)
b.chop(0,count=3); b.chop(1,count=5)  # conflict on axis 1 (shared face x=1 -> axes 1,2 shared)
m.add(a); m.add(b)
try:
    m.write('/tmp/recon/out1'); print("WROTE silently")
    print([ (bl.indexes,[ax.count for ax in bl.axes]) for bl in m.blocks])
except Exception as e: print(type(e).__name__, e)
