import classy_blocks as cb, numpy as np, warnings, io, contextlib, sys, itertools
from classy_blocks.optimize.grid import HexGrid
warnings.simplefilter('ignore')
rng=np.random.default_rng(int(sys.argv[1]))
res=[]
for it in range(12):
    m=cb.Mesh()
    n=(2,2,rng.integers(1,3))
    for c in itertools.product(range(n[0]),range(n[1]),range(n[2])):
        b=cb.Box(c,[c[0]+1,c[1]+1,c[2]+1]); m.add(b)
    m.assemble(skip_edges=True)
    for v in m.vertices: v.move_to(v.position+rng.uniform(-.15,.15,3))
    before=np.array([v.position.copy() for v in m.vertices])
    q0=HexGrid.from_mesh(m).quality
    opt=cb.MeshOptimizer(m,report=False)
    idx=rng.choice(len(m.vertices),size=3,replace=False)
    kinds=[]
    for i in idx:
        p=m.vertices[i].position
        k=rng.integers(0,4)
        if k==0: cl=cb.FreeClamp(p)
        elif k==1: cl=cb.LineClamp(p,p-[0.2,0.1,0.05],p+[0.4,0.2,0.1])
        elif k==2: cl=cb.PlaneClamp(p,p,[1,2,3])
        else: cl=cb.RadialClamp(p,[5,5,5],[0,1,1])
        kinds.append(k); opt.add_clamp(cl)
    method=['SLSQP','L-BFGS-B','Nelder-Mead','Powell'][rng.integers(0,4)]
    with contextlib.redirect_stdout(io.StringIO()):
        opt.optimize(max_iterations=int(rng.integers(1,4)),method=method)
    after=np.array([v.position for v in m.vertices])
    q1=HexGrid.from_mesh(m).quality
    moved=[i for i in range(len(before)) if np.linalg.norm(before[i]-after[i])>0]
    res.append((method,kinds,round(q0,3),round(q1,3),q1<=q0+1e-9,set(moved)<=set(idx.tolist()), np.allclose(after,opt.grid.points)))
for r in res: print(r)
