import classy_blocks as cb, numpy as np, warnings, sys, traceback
from classy_blocks.util import functions as f
warnings.simplefilter('ignore')
rng=np.random.default_rng(int(sys.argv[1]))
def frame():
    a=f.unit_vector(rng.normal(size=3)); b=f.unit_vector(np.cross(a,rng.normal(size=3))); return a,b,np.cross(a,b)
def jac_ok(m):
    bad=0
    for b in m.blocks:
        P=np.array([v.position for v in b.vertices])
        nb={0:(1,3,4),1:(2,0,5),2:(3,1,6),3:(0,2,7),4:(7,5,0),5:(4,6,1),6:(5,7,2),7:(6,4,3)}
        for c,(i,j,k) in nb.items():
            if np.dot(np.cross(P[i]-P[c],P[j]-P[c]),P[k]-P[c])<=0: bad+=1
    return bad
def try_(name,build):
    try:
        m=cb.Mesh(); ent=build()
        for e in (ent if isinstance(ent,list) else [ent]): m.add(e)
        m.write('/tmp/recon/o11')
        print(name,'OK blocks',len(m.blocks),'verts',len(m.vertices),'badjac',jac_ok(m))
    except Exception as e:
        print(name,'FAIL',type(e).__name__,str(e)[:80].replace('\n',' '))
o=rng.uniform(-3,3,3); a,b,c=frame(); r=rng.uniform(0.5,2); L=rng.uniform(0.5,3)
def chop3(s):
    s.chop_axial(count=3); s.chop_radial(count=2); s.chop_tangential(count=4); return s
try_('Cylinder',lambda: chop3(cb.Cylinder(o,o+a*L,o+b*r)))
try_('SemiCylinder',lambda: chop3(cb.SemiCylinder(o,o+a*L,o+b*r)))
try_('Frustum',lambda: chop3(cb.Frustum(o,o+a*L,o+b*r,r*0.6)))
try_('FrustumMid',lambda: chop3(cb.Frustum(o,o+a*L,o+b*r,r*0.6,r*0.9)))
try_('Elbow',lambda: chop3(cb.Elbow(o,o+b*r,a,np.pi/3,o+b*3*r,np.cross(a,b)*(1),r*0.8)))
try_('ExtrudedRing',lambda: chop3(cb.ExtrudedRing(o,o+a*L,o+b*r,r*0.5,n_segments=int(rng.integers(3,12)))))
def revring():
    face=cb.Face([o+a*0+b*r, o+a*L+b*r, o+a*L+b*(r*1.5), o+a*0+b*(r*1.4)])
    return chop3(cb.RevolvedRing(o,o+a*L,face,n_segments=int(rng.integers(3,10))))
try_('RevolvedRing',revring)
try_('Hemisphere',lambda: chop3(cb.Hemisphere(o,o+b*r,a)))
def shell():
    bx=cb.Box([0,0,0],[1,1,1]); 
    for i in range(3): bx.chop(i,count=2)
    faces=[bx.get_face('top'),bx.get_face('right')]
    s=cb.Shell(faces,0.3); s.chop(count=2); return [bx,s]
try_('Shell',shell)
def stack(kind):
    g=cb.Grid([0,0,0],[2,3,0],2,3)
    if kind=='e': s=cb.ExtrudedStack(g,2.0,2)
    elif kind=='r': s=cb.RevolvedStack(g,np.pi/3,[0,1,0],[-2,0,0],2)
    else: s=cb.TransformedStack(g,[cb.Translation([0,0,1]),cb.Rotation([0,0,1],0.2,[0,0,0])],2)
    s.chop(count=2)
    for op in s.get_slice(2,0)[:1]: pass
    s.grid[0][0][0].chop(0,count=2); s.grid[0][0][0].chop(1,count=2)
    return s
for k in 'ert': try_('Stack'+k,lambda: stack(k))
def extr(sk):
    s=cb.ExtrudedShape(sk,L)
    s.chop(0,count=2); s.chop(1,count=3); s.chop(2,count=2); return s
try_('OneCoreDisk',lambda: extr(cb.OneCoreDisk(o,o+b*r,a)))
try_('FourCoreDisk',lambda: extr(cb.FourCoreDisk(o,o+b*r,a)))
try_('HalfDisk',lambda: extr(cb.HalfDisk(o,o+b*r,a)))
try_('WrappedDisk',lambda: extr(cb.WrappedDisk(o,o+(b+c)*r*2,r,a)))
try_('Oval',lambda: extr(cb.Oval(o,o+b*2*r,a,r)))
for nm,cls in [('QuarterSplineDisk',cb.QuarterSplineDisk),('HalfSplineDisk',cb.HalfSplineDisk),('SplineDisk',cb.SplineDisk)]:
    for sd in [(0,0),(0.3,0.2)]:
        try_(nm+str(sd),lambda: extr(cls(o,o+b*(r+sd[0]),o+c*(r*1.0+sd[1]),sd[0],sd[1])))
for nm,cls in [('QuarterSplineRing',cb.QuarterSplineRing),('HalfSplineRing',cb.HalfSplineRing),('SplineRing',cb.SplineRing)]:
    for sd in [(0,0),(0.3,0.2)]:
        try_(nm+str(sd),lambda: extr(cls(o,o+b*(r+sd[0]),o+c*(r*1.0+sd[1]),sd[0],sd[1],0.3,0.3)))
def joint(cls,*args):
    j=cls(o,o+a*3*r,o+b*r,*args) 
    j.chop_axial(count=3); j.chop_radial(count=2); j.chop_tangential(count=3); return j
try_('LJoint',lambda: joint(cb.LJoint)); try_('TJoint',lambda: joint(cb.TJoint))
for n in (3,4,5,6): try_('NJoint%d'%n,lambda: joint(cb.NJoint,n))
