import classy_blocks as cb, numpy as np, warnings
warnings.simplefilter('ignore')
def mk():
    m=cb.Mesh()
    a=cb.Box([0,0,0],[1,1,1]); b=cb.Box([1,0,0],[2,1,1]); c=cb.Box([2,0,0],[3,1,1])
    for ax in range(3): a.chop(ax,count=4+ax)
    b.chop(0,count=3); c.chop(0,start_size=0.1)
    a.set_patch('left','inlet'); c.set_patch('right','outlet')
    for o in (a,b,c): m.add(o)
    return m,(a,b,c)
m,_=mk(); m.write('/tmp/recon/w1')
try:
    m.write('/tmp/recon/w2'); print('second write same?', open('/tmp/recon/w1').read()==open('/tmp/recon/w2').read())
    import difflib; print('\n'.join(list(difflib.unified_diff(open('/tmp/recon/w1').read().splitlines(),open('/tmp/recon/w2').read().splitlines(),lineterm=''))[:20]))
except Exception as e: print('second write raised',type(e).__name__,e)
# modify patch then clear
m,_=mk(); m.modify_patch('inlet','wall',['x y']); m.assemble(); m.clear(); m.write('/tmp/recon/w3')
print([l for l in open('/tmp/recon/w3').read().splitlines() if 'type' in l])
m,_=mk(); m.assemble(); m.modify_patch('inlet','wall'); m.clear(); m.write('/tmp/recon/w3')
print([l for l in open('/tmp/recon/w3').read().splitlines() if 'type' in l])
# backport after delete
m,(a,b,c)=mk(); m.delete(b); m.assemble()
before=[o.point_array.copy() for o in (a,b,c)]
m.backport()
for o,bf,nm in zip((a,b,c),before,'abc'): print(nm,'changed' if not np.allclose(o.point_array,bf) else 'same')
