import classy_blocks as cb, numpy as np, warnings
warnings.simplefilter('ignore')
o=np.zeros(3); b=np.array([1.,0,0]); c=np.array([0,1.,0])
sk=cb.SplineDisk(o,o+b*1.0,o+c*1.0,0,0)
print(len(sk.faces),[len(g) for g in sk.grid], sk.indexes)
s=cb.ExtrudedShape(sk,1.0)
m=cb.Mesh(); m.add(s); m.assemble()
print(len(m.vertices))
for bl in m.blocks: print(bl.index, bl.indexes, [len(ax.neighbours) for ax in bl.axes])
