import classy_blocks as cb, numpy as np, warnings, itertools
warnings.simplefilter('ignore')
def build(order, merges):
    a=cb.Box([0,0,0],[1,1,1]); b=cb.Box([1,0,0],[2,1,1]); c=cb.Box([1,1,0],[2,2,1]); d=cb.Box([0,1,0],[1,2,1])
    a.set_patch('right','m1'); b.set_patch('left','s1')   # interface a|b at x=1
    a.set_patch('back','m2'); d.set_patch('front','s2')   # interface a|d at y=1
    ops={'a':a,'b':b,'c':c,'d':d}
    m=cb.Mesh()
    for k in order: m.add(ops[k])
    for ms in merges: m.merge_patches(*ms)
    m.assemble()
    return m,ops
for order in ['abcd','dcba','bdac']:
    m,ops=build(order,[('m1','s1'),('m2','s2')])
    print(order,len(m.vertices))
    # partition: position -> {block letter: idx}
    part={}
    for k,blk in zip(order,m.blocks):
        for v in blk.vertices:
            part.setdefault(tuple(np.round(v.position,6)),{}).setdefault(v.index,[]).append(k)
    print({p:v for p,v in part.items() if len(v)>1})
