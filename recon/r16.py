import classy_blocks as cb, numpy as np, warnings
warnings.simplefilter('ignore')
rng=np.random.default_rng(3)
t=np.sort(rng.uniform(0,1,8)); t[0]=0;t[-1]=1
pts=np.array([[3*x, np.sin(3*x), 0.5*x*x] for x in t])
for cls in (cb.LinearInterpolatedCurve,cb.SplineInterpolatedCurve):
    c=cls(pts)
    full=c.get_length(); a,b=0.13,0.77; m=0.4
    dense=lambda p,q: float(np.sum(np.linalg.norm(np.diff(np.array([c.get_point(x) for x in np.linspace(p,q,4000)]),axis=0),axis=1)))
    print(cls.__name__,'full',full,'dense',dense(0,1),'poly',float(np.sum(np.linalg.norm(np.diff(pts,axis=0),axis=1))))
    print('  part',c.get_length(a,b),'dense',dense(a,b),'split',c.get_length(a,m)+c.get_length(m,b),'rev',c.get_length(b,a))
d=cb.DiscreteCurve(pts); print(d.get_length(1,5),d.get_length(5,1),d.get_length(1,3)+d.get_length(3,5))
cc=cb.CircleCurve([1,2,3],[2,2,3],[0,0,2]); print(cc.get_length(0.3,2.0), 1.7, cc.get_closest_param([1+np.cos(1.1)*1.05,2+np.sin(1.1)*1.05,3.02]))
