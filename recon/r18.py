import classy_blocks as cb, numpy as np, itertools, warnings, sys
from classy_blocks.util import functions as f
warnings.simplefilter('ignore')
rng=np.random.default_rng(int(sys.argv[1]))
cube=np.array([[0,0,0],[1,0,0],[1,1,0],[0,1,0],[0,0,1],[1,0,1],[1,1,1],[0,1,1]],float)
def perms48():
    out=[]; c=cube-0.5
    for perm in itertools.permutations(range(3)):
        for signs in itertools.product([1,-1],repeat=3):
            M=np.zeros((3,3))
            for i,p in enumerate(perm): M[i,p]=signs[i]
            rc=c@M.T
            out.append([int(np.argmin(np.linalg.norm(c-rc[k],axis=1))) for k in range(8)])
    return out
P=perms48()
fails={}
for it in range(40):
    dist=rng.choice([0.05,0.15,0.25])
    pts=(cube*rng.uniform(0.5,2,3))+rng.normal(0,1,(8,3))*0 + rng.uniform(-dist,dist,(8,3))
    R=f.rotation_matrix(rng.normal(size=3),rng.uniform(0,6)); pts=pts@R.T+rng.uniform(-3,3,3)
    ctr=pts.mean(0)
    # observer near normal of 'front' face of canonical numbering (points 0,1,5,4), ceiling near top
    fn=np.cross(pts[1]-pts[0],pts[4]-pts[0]); fn=f.unit_vector(fn)  # points outward? front face (4 5 1 0) normal = -y
    tn=f.unit_vector(np.cross(pts[5]-pts[4],pts[7]-pts[4]))
    obs=ctr+10*f.unit_vector(fn+rng.normal(0,0.15,3)); ceil=ctr+10*f.unit_vector(tn+rng.normal(0,0.15,3))
    results=[]
    for p in P:
        q=pts[p]
        op=cb.Loft(cb.Face(q[:4]),cb.Face(q[4:]))
        try:
            cb.ViewpointReorienter(obs,ceil).reorient(op)
            results.append(tuple(np.round(op.point_array,9).flatten()))
        except Exception as e:
            results.append(type(e).__name__)
    ds=len(set(results))
    # check expected = canonical pts
    ok = all((not isinstance(r,str)) and np.allclose(np.array(r).reshape(8,3),pts,atol=1e-8) for r in results)
    fails[(dist,ok)]=fails.get((dist,ok),0)+1
    if not ok: print(dist,ds,[r for r in results if isinstance(r,str)][:2])
print(fails)
