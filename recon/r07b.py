import classy_blocks as cb, numpy as np, warnings
warnings.simplefilter('ignore')
pts=[[0,0,0],[1,0,0],[1,1,0],[0,1,0]]
p0=np.array(pts[0],float); p1=np.array(pts[1],float); d=p1-p0; n=np.cross(d,[0,0,1.])
sp=[p0+0.1*d+0.3*n, p0+0.2*d+0.35*n, p0+0.6*d+0.1*n]
for kind in ('spline','angle','polyline'):
    e={'spline':cb.Spline(sp),'polyline':cb.PolyLine(sp),'angle':cb.Angle(np.pi/2,[0,0,1])}[kind]
    f=cb.Face(pts,[e,None,None,None])
    f.invert()
    op=cb.Extrude(f,-1.0)
    m=cb.Mesh(); m.add(op); m.assemble()
    print(kind,[ (i,type(x).__name__) for i,x in enumerate(f.edges)], m.edge_list.description.strip().splitlines()[2:4], m.edge_list.edges[0].length, [v for v in m.vertex_list.description.splitlines()[2:6]])
