import classy_blocks as cb, numpy as np, warnings
from classy_blocks.grading.grading import Grading
from classy_blocks.grading.chop import Chop
from classy_blocks.items.side import Side
from classy_blocks.items.block import Block
from classy_blocks.items.vertex import Vertex
from classy_blocks.util.frame import Frame
from classy_blocks.construct.flat.sketches.annulus import Annulus
from classy_blocks.construct.point import Point
from classy_blocks.construct.array import Array
warnings.simplefilter('ignore')
OK=(ValueError,KeyError,RuntimeError)
def t(name,fn,expect):
    try:
        fn(); r='accepted'
    except Exception as e:
        lib=type(e).__module__.startswith('classy_blocks')
        r=('rejected:' if (lib or isinstance(e,OK)) else 'CRASH:')+type(e).__name__
    flag='' if (expect=='reject')==(r.startswith('rejected')) else '   <<<<<<'
    print(f'{name:55s} {expect:7s} {r}{flag}')
P=[[0,0,0],[1,0,0],[1,1,0],[0,1,0]]
t('Face 3 points',lambda: cb.Face(P[:3]),'reject'); t('Face 5 points',lambda: cb.Face(P+[[0,0,1]]),'reject'); t('Face 4',lambda: cb.Face(P),'accept')
t('Face 3 edges',lambda: cb.Face(P,[None]*3),'reject'); t('Face 5 edges',lambda: cb.Face(P,[None]*5),'reject')
for c in (-1,0,3,4): t(f'Face.add_edge({c})',lambda c=c: cb.Face(P).add_edge(c,cb.Arc([0.5,-.2,0])),'accept' if 0<=c<=3 else 'reject')
for c in (-1,0,3,4): t(f'Face.project_edge({c})',lambda c=c: cb.Face(P).project_edge(c,'g'),'accept' if 0<=c<=3 else 'reject')
box=lambda: cb.Box([0,0,0],[1,1,1])
for c in (-1,0,3,4): t(f'add_side_edge({c})',lambda c=c: box().add_side_edge(c,cb.Arc([0,0,.5])),'accept' if 0<=c<=3 else 'reject')
for c in (-1,0,7,8): t(f'project_corner({c})',lambda c=c: box().project_corner(c,'g'),'accept' if 0<=c<=7 else 'reject')
for a in (-1,0,2,3): t(f'chop axis {a}',lambda a=a: box().chop(a,count=2),'accept' if 0<=a<=2 else 'reject')
for a in (-1,0,2,3): t(f'unchop axis {a}',lambda a=a: box().unchop(a),'accept' if 0<=a<=2 else 'reject')
for pr in ((0,1),(0,2),(0,6),(1,1),(3,0),(0,8),(-1,0)): t(f'project_edge{pr}',lambda pr=pr: box().project_edge(pr[0],pr[1],'g'),'accept' if pr in ((0,1),(3,0)) else 'reject')
t('set_patch bad side',lambda: box().set_patch('middle','x'),'reject'); t('project_side bad',lambda: box().project_side('middle','x'),'reject'); t('get_face bad',lambda: box().get_face('middle'),'reject')
for n in (0,1,2,3): t(f'Project {n} labels',lambda n=n: cb.Project(['a','b','c'][:n]),'accept' if n in (1,2) else 'reject')
def addlab():
    p=cb.Project(['a','b']); p.add_label('c')
t('Project add third',addlab,'reject')
for lr in (-0.1,0,1e-9,1,1+1e-9,2): t(f'length_ratio {lr}',lambda lr=lr: Grading(1.0).add_chop(Chop(length_ratio=lr,count=3)),'accept' if 0<lr<=1 else 'reject')
for ir,ex in ((0.5,'accept'),(1.0,'reject'),(1.5,'reject'),(0,'accept?'),(-0.5,'reject')): t(f'Annulus inner {ir} outer 1',lambda ir=ir: Annulus([0,0,0],[1,0,0],[0,0,1],ir),ex[:6])
for ir in (0.5,1.0,1.5): t(f'ExtrudedRing inner {ir}',lambda ir=ir: cb.ExtrudedRing([0,0,0],[0,0,1],[1,0,0],ir),'accept' if ir<1 else 'reject')
for dz in (-0.5,-1e-3,-1e-9,0,1e-9,1e-3,0.5):
    t(f'Cylinder radius lean {dz}',lambda dz=dz: cb.Cylinder([0,0,0],[0,0,1],[1,0,dz]),'accept' if abs(dz)<1e-7 else 'reject')
for dz in (-0.5,0,0.5): t(f'SemiCylinder lean {dz}',lambda dz=dz: cb.SemiCylinder([0,0,0],[0,0,1],[1,0,dz]),'accept' if abs(dz)<1e-7 else 'reject')
for dz in (-0.5,0,0.5): t(f'Frustum lean {dz}',lambda dz=dz: cb.Frustum([0,0,0],[0,0,1],[1,0,dz],0.5),'accept' if abs(dz)<1e-7 else 'reject')
for dz in (-0.5,0,0.5): t(f'ExtrudedRing lean {dz}',lambda dz=dz: cb.ExtrudedRing([0,0,0],[0,0,1],[1,0,dz],0.5),'accept' if abs(dz)<1e-7 else 'reject')
for dz in (-0.5,0,0.5): t(f'Elbow radius lean {dz}',lambda dz=dz: cb.Elbow([0,0,0],[1,0,dz],[0,0,1],1.0,[3,0,0],[0,1,0],0.8),'accept' if abs(dz)<1e-7 else 'reject')
cyl=lambda: cb.Cylinder([0,0,0],[0,0,1],[1,0,0]); ring=lambda: cb.ExtrudedRing([0,0,0],[0,0,1],[1,0,0],0.5)
for L in (-1,0,1): t(f'Cylinder.chain {L}',lambda L=L: cb.Cylinder.chain(cyl(),L),'accept' if L>0 else 'reject')
for L in (-1,0,1): t(f'Frustum.chain {L}',lambda L=L: cb.Frustum.chain(cyl(),L,0.5),'accept' if L>0 else 'reject')
for L in (-1,0,1): t(f'ExtrudedRing.chain {L}',lambda L=L: cb.ExtrudedRing.chain(ring(),L),'accept' if L>0 else 'reject')
for r in (-0.1,0,0.3,0.5,0.6): t(f'contract {r}',lambda r=r: cb.ExtrudedRing.contract(ring(),r),'accept' if 0<r<0.5 else 'reject')
for th in (-0.1,0,0.3): t(f'expand {th}',lambda th=th: cb.ExtrudedRing.expand(cyl(),th),'accept' if th>0 else 'reject')
t('fill 6 seg',lambda: cb.Cylinder.fill(cb.ExtrudedRing([0,0,0],[0,0,1],[1,0,0],0.5,6)),'reject'); t('fill 8',lambda: cb.Cylinder.fill(ring()),'accept')
t('Elbow.chain on ring',lambda: cb.Elbow.chain(ring(),1,[3,0,0],[0,1,0],.5),'reject')
t('Lofted diff faces',lambda: cb.LoftedShape(cb.Grid([0,0,0],[1,1,0],2,2),cb.Grid([0,0,1],[1,1,1],2,3)),'reject')
t('Lofted mid diff',lambda: cb.LoftedShape(cb.Grid([0,0,0],[1,1,0],2,2),cb.Grid([0,0,1],[1,1,1],2,2),cb.Grid([0,0,.5],[1,1,.5],1,2)),'reject')
t('from_series 1',lambda: cb.Loft.from_series([cb.Face(P)]),'reject')
t('Point 2d',lambda: Point([0,1]),'reject'); t('Point 4d',lambda: Point([0,1,2,3]),'reject'); t('Array 1 pt',lambda: Array([[0,0,0]]),'reject'); t('Array 2d pts',lambda: Array([[0,0],[1,1]]),'reject'); t('Array flat',lambda: Array([0,0,0]),'reject')
t('Spline 1 pt',lambda: cb.Spline([[0,0,0]]),'reject')
V=[Vertex([i,0,0],i) for i in range(8)]
t('Side 7',lambda: Side('top',V[:7]),'reject'); t('Side 9',lambda: Side('top',V+[V[0]]),'reject'); t('Side bad orient',lambda: Side('middle',V),'reject')
for pr in ((0,1),(0,2),(0,8),(-1,0)): t(f'Block.add_edge{pr}',lambda pr=pr: Block(0,V).add_edge(pr[0],pr[1],None),'accept' if pr==(0,1) else 'reject')
for pr in ((0,1),(0,2),(0,8)): t(f'Frame.add_beam{pr}',lambda pr=pr: Frame().add_beam(pr[0],pr[1],1),'accept' if pr==(0,1) else 'reject')
def m1():
    m=cb.Mesh(); b=box(); m.add(b); return m
t('grade before assemble',lambda: m1().grade(),'reject'); t('backport before assemble',lambda: m1().backport(),'reject')
def opt(kind):
    m=m1(); m.assemble(); o=cb.MeshOptimizer(m,report=False)
    if kind=='dup': o.add_clamp(cb.FreeClamp([0,0,0])); o.add_clamp(cb.FreeClamp([0,0,0]))
    if kind=='noclamp': o.add_clamp(cb.FreeClamp([5,5,5]))
    if kind=='nolead': o.add_link(cb.TranslationLink([5,5,5],[0,0,0]))
    if kind=='nofol': o.add_link(cb.TranslationLink([0,0,0],[5,5,5]))
    if kind=='same': o.add_link(cb.TranslationLink([0,0,0],[0,0,0]))
    if kind=='ok': o.add_clamp(cb.FreeClamp([0,0,0])); o.add_link(cb.TranslationLink([0,0,0],[1,0,0]))
for k in ('dup','noclamp','nolead','nofol','same'): t('optimizer '+k,lambda k=k: opt(k),'reject')
t('optimizer ok',lambda: opt('ok'),'accept')
t('RotationLink leader on axis',lambda: cb.RotationLink([0,0,1],[1,0,0],[0,0,1],[0,0,0]),'reject')
t('Shell chop disconnected',lambda: cb.Shell([cb.Face(P),cb.Face(np.array(P)+[5,0,0])],0.1).chop(count=2),'reject')
for a in (0,2*np.pi,7): t(f'Angle edge angle {a}',lambda a=a: (lambda m:(m.add(cb.Extrude(cb.Face(P,[cb.Angle(a,[0,0,1]),None,None,None]),1.0)),m.assemble()))(cb.Mesh()),'reject')
