import classy_blocks as cb, numpy as np, warnings
warnings.simplefilter('ignore')
o=np.array([1.,2,3]); b=np.array([1.,0,0]); c=np.array([0,1.,0])
for sd in [(0,0),(0.3,0.2)]:
    cb.SplineDisk.chops=[[4],[4,5,7,8,9,11]]
    sk=cb.SplineDisk(o,o+b*(1+sd[0]),o+c*(1+sd[1]),sd[0],sd[1])
    s=cb.ExtrudedShape(sk,1.0); s.chop(0,count=2); s.chop(1,count=3); s.chop(2,count=2)
    m=cb.Mesh(); m.add(s)
    try: m.write('/tmp/recon/o'); print('SplineDisk',sd,'OK')
    except Exception as e: print('SplineDisk',sd,type(e).__name__,str(e)[:200])
# HalfSplineDisk core/shell
h=cb.HalfSplineDisk(o,o+b,o+c,0,0)
R=1.0
for nm,faces in (('core',h.core),('shell',h.shell)):
    print(nm,[bool(np.any(abs(np.linalg.norm(f.point_array-o,axis=1)-R)<1e-6)) for f in faces])
q=cb.QuarterSplineDisk(o,o+b,o+c,0,0)
for nm,faces in (('qcore',q.core),('qshell',q.shell)):
    print(nm,[bool(np.any(abs(np.linalg.norm(f.point_array-o,axis=1)-R)<1e-6)) for f in faces])
f_=cb.SplineDisk(o,o+b,o+c,0,0)
for nm,faces in (('fcore',f_.core),('fshell',f_.shell)):
    print(nm,[bool(np.any(abs(np.linalg.norm(f.point_array-o,axis=1)-R)<1e-6)) for f in faces])
