import classy_blocks as cb, random, itertools, sys
from classy_blocks.base.exceptions import *
from classy_blocks.items.block import Block
class Live(Exception): pass
cnt=[0]
orig=Block.copy_grading
def cg(self):
    cnt[0]+=1
    if cnt[0]>5000: raise Live()
    return orig(self)
Block.copy_grading=cg
seed=int(sys.argv[1]); rnd=random.Random(seed)
res={}
for it in range(300):
    nx,ny,nz=rnd.choice([(2,2,1),(3,1,1),(3,2,1),(2,2,2),(3,3,1)])
    cells=[c for c in itertools.product(range(nx),range(ny),range(nz)) if rnd.random()<0.8]
    rnd.shuffle(cells)
    m=cb.Mesh(); spec=[]
    for c in cells:
        b=cb.Box(c,[c[0]+1,c[1]+1,c[2]+1])
        for ax in range(3):
            if rnd.random()<0.3:
                b.chop(ax,count=4); spec.append((c,ax))
        m.add(b)
    if not cells: continue
    cnt[0]=0
    try:
        m.assemble(); m.grade(); r='ok'
    except Live: r='LIVELOCK'
    except UndefinedGradingsError: r='undef'
    except InconsistentGradingsError: r='incons'
    res[r]=res.get(r,0)+1
    if r=='LIVELOCK' and res[r]<3: print(cells,spec)
print(res)
