import classy_blocks as cb, numpy as np, warnings
warnings.simplefilter('ignore')
exec(open('r04.py').read().split('# a loft')[0])
m=cb.Mesh()
def quad(x0,x1,y0,y1,z,flip=False):
    p=[[x0,y0,z],[x1,y0,z],[x1,y1,z],[x0,y1,z]]
    if flip: p=[p[2],p[3],p[0],p[1]]  # rotate 180 deg: axis0 and axis1 reversed
    return cb.Face(p)
# three blocks stacked in x; y-lengths vary with x and z so edges unequal
def blk(i,flip):
    def y1(x,z): return 1+0.5*x+0.3*z
    p=lambda x,z:[[x,0,z],[x+1,0,z],[x+1,y1(x+1,z),z],[x,y1(x,z),z]]
    b=p(i,0); t=p(i,1)
    if flip: b=[b[2],b[3],b[0],b[1]]; t=[t[2],t[3],t[0],t[1]]
    return cb.Loft(cb.Face(b),cb.Face(t))
A=blk(0,False); B=blk(1,True); C=blk(2,False)
A.chop(1,start_size=0.05,c2c_expansion=1.2,preserve='start_size'); A.chop(0,count=2); A.chop(2,count=2)
B.chop(0,count=2); C.chop(0,count=2)
for o in (A,B,C): m.add(o)
m.assemble(); m.grade()
for b in m.blocks:
    ax=b.axes[1]
    for w in ax.wires:
        s=sizes(w.length,w.grading.specification)
        p0=w.vertices[0].position; p1=w.vertices[1].position
        lowy = s[0] if p0[1]<p1[1] else s[-1]
        print(b.index,w.corners,round(w.length,3),'size at y=0 end',round(lowy,5), w.grading.specification)
