import classy_blocks as cb, numpy as np, warnings, re
warnings.simplefilter('ignore')
# independent hex convention (OpenFOAM user guide): vertices 0-3 bottom (z-), 4-7 top; x along 0->1, y along 1->2 (0->3)
FACES={'bottom':{0,1,2,3},'top':{4,5,6,7},'left':{0,3,7,4},'right':{1,2,6,5},'front':{0,1,5,4},'back':{3,2,6,7}}
EDGES=[(0,1),(1,2),(2,3),(3,0),(4,5),(5,6),(6,7),(7,4),(0,4),(1,5),(2,6),(3,7)]
def write(op,geo=True):
    m=cb.Mesh(); 
    for a in range(3): op.chop(a,count=1)
    m.add(op); 
    if geo: m.add_geometry({'g':['type searchablePlane','planeType pointAndNormal','point (0 0 0)','normal (0 0 1)']})
    m.write('/tmp/recon/o10'); return open('/tmp/recon/o10').read()
bx=lambda: cb.Loft(cb.Face([[0,0,0],[1,0,0],[1.1,1,0],[0,1.2,0]]),cb.Face([[0,0,1],[1,0,1.1],[1.1,1,1.2],[0,1.2,1.3]]))
bad=0
for side,exp in FACES.items():
    op=bx(); op.set_patch(side,'pp'); txt=write(op)
    q=re.search(r'pp\s*\{[^}]*faces\s*\(\s*\(([\d ]+)\)',txt).group(1); got=set(map(int,q.split()))
    if got!=exp: bad+=1; print('patch',side,got,exp)
    op=bx(); op.project_side(side,'g'); txt=write(op)
    q=re.search(r'faces\s*\(\s*project \(([\d ]+)\) g',txt).group(1); got=set(map(int,q.split()))
    if got!=exp: bad+=1; print('projside',side,got,exp)
    op=bx(); fc=op.get_face(side); P=op.point_array
    got={int(np.argmin(np.linalg.norm(P-p,axis=1))) for p in fc.point_array}
    if got!=exp: bad+=1; print('get_face',side,got,exp)
for (a,b) in EDGES:
    for (c1,c2) in ((a,b),(b,a)):
        op=bx(); op.project_edge(c1,c2,'g'); txt=write(op)
        got=re.findall(r'^\s*project (\d+) (\d+) \(g\)',txt,re.M)
        if len(got)!=1 or {int(got[0][0]),int(got[0][1])}!={a,b}: bad+=1; print('projedge',c1,c2,got)
for c in range(8):
    op=bx(); op.project_corner(c,'g'); txt=write(op)
    vs=re.search(r'vertices\s*\((.*?)\);',txt,re.S).group(1).strip().splitlines()
    got=[i for i,l in enumerate(vs) if 'project' in l]
    if got!=[c]: bad+=1; print('projcorner',c,got)
print('bad',bad)
print(write(bx())[900:])
