import classy_blocks as cb, numpy as np, warnings
warnings.simplefilter('ignore')
def sizes(L,spec):
    out=[]
    tot_n=sum(s[1] for s in spec)
    for lr,n,te in spec:
        l=L*lr
        if n==1: out+= [l]; continue
        r=te**(1/(n-1))
        s=l/n if abs(r-1)<1e-12 else l*(1-r)/(1-r**n)
        out+=[s*r**i for i in range(n)]
    return out
def dump(m):
    for b in m.blocks:
        for ax in b.axes:
            for w in ax.wires:
                print(b.index,ax.index,w.corners,[v.index for v in w.vertices],round(w.length,4),w.grading.specification, 'first/last', [round(x,5) for x in (sizes(w.length,w.grading.specification)[0],sizes(w.length,w.grading.specification)[-1])])
# a loft with unequal edges + flipped neighbour, preserve start_size
m=cb.Mesh()
f1=cb.Face([[0,0,0],[1,0,0],[1,1,0],[0,1,0]]); f2=cb.Face([[0,0,1],[2,0,1],[2,2,1],[0,2,1]])
a=cb.Loft(f1,f2)
a.chop(1,start_size=0.05,c2c_expansion=1.2,preserve="start_size"); a.chop(0,count=5); a.chop(2,count=3)
m.add(a)
# neighbour on right side (x direction) flipped: built so that its axis 0 runs opposite
g1=cb.Face([[3,0,0],[1,0,0],[1,1,0],[3,1,0]][::-1]) # reversed order to keep normal? just try
b=cb.Loft(cb.Face([[3,1,0],[1,1,0],[1,0,0],[3,0,0]]), cb.Face([[4,2,1],[2,2,1],[2,0,1],[4,0,1]]))
b.chop(0,count=2); m.add(b)
m.assemble(); m.grade(); dump(m)
print(m.block_list.description)
